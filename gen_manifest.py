#!/usr/bin/env python3
"""Regenerate MANIFEST.json from checks_table.py (single source of truth for the per-property runs)."""
import json, subprocess
from checks_table import PROPS

props = [json.loads(l) for l in open("properties.jsonl")]
hook_commits = subprocess.run(["git", "-C", "/repo", "log", "--format=%h %s", "--grep=^verif_hooks"], capture_output=True, text=True).stdout.strip().splitlines()
engines = {}
for pid, s in PROPS.items():
    for r in s["runs"]:
        engines.setdefault(r["engine"], set()).add(pid)
m = {
    "version": 1,
    "setup_cmd": "./check setup",
    "hooks": {
        "guard": "cargo feature `verif_hooks` (off by default) on swimos_runtime, swimos_agent, swimos_server_app, swimos_remote",
        "enable": "the harness workspace (/verif/harness/Cargo.toml) depends on the /repo crates by path with features = [\"verif_hooks\"]; /repo's own workspace never enables it",
        "baseline_off_cmd": "cd /repo && cargo nextest run --workspace --no-fail-fast --test-threads 8 --offline || cargo test --workspace --no-fail-fast --offline",
        "source_commits": [c.split()[0] for c in hook_commits],
        "add_only": True,
    },
    "engines": [{"name": e, "path": f"harness/engines/{e}", "serves_properties": sorted(ps), "kind_free_text": "runtime monitor: drives the real swim-rust code under generated workloads; oracles over observed executions"} for e, ps in sorted(engines.items())],
    "checks": [],
    "notes": "Family: runtime monitoring and sanitizers. ./check <id> builds the engines from /repo's working tree, runs them (VERIF_SEED, VERIF_TIER), applies known_findings.json, writes evidence/<id>.json. Exit 0 held / 1 violation / 2 inconclusive.",
    "not_applicable": [],
}
for p in props:
    pid = p["id"]
    if pid in PROPS and PROPS[pid].get("ready", True):
        s = PROPS[pid]
        m["checks"].append({
            "property_id": pid,
            "quick_cmd": f"./check {pid} --tier quick",
            "thorough_cmd": f"./check {pid} --tier thorough",
            "evidence_file": f"/verif/evidence/{pid}.json",
            "replay_cmd_template": "./check replay {path}",
            "engine": "+".join(sorted({r["engine"] for r in s["runs"]})),
            "level_claimed": {"category": s["level"], "text": s["text"], "design_ref": s["design_ref"]},
            "level_note": s["note"],
            "technique": s["technique"],
        })
    else:
        m["not_applicable"].append({"property_id": pid, "reason": "check not registered yet at this commit (engine under construction; runtime monitoring applies, see DESIGN.md §3)"})
json.dump(m, open("MANIFEST.json", "w"), indent=1)
print("checks:", [c["property_id"] for c in m["checks"]], "not yet:", [n["property_id"] for n in m["not_applicable"]])
