#!/usr/bin/env python3
"""Regenerate the table of seeded changes in DESIGN.md (between the SEEDED-TABLE markers) from
seeded/<id>/meta.json and seeded/<id>/check_result.json."""
import json, os, re, sys
ROOT = os.path.dirname(os.path.dirname(os.path.abspath(__file__)))
rows = []
def key(i):
    m = re.match(r"(R(\d+)-)?C(\d+)-(\d+)", i)
    return (int(m.group(2) or 1), int(m.group(3)), int(m.group(4)))
for i in sorted(os.listdir(os.path.join(ROOT, "seeded")), key=key):
    d = os.path.join(ROOT, "seeded", i)
    try:
        meta = json.load(open(os.path.join(d, "meta.json")))
    except Exception:
        continue
    res = {}
    if os.path.exists(os.path.join(d, "check_result.json")):
        res = json.load(open(os.path.join(d, "check_result.json")))
    files = ", ".join(os.path.basename(os.path.dirname(f)) + "/" + os.path.basename(f) if os.path.basename(f) == "mod.rs" else os.path.basename(f) for f in meta.get("files_changed", []))
    what = meta.get("what_it_breaks", "")
    what = re.split(r"(?<=[.!?])\s", what.strip())[0][:260].replace("|", "/")
    props = " ".join(res.get("exit_codes", {}).keys()) if isinstance(res.get("exit_codes"), dict) else key(i) and "C%02d" % key(i)[1]
    out = res.get("outcome", "not evaluated")
    out = "caught" if out.startswith("caught") else ("MISSED" if out.startswith("MISSED") else out)
    sigs = "; ".join("`%s`" % s for s in res.get("first_signatures", [])[:3])
    rows.append(f"| {i} | {files} | {what} | {props} | {out} | {sigs} |")
table = "| change | file(s) | what it breaks (author's words, first sentence) | check(s) run | result | signatures reported (first three) |\n|---|---|---|---|---|---|\n" + "\n".join(rows) + "\n"
p = os.path.join(ROOT, "DESIGN.md")
s = open(p).read()
b, e = "<!-- SEEDED-TABLE-BEGIN -->", "<!-- SEEDED-TABLE-END -->"
if b in s and e in s:
    s = s[: s.index(b) + len(b)] + "\n" + table + s[s.index(e):]
    open(p, "w").write(s)
    print("table updated:", len(rows), "rows")
else:
    print(table)
