#!/bin/bash
# Final evaluation: run the quick check of the property each confirmed seeded change breaks against
# that change (applied to /repo, undone straight afterwards) and record the outcome next to it.
# Usage: eval_final.sh [ids...]   (default: every /verif/seeded/C*-*)
cd /verif || exit 2
ids=("$@"); [ ${#ids[@]} -eq 0 ] && ids=($(ls seeded | grep -E '^C[0-9]+-[0-9]+$'))
for id in "${ids[@]}"; do
  d=/verif/seeded/$id; prop=${id%-*}
  [ -f $d/patch.diff ] || continue
  cd /repo; if [ -n "$(git status --porcelain)" ]; then echo "REPO NOT CLEAN"; exit 2; fi
  if ! git apply --check $d/patch.diff 2>/dev/null; then echo "$id: patch does not apply"; echo '{"outcome":"patch does not apply on HEAD"}' > $d/check_result.json; continue; fi
  git apply $d/patch.diff
  out=$(cd /verif && ./check $prop --tier quick 2>&1); code=$?
  git checkout -- .
  sigs=$(echo "$out" | grep -E "^    signature=" | sed 's/^    signature=//; s/ :: .*//' | sort -u | head -8 | python3 -c 'import sys,json; print(json.dumps([l.strip() for l in sys.stdin]))')
  summary=$(echo "$out" | grep -E "held on|violated:|inconclusive" | tail -1)
  python3 - "$d" "$prop" "$code" "$sigs" "$summary" <<'PY'
import json,sys
d,prop,code,sigs,summary=sys.argv[1:6]
outcome={"0":"MISSED (check exited 0)","1":"caught (check exited 1 with VIOLATION lines)","2":"inconclusive (check exited 2)"}.get(code,"exit "+code)
json.dump({"command":f"git -C /repo apply patch.diff && ./check {prop} --tier quick && git -C /repo checkout -- .","exit_code":int(code),"outcome":outcome,"first_signatures":json.loads(sigs),"summary":summary},open(d+"/check_result.json","w"),indent=1)
PY
  echo "$id: exit=$code $(echo $sigs | cut -c1-160)"
done
