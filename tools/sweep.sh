sed -i "s#\"/repo/#\"$VP_RUN_REPO/#g" harness/Cargo.toml
./check setup 2>&1 | tail -2
echo "=== QUICK seed 1"
for p in C01 C02 C03 C04 C05 C06 C07 C08 C09 C10 C11 C12 C13 C14 C15 C16 C17 C18 C19 C20; do r=$(./check $p --tier quick 2>&1); c=$?; echo "QUICK seed=1 $p exit=$c $(echo "$r" | grep -E "^VIOLATION|signature=|INCONCLUSIVE|held on" | head -4 | tr "\n" " " | cut -c1-400)"; done
echo "=== THOROUGH"
for p in C03 C04 C02 C01 C05 C14 C20 C17 C07 C08 C06 C11 C12 C13 C18 C19 C15 C10 C09 C16; do s=$(date +%s); r=$(./check $p --tier thorough 2>&1); c=$?; echo "THOROUGH $p exit=$c secs=$(( $(date +%s) - s )) $(echo "$r" | grep -E "^VIOLATION|signature=|INCONCLUSIVE|held on" | head -6 | tr "\n" " " | cut -c1-600)"; done
echo "=== SOAK"
for seed in 2 3 4; do for p in C01 C02 C03 C04 C05 C06 C07 C08 C09 C10 C11 C12 C13 C14 C15 C16 C17 C18 C19 C20; do r=$(VERIF_SEED=$seed ./check $p --tier quick 2>&1); c=$?; echo "SOAK seed=$seed $p exit=$c $(echo "$r" | grep -E "^VIOLATION|signature=|INCONCLUSIVE" | head -4 | tr "\n" " " | cut -c1-400)"; done; done
echo "=== THOROUGH seed 2"
for p in C03 C04 C02 C01 C20 C14 C05 C07 C08 C17; do s=$(date +%s); r=$(VERIF_SEED=2 ./check $p --tier thorough 2>&1); c=$?; echo "THOROUGH2 $p exit=$c secs=$(( $(date +%s) - s )) $(echo "$r" | grep -E "^VIOLATION|signature=|INCONCLUSIVE|held on" | head -6 | tr "\n" " " | cut -c1-600)"; done
