# Background sweep (vp run --with-repo -- bash tools/sweep.sh): quick tier at several seeds, then the thorough tier.
sed -i "s#\"/repo/#\"$VP_RUN_REPO/#g" harness/Cargo.toml
./check setup 2>&1 | tail -2
ALL="C01 C02 C03 C04 C05 C06 C07 C08 C09 C10 C11 C12 C13 C14 C15 C16 C17 C18 C19 C20"
echo "=== QUICK"
for seed in 1 2 3 4; do for p in $ALL; do r=$(VERIF_SEED=$seed ./check $p --tier quick 2>&1); c=$?; echo "QUICK seed=$seed $p exit=$c $(echo "$r" | grep -E "^VIOLATION|signature=|INCONCLUSIVE" | head -4 | tr "\n" " " | cut -c1-500)"; done; done
echo "=== THOROUGH"
for p in C03 C04 C02 C01 C05 C14 C20 C17 C07 C08 C06 C11 C13 C12 C18 C19 C15 C10 C09 C16; do s=$(date +%s); r=$(VERIF_SEED=${THOROUGH_SEED:-1} ./check $p --tier thorough 2>&1); c=$?; echo "THOROUGH $p exit=$c secs=$(( $(date +%s) - s )) $(echo "$r" | grep -E "^VIOLATION|signature=|INCONCLUSIVE|held on" | head -6 | tr "\n" " " | cut -c1-700)"; done
