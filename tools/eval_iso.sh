#!/bin/bash
# Evaluate a seeded change in isolation (neither /repo nor /verif is touched): a scratch worktree of /repo's
# HEAD gets the patch, a copy of /verif is pointed at it and its quick checks are run.
# Usage: eval_iso.sh <patch.diff|none> <Cxx> [<Cyy> ...]     (env EV=/tmp/ev2 scratch root; SRC=/verif the tree of /verif to copy, e.g. an export of a commit)
set -u
patch="$1"; shift
EV=${EV:-/tmp/ev2}; W=$EV/repo; V=$EV/verif; SRC=${SRC:-/verif}
mkdir -p $EV
if [ ! -d $W ]; then git -C /repo worktree add --detach $W HEAD >/dev/null 2>&1 || exit 2; fi
git -C $W checkout -q --detach $(git -C /repo rev-parse HEAD) && git -C $W checkout -- . && git -C $W clean -fdq
mkdir -p $V
rsync -a --delete --exclude /target --exclude /target-tsan --exclude /target-miri --exclude /target-asan --exclude /evidence --exclude /replays --exclude /.git --exclude /seeded $SRC/ $V/
sed -i "s#\"/repo/#\"$W/#g" $V/harness/Cargo.toml
if [ "$patch" != none ]; then git -C $W apply "$patch" || { echo "PATCH DOES NOT APPLY"; exit 2; }; fi
for p in "$@"; do
  out=$(cd $V && ./check "$p" --tier quick 2>&1); code=$?
  echo "== $p exit=$code"
  echo "$out" | grep -E "^VIOLATION|signature=|INCONCLUSIVE|held on|violated|inconclusive" | cut -c1-220 | head -10
done
git -C $W checkout -- . ; git -C $W clean -fdq
