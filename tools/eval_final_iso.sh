#!/bin/bash
# Final evaluation of the seeded changes in isolation (neither /repo nor /verif is touched): for each
# /verif/seeded/<id>/patch.diff run the quick check(s) of the property it breaks in a scratch copy
# (tools/eval_iso.sh) and record the outcome in seeded/<id>/check_result.json.
# The properties to run are those named in seeded/<id>/check_props (one line, space separated) or else
# the property in the id (C07-1 -> C07, R2-C07-1 -> C07).
# Usage: eval_final_iso.sh [ids...]   (default: every directory of /verif/seeded)
cd /verif || exit 2
ids=("$@"); [ ${#ids[@]} -eq 0 ] && ids=($(ls seeded))
tmp=$(mktemp)
for id in "${ids[@]}"; do
  d=/verif/seeded/$id
  [ -f $d/patch.diff ] || continue
  prop=$(echo "$id" | grep -oE 'C[0-9]{2}' | head -1)
  props="$prop"; [ -f $d/check_props ] && props=$(cat $d/check_props)
  # a change whose delivered patch no longer applies because /repo's HEAD received a fix in the same lines
  # since carries the same edit rebased on HEAD as patch.head.diff
  pf=$d/patch.diff; [ -f $d/patch.head.diff ] && pf=$d/patch.head.diff
  tools/eval_iso.sh $pf $props > $tmp 2>&1
  python3 - "$d" "$props" "$tmp" <<'PY'
import json,sys,re
d,props,tmp=sys.argv[1:4]
out=open(tmp).read()
codes=[int(x) for x in re.findall(r"^== C\d\d exit=(\d+)",out,re.M)]
sigs=sorted(set(re.findall(r"signature=(.*?) :: ",out)))[:8]
summ=[l.strip() for l in out.splitlines() if re.search(r"held on|violated:|inconclusive",l)]
if "PATCH DOES NOT APPLY" in out: outcome="patch does not apply on HEAD"
elif any(c==1 for c in codes): outcome="caught (check exited 1 with VIOLATION lines)"
elif codes and all(c==0 for c in codes): outcome="MISSED (check exited 0)"
else: outcome="inconclusive (exit codes %s)"%codes
json.dump({"command":"tools/eval_iso.sh seeded/<id>/patch.diff %s  (patch applied to a scratch worktree of /repo HEAD; ./check <prop> --tier quick run in a copy of /verif pointed at it)"%props,"exit_codes":dict(zip(props.split(),codes)),"outcome":outcome,"first_signatures":sigs,"summary":summ},open(d+"/check_result.json","w"),indent=1)
print(d.split('/')[-1], outcome, sigs[:3])
PY
done
rm -f $tmp
