#!/bin/bash
# Run the check(s) of a property against a seeded change: apply the patch to /repo, run the quick
# check, restore /repo. Usage: eval_seeded.sh <patch.diff> <Cxx> [<Cyy> ...]
set -u
patch="$1"; shift
cd /repo || exit 2
if [ -n "$(git status --porcelain)" ]; then echo "REPO NOT CLEAN"; exit 2; fi
if ! git apply --check "$patch" 2>/dev/null; then echo "PATCH DOES NOT APPLY"; exit 2; fi
git apply "$patch"
for p in "$@"; do
  out=$(cd /verif && ./check "$p" --tier quick 2>&1); code=$?
  echo "== $p exit=$code"
  echo "$out" | grep -E "^VIOLATION|signature=|INCONCLUSIVE|held on|violated|inconclusive" | head -12
done
git checkout -- . && git status --porcelain | head -3
