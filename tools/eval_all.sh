#!/bin/bash
# Evaluate every delivered seeded change that has not been evaluated yet (sequentially; /repo is mutated meanwhile).
for d in /tmp/mut/C*-out; do
  id=$(basename $d | sed 's/-out//')
  for p in $d/patch*.diff; do
    [ -f "$p" ] || continue
    n=$(basename $p .diff | sed 's/patch//'); n=${n:-1}
    meta=$d/meta.json; [ "$n" != "1" ] && meta=$d/meta$n.json
    [ -f "$meta" ] || continue   # agent not finished with this one
    out=/tmp/mut/eval/$id-$n.txt
    [ -f "$out" ] && continue
    echo "##### $id patch $n" | tee $out
    /verif/tools/eval_seeded.sh $p $id 2>&1 | tee -a $out | tail -6
  done
done
