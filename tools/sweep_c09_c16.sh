sed -i "s#\"/repo/#\"$VP_RUN_REPO/#g" harness/Cargo.toml
./check setup 2>&1 | tail -2
for p in C09 C16; do s=$(date +%s); r=$(VERIF_SEED=3 ./check $p --tier thorough 2>&1); c=$?; echo "THOROUGH $p exit=$c secs=$(( $(date +%s) - s )) $(echo "$r" | grep -E "^VIOLATION|signature=|INCONCLUSIVE|held on|miri|tsan" | head -8 | tr "\n" " " | cut -c1-900)"; done
