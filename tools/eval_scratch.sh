#!/bin/bash
# Evaluate a seeded change without touching /repo: a scratch worktree of /repo's HEAD gets the patch, a
# copy of the harness is pointed at it, and one engine is run directly. Prints the violation signatures.
# Usage: [EV=/tmp/ev-mine] eval_scratch.sh <patch.diff|none> <engine> <prop> [engine args...]   (EV: scratch root, default /tmp/ev)
set -u
patch="$1"; engine="$2"; prop="$3"; shift 3
EV=${EV:-/tmp/ev}; mkdir -p $EV; W=$EV/repo; H=$EV/harness; T=$EV/target
if [ ! -d $W ]; then git -C /repo worktree add --detach $W HEAD >/dev/null 2>&1 || exit 2; fi
git -C $W checkout -q --detach $(git -C /repo rev-parse HEAD) && git -C $W checkout -- . && git -C $W clean -fdq
if [ "$patch" != none ]; then git -C $W apply "$patch" || { echo "PATCH DOES NOT APPLY"; exit 2; }; fi
mkdir -p $H; rsync -a --delete --exclude target /verif/harness/ $H/
sed -i "s#\"/repo/#\"$W/#g" $H/Cargo.toml
sed -i "s#/verif/target#$T#" $H/.cargo/config.toml
( cd $H && CARGO_TARGET_DIR=$T CARGO_NET_OFFLINE=true cargo build --release -p $engine 2>&1 | grep -E "^error" -A8 | head -30 )
out=$EV/out.$engine.$prop.json
$T/release/$engine --prop $prop --tier quick --seed ${VERIF_SEED:-1} --out $out "$@" >$EV/stdout.txt 2>&1; echo "engine exit=$?"
python3 - $out <<'PY'
import json,sys
d=json.load(open(sys.argv[1]))
kf={ (k['property'],k['signature']) for k in json.load(open('/verif/known_findings.json'))['findings'] if k.get('status')=='known'} if True else set()
v=d.get('violations',[])
print("parts",[(p.get("name"),p.get("cases")) for p in d.get("parts",[])][:12],"violations",len(v))
seen={}
for x in v:
    key=(x.get('property'),x.get('signature'))
    seen[key]=seen.get(key,0)+1
for (p,s),n in sorted(seen.items()):
    print(("KNOWN " if (p,s) in kf else "NEW   ")+f"{p} {s} x{n}")
PY
git -C $W checkout -- . ; git -C $W clean -fdq
