//! `Jitter<F>`: delays a future at poll boundaries only (self-wake + `Pending` before polling the
//! inner future), which is exactly the freedom a scheduler has; it cannot create an interleaving
//! the program could not have.

use std::future::Future;
use std::pin::Pin;
use std::task::{Context, Poll};

use crate::Rng;

pub struct Jitter<F> {
    inner: Pin<Box<F>>,
    rng: Rng,
    /// Probability (per mille) that a poll is deferred.
    per_mille: u64,
    /// Upper bound on consecutive deferrals (keeps progress bounded).
    max_run: u32,
    run: u32,
    pub deferred: u64,
}

impl<F: Future> Jitter<F> {
    pub fn new(inner: F, rng: Rng, per_mille: u64) -> Self {
        Jitter { inner: Box::pin(inner), rng, per_mille, max_run: 4, run: 0, deferred: 0 }
    }
}

impl<F: Future> Future for Jitter<F> {
    type Output = F::Output;

    fn poll(self: Pin<&mut Self>, cx: &mut Context<'_>) -> Poll<Self::Output> {
        let this = self.get_mut();
        if this.per_mille > 0 && this.run < this.max_run && this.rng.below(1000) < this.per_mille {
            this.run += 1;
            this.deferred += 1;
            cx.waker().wake_by_ref();
            return Poll::Pending;
        }
        this.run = 0;
        this.inner.as_mut().poll(cx)
    }
}

impl<F> Unpin for Jitter<F> {}
