//! Shared machinery of the runtime-monitoring engines: deterministic PRNG, global ticket clock,
//! case runner (threads, panic capture, watchdog), violation records and the JSON report an engine
//! hands to `/verif/check`.

use std::collections::{BTreeMap, HashSet};
use std::hash::{Hash, Hasher};
use std::panic::{catch_unwind, AssertUnwindSafe};
use std::path::PathBuf;
use std::sync::atomic::{AtomicU64, AtomicUsize, Ordering};
use std::sync::{Arc, Mutex};
use std::time::{Duration, Instant};

pub use serde_json::{json, Value as Json};

pub mod jitter;

// ------------------------------------------------------------------------------------------------
// PRNG (xoshiro256** seeded through splitmix64). Own implementation so that the stream is stable
// whatever version of `rand` the repository pins.

#[derive(Clone, Debug)]
pub struct Rng {
    s: [u64; 4],
}

fn splitmix(x: &mut u64) -> u64 {
    *x = x.wrapping_add(0x9E37_79B9_7F4A_7C15);
    let mut z = *x;
    z = (z ^ (z >> 30)).wrapping_mul(0xBF58_476D_1CE4_E5B9);
    z = (z ^ (z >> 27)).wrapping_mul(0x94D0_49BB_1331_11EB);
    z ^ (z >> 31)
}

impl Rng {
    pub fn new(seed: u64) -> Rng {
        let mut x = seed;
        let s = [splitmix(&mut x), splitmix(&mut x), splitmix(&mut x), splitmix(&mut x)];
        Rng { s }
    }

    /// PRNG for one case: a function of (run seed, part name, case index) only.
    pub fn for_case(seed: u64, part: &str, case: u64) -> Rng {
        let mut h = Fnv::default();
        seed.hash(&mut h);
        part.hash(&mut h);
        case.hash(&mut h);
        Rng::new(h.finish())
    }

    pub fn next_u64(&mut self) -> u64 {
        let result = self.s[1].wrapping_mul(5).rotate_left(7).wrapping_mul(9);
        let t = self.s[1] << 17;
        self.s[2] ^= self.s[0];
        self.s[3] ^= self.s[1];
        self.s[1] ^= self.s[2];
        self.s[0] ^= self.s[3];
        self.s[2] ^= t;
        self.s[3] = self.s[3].rotate_left(45);
        result
    }

    /// Uniform in `0..n` (`n > 0`).
    pub fn below(&mut self, n: u64) -> u64 {
        debug_assert!(n > 0);
        // Multiply-shift; bias is irrelevant for workload generation.
        ((self.next_u64() as u128 * n as u128) >> 64) as u64
    }

    pub fn usize_below(&mut self, n: usize) -> usize {
        self.below(n as u64) as usize
    }

    /// Uniform in `lo..=hi`.
    pub fn range(&mut self, lo: u64, hi: u64) -> u64 {
        lo + self.below(hi - lo + 1)
    }

    pub fn range_i64(&mut self, lo: i64, hi: i64) -> i64 {
        let span = (hi as i128 - lo as i128 + 1) as u128;
        let r = (self.next_u64() as u128 * span) >> 64;
        (lo as i128 + r as i128) as i64
    }

    pub fn chance(&mut self, num: u64, den: u64) -> bool {
        self.below(den) < num
    }

    pub fn bool(&mut self) -> bool {
        self.next_u64() & 1 == 1
    }

    pub fn f64_unit(&mut self) -> f64 {
        (self.next_u64() >> 11) as f64 / (1u64 << 53) as f64
    }

    pub fn pick<'a, T>(&mut self, xs: &'a [T]) -> &'a T {
        &xs[self.usize_below(xs.len())]
    }

    pub fn shuffle<T>(&mut self, xs: &mut [T]) {
        for i in (1..xs.len()).rev() {
            let j = self.usize_below(i + 1);
            xs.swap(i, j);
        }
    }

    pub fn fork(&mut self) -> Rng {
        Rng::new(self.next_u64())
    }
}

// ------------------------------------------------------------------------------------------------
// FNV-1a hasher: stable across runs and toolchains (unlike `DefaultHasher`'s documented freedom).

#[derive(Clone)]
pub struct Fnv(u64);

impl Default for Fnv {
    fn default() -> Self {
        Fnv(0xcbf2_9ce4_8422_2325)
    }
}

impl Hasher for Fnv {
    fn finish(&self) -> u64 {
        self.0
    }
    fn write(&mut self, bytes: &[u8]) {
        for b in bytes {
            self.0 ^= *b as u64;
            self.0 = self.0.wrapping_mul(0x0100_0000_01b3);
        }
    }
}

pub fn fnv_of<T: Hash>(t: &T) -> u64 {
    let mut h = Fnv::default();
    t.hash(&mut h);
    h.finish()
}

// ------------------------------------------------------------------------------------------------
// One clock for all monitors.

static TICKET: AtomicU64 = AtomicU64::new(1);

/// Draw the next ticket of the global logical clock.
pub fn ticket() -> u64 {
    TICKET.fetch_add(1, Ordering::SeqCst)
}

// ------------------------------------------------------------------------------------------------
// Arguments.

#[derive(Clone, Copy, Debug, PartialEq, Eq)]
pub enum Tier {
    Quick,
    Thorough,
}

#[derive(Clone, Debug)]
pub struct Args {
    pub prop: String,
    pub tier: Tier,
    pub seed: u64,
    pub out: Option<PathBuf>,
    pub replay: Option<PathBuf>,
    pub threads: usize,
    /// Multiplier applied to every case budget (sanitizer / Miri runs use a small fraction).
    pub scale: f64,
    pub extra: BTreeMap<String, String>,
    pub verbose: bool,
}

impl Args {
    pub fn parse() -> Args {
        let mut a = Args {
            prop: String::new(),
            tier: Tier::Quick,
            seed: 1,
            out: None,
            replay: None,
            threads: std::thread::available_parallelism().map(|n| n.get()).unwrap_or(4),
            scale: 1.0,
            extra: BTreeMap::new(),
            verbose: false,
        };
        let mut it = std::env::args().skip(1);
        while let Some(k) = it.next() {
            let mut val = || it.next().unwrap_or_else(|| usage(&format!("missing value for {k}")));
            match k.as_str() {
                "--prop" => a.prop = val(),
                "--tier" => {
                    a.tier = match val().as_str() {
                        "quick" => Tier::Quick,
                        "thorough" => Tier::Thorough,
                        o => usage(&format!("bad tier {o}")),
                    }
                }
                "--seed" => a.seed = val().parse().unwrap_or_else(|_| usage("bad seed")),
                "--out" => a.out = Some(PathBuf::from(val())),
                "--replay" => a.replay = Some(PathBuf::from(val())),
                "--threads" => a.threads = val().parse().unwrap_or_else(|_| usage("bad threads")),
                "--scale" => a.scale = val().parse().unwrap_or_else(|_| usage("bad scale")),
                "--verbose" => a.verbose = true,
                other if other.starts_with("--") => {
                    let v = val();
                    a.extra.insert(other[2..].to_string(), v);
                }
                other => usage(&format!("unexpected argument {other}")),
            }
        }
        a
    }

    pub fn thorough(&self) -> bool {
        self.tier == Tier::Thorough
    }

    /// Budget helper: pick by tier, apply `--scale`, never below 1.
    pub fn budget(&self, quick: u64, thorough: u64) -> u64 {
        let b = if self.thorough() { thorough } else { quick };
        ((b as f64 * self.scale) as u64).max(1)
    }

    pub fn extra_u64(&self, key: &str) -> Option<u64> {
        self.extra.get(key).and_then(|v| v.parse().ok())
    }
}

fn usage(msg: &str) -> ! {
    eprintln!("harness argument error: {msg}");
    eprintln!("usage: <engine> --prop Cxx [--tier quick|thorough] [--seed N] [--out file] [--replay file] [--threads N] [--scale F]");
    std::process::exit(2)
}

// ------------------------------------------------------------------------------------------------
// Per-case output.

#[derive(Clone, Debug)]
pub struct Violation {
    pub property: String,
    /// Stable signature: rule that fired + minimal distinguishing facts; never seeds or counters.
    pub signature: String,
    pub what: String,
    pub detail: Json,
    pub part: String,
    pub case: u64,
}

pub struct CaseOut {
    sig: Fnv,
    sig_used: bool,
    pub nontrivial: bool,
    pub counters: BTreeMap<String, u64>,
    pub violations: Vec<(String, String, String, Json)>,
    pub inconclusive: Option<String>,
    pub sample: Option<Json>,
    pub verbose: bool,
    /// Monitored events observed in this case (frames, callbacks, store ops ...).
    pub events: u64,
}

impl CaseOut {
    fn new(verbose: bool) -> CaseOut {
        CaseOut {
            sig: Fnv::default(),
            sig_used: false,
            nontrivial: false,
            counters: BTreeMap::new(),
            violations: Vec::new(),
            inconclusive: None,
            sample: None,
            verbose,
            events: 0,
        }
    }

    /// Fold something into the case signature (distinctness is decided on the final hash).
    pub fn sig<T: Hash>(&mut self, t: &T) {
        self.sig_used = true;
        t.hash(&mut self.sig);
    }

    pub fn count(&mut self, key: &str) {
        self.add(key, 1);
    }

    pub fn add(&mut self, key: &str, n: u64) {
        if n > 0 || !self.counters.contains_key(key) {
            *self.counters.entry(key.to_string()).or_insert(0) += n;
        }
    }

    pub fn violation(&mut self, property: &str, signature: impl Into<String>, what: impl Into<String>, detail: Json) {
        self.violations.push((property.to_string(), signature.into(), what.into(), detail));
    }

    pub fn inconclusive(&mut self, why: impl Into<String>) {
        self.inconclusive = Some(why.into());
    }

    pub fn set_sample(&mut self, j: Json) {
        self.sample = Some(j);
    }

    pub fn log(&self, msg: impl FnOnce() -> String) {
        if self.verbose {
            eprintln!("{}", msg());
        }
    }
}

// ------------------------------------------------------------------------------------------------
// Session: runs parts, merges, writes the report.

struct PartSummary {
    name: String,
    rule: String,
    exhaustive: bool,
    evaluations: u64,
    distinct_nontrivial: u64,
    events: u64,
    inconclusive: u64,
    inconclusive_why: BTreeMap<String, u64>,
    counters: BTreeMap<String, u64>,
    samples: Vec<Json>,
    wall_s: f64,
}

pub struct Session {
    pub args: Args,
    engine: String,
    parts: Vec<PartSummary>,
    violations: Vec<Violation>,
    start: Instant,
    replay: Option<(String, u64)>,
    replay_signature: Option<String>,
    notes: Vec<String>,
}

struct Shared {
    distinct: HashSet<u64>,
    events: u64,
    inconclusive: u64,
    inconclusive_why: BTreeMap<String, u64>,
    counters: BTreeMap<String, u64>,
    samples: BTreeMap<u64, Json>,
    violations: Vec<Violation>,
    violation_sigs: BTreeMap<String, u64>,
}

/// Cap on the violations kept per distinct signature (the rest are only counted).
const MAX_PER_SIG: u64 = 3;

impl Session {
    pub fn new(engine: &str) -> Session {
        let args = Args::parse();
        Session::with_args(engine, args)
    }

    pub fn with_args(engine: &str, args: Args) -> Session {
        let mut replay_signature = None;
        let replay = args.replay.as_ref().map(|p| {
            let txt = std::fs::read_to_string(p).unwrap_or_else(|e| {
                eprintln!("cannot read replay file {}: {e}", p.display());
                std::process::exit(2)
            });
            let j: Json = serde_json::from_str(&txt).unwrap_or_else(|e| {
                eprintln!("bad replay file: {e}");
                std::process::exit(2)
            });
            replay_signature = j["signature"].as_str().map(|s| s.to_string());
            (
                j["part"].as_str().unwrap_or("").to_string(),
                j["case"].as_u64().unwrap_or(0),
            )
        });
        // Silence the default panic hook: panics are captured per case and reported as violations.
        if !args.verbose {
            std::panic::set_hook(Box::new(|_| {}));
        }
        Session {
            args,
            engine: engine.to_string(),
            parts: Vec::new(),
            violations: Vec::new(),
            start: Instant::now(),
            replay,
            replay_signature,
            notes: Vec::new(),
        }
    }

    pub fn prop(&self) -> &str {
        &self.args.prop
    }

    pub fn note(&mut self, s: impl Into<String>) {
        self.notes.push(s.into());
    }

    /// Run `n_cases` cases of one part on all worker threads. `f(case index, rng, out)` must be a
    /// function of its arguments only (the rng is derived from seed, part name and case index) so
    /// that a replay file naming (part, case) reproduces the case.
    pub fn part<F>(&mut self, name: &str, rule: &str, exhaustive: bool, n_cases: u64, f: F)
    where
        F: Fn(u64, &mut Rng, &mut CaseOut) + Sync,
    {
        let t0 = Instant::now();
        let (lo, hi) = match &self.replay {
            Some((p, c)) if p == name => (*c, *c + 1),
            Some(_) => return,
            None => (0, n_cases),
        };
        let verbose = self.args.verbose || self.replay.is_some();
        let replaying = self.replay.is_some();
        let want_sig: Option<String> = self.replay_signature.clone();
        let replay_attempts: u64 = self.args.extra_u64("replay-attempts").unwrap_or(300).max(1);
        let next = AtomicU64::new(lo);
        let shared = Mutex::new(Shared {
            distinct: HashSet::new(),
            events: 0,
            inconclusive: 0,
            inconclusive_why: BTreeMap::new(),
            counters: BTreeMap::new(),
            samples: BTreeMap::new(),
            violations: Vec::new(),
            violation_sigs: BTreeMap::new(),
        });
        let done = AtomicU64::new(0);
        let threads = if self.replay.is_some() { 1 } else { self.args.threads.max(1) };
        let seed = self.args.seed;
        let prop = self.args.prop.clone();
        let current: Arc<Vec<AtomicU64>> = Arc::new((0..threads).map(|_| AtomicU64::new(u64::MAX)).collect());
        let started: Arc<Vec<Mutex<Instant>>> = Arc::new((0..threads).map(|_| Mutex::new(Instant::now())).collect());
        let live = AtomicUsize::new(threads);
        let watchdog_s = self
            .args
            .extra_u64("watchdog")
            .unwrap_or(if self.args.thorough() { 600 } else { 300 });
        let engine = self.engine.clone();
        let out_path = self.args.out.clone();
        std::thread::scope(|scope| {
            for tid in 0..threads {
                let next = &next;
                let shared = &shared;
                let f = &f;
                let done = &done;
                let current = current.clone();
                let started = started.clone();
                let live = &live;
                let prop = prop.clone();
                let want_sig = want_sig.clone();
                let builder = std::thread::Builder::new().stack_size(256 << 20).name(format!("w{tid}"));
                builder
                    .spawn_scoped(scope, move || {
                        const BATCH: usize = 64;
                        let mut local: Vec<(u64, CaseOut, Option<String>)> = Vec::new();
                        loop {
                            let case = next.fetch_add(1, Ordering::Relaxed);
                            if case >= hi {
                                break;
                            }
                            current[tid].store(case, Ordering::Relaxed);
                            *started[tid].lock().unwrap() = Instant::now();
                            // Replay: code under test may depend on per-process hash seeds, so a
                            // recorded case is re-run (quietly) until it shows a violation again.
                            let mut attempts_left = if replaying { replay_attempts } else { 1 };
                            let (out, panic_msg) = loop {
                                attempts_left -= 1;
                                let mut rng = Rng::for_case(seed, name, case);
                                let mut out = CaseOut::new(verbose && !replaying);
                                let r = catch_unwind(AssertUnwindSafe(|| f(case, &mut rng, &mut out)));
                                let panic_msg = r.err().map(|p| panic_text(&*p));
                                let hit = match &want_sig {
                                    Some(sig) => out.violations.iter().any(|v| &v.1 == sig) || panic_msg.as_ref().map_or(false, |m| sig.starts_with("panic/") && sig.contains(&sanitize_sig(m))),
                                    None => !out.violations.is_empty() || panic_msg.is_some(),
                                };
                                if replaying && (hit || attempts_left == 0) {
                                    eprintln!("replay: {} after {} attempt(s); verbose run of the same case follows", if hit { "violation reproduced" } else { "no violation" }, replay_attempts - attempts_left);
                                    if hit {
                                        // verbose re-run for the log (may or may not hit again)
                                        let mut rng = Rng::for_case(seed, name, case);
                                        let mut vout = CaseOut::new(true);
                                        let _ = catch_unwind(AssertUnwindSafe(|| f(case, &mut rng, &mut vout)));
                                    }
                                    break (out, panic_msg);
                                }
                                if !replaying || attempts_left == 0 {
                                    break (out, panic_msg);
                                }
                            };
                            local.push((case, out, panic_msg));
                            done.fetch_add(1, Ordering::Relaxed);
                            if local.len() >= BATCH {
                                flush(&mut local, shared, name, &prop);
                            }
                        }
                        current[tid].store(u64::MAX, Ordering::Relaxed);
                        flush(&mut local, shared, name, &prop);
                        live.fetch_sub(1, Ordering::SeqCst);
                    })
                    .expect("spawn worker");
            }
            // Watchdog (wall clock; its firing is *inconclusive*, never a violation by itself).
            let current = current.clone();
            let started = started.clone();
            let live = &live;
            let name_s = name.to_string();
            scope.spawn(move || loop {
                if live.load(Ordering::SeqCst) == 0 {
                    break;
                }
                std::thread::sleep(Duration::from_millis(200));
                for tid in 0..current.len() {
                    let c = current[tid].load(Ordering::Relaxed);
                    if c == u64::MAX {
                        continue;
                    }
                    let since = started[tid].lock().unwrap().elapsed();
                    // Re-check the case did not change in between.
                    if since > Duration::from_secs(watchdog_s) && current[tid].load(Ordering::Relaxed) == c {
                        let j = json!({
                            "engine": engine, "stuck": {"part": name_s, "case": c, "seed": seed},
                            "why": format!("case exceeded the {watchdog_s}s wall-clock watchdog"),
                        });
                        if let Some(p) = &out_path {
                            let _ = std::fs::write(p, serde_json::to_string_pretty(&j).unwrap());
                        }
                        eprintln!("WATCHDOG engine={engine} part={name_s} case={c} seed={seed}");
                        std::process::exit(3);
                    }
                }
            });
        });
        let sh = shared.into_inner().unwrap();
        let mut samples: Vec<Json> = sh.samples.into_values().collect();
        samples.truncate(3);
        self.violations.extend(sh.violations);
        self.parts.push(PartSummary {
            name: name.to_string(),
            rule: rule.to_string(),
            exhaustive,
            evaluations: done.load(Ordering::Relaxed),
            distinct_nontrivial: sh.distinct.len() as u64,
            events: sh.events,
            inconclusive: sh.inconclusive,
            inconclusive_why: sh.inconclusive_why,
            counters: sh.counters,
            samples,
            wall_s: t0.elapsed().as_secs_f64(),
        });
        // Further violations with an already-capped signature are only counted.
        for (sig, n) in sh.violation_sigs {
            if n > MAX_PER_SIG {
                self.notes.push(format!("part {name}: signature {sig} fired {n} times ({MAX_PER_SIG} kept)"));
            }
        }
    }

    /// Write the report and exit. Exit code 0 whatever the verdict: `/verif/check` decides.
    pub fn finish(self) -> ! {
        let parts: Vec<Json> = self
            .parts
            .iter()
            .map(|p| {
                json!({
                    "name": p.name, "rule": p.rule, "exhaustive": p.exhaustive,
                    "evaluations": p.evaluations, "distinct_nontrivial": p.distinct_nontrivial,
                    "events_observed": p.events, "inconclusive": p.inconclusive,
                    "inconclusive_why": p.inconclusive_why, "counters": p.counters,
                    "samples": p.samples, "wall_s": p.wall_s,
                })
            })
            .collect();
        let viols: Vec<Json> = self
            .violations
            .iter()
            .map(|v| {
                json!({
                    "property": v.property, "signature": v.signature, "what": v.what,
                    "detail": v.detail,
                    "replay": {"engine": self.engine, "prop": self.args.prop, "part": v.part,
                               "case": v.case, "seed": self.args.seed,
                               "tier": if self.args.thorough() {"thorough"} else {"quick"},
                               "scale": self.args.scale, "extra": self.args.extra},
                })
            })
            .collect();
        let j = json!({
            "engine": self.engine,
            "property": self.args.prop,
            "seed": self.args.seed,
            "tier": if self.args.thorough() {"thorough"} else {"quick"},
            "parts": parts,
            "violations": viols,
            "notes": self.notes,
            "wall_s": self.start.elapsed().as_secs_f64(),
        });
        let txt = serde_json::to_string_pretty(&j).unwrap();
        match &self.args.out {
            Some(p) => std::fs::write(p, txt).unwrap_or_else(|e| {
                eprintln!("cannot write {}: {e}", p.display());
                std::process::exit(2)
            }),
            None => {
                if self.replay.is_some() || self.args.verbose {
                    for v in &self.violations {
                        println!("violation property={} signature={} :: {}", v.property, v.signature, v.what);
                        println!("{}", serde_json::to_string_pretty(&v.detail).unwrap());
                    }
                    if self.violations.is_empty() {
                        println!("no violation observed");
                    }
                } else {
                    println!("{txt}");
                }
            }
        }
        std::process::exit(0)
    }
}

fn flush(local: &mut Vec<(u64, CaseOut, Option<String>)>, shared: &Mutex<Shared>, part: &str, prop: &str) {
    if local.is_empty() {
        return;
    }
    let mut sh = shared.lock().unwrap();
    for (case, out, panic_msg) in local.drain(..) {
        sh.events += out.events;
        for (k, v) in out.counters {
            *sh.counters.entry(k).or_insert(0) += v;
        }
        if let Some(why) = out.inconclusive {
            sh.inconclusive += 1;
            *sh.inconclusive_why.entry(why).or_insert(0) += 1;
        }
        if out.nontrivial {
            // If the engine folded nothing into the signature, the case index stands for the
            // generated case itself (each index yields its own generated input).
            let h = if out.sig_used { out.sig.finish() } else { fnv_of(&(part, case)) };
            sh.distinct.insert(h);
        }
        if let Some(s) = out.sample {
            if sh.samples.len() < 3 || sh.samples.keys().next_back().map_or(false, |k| case < *k) {
                sh.samples.insert(case, s);
                while sh.samples.len() > 3 {
                    let last = *sh.samples.keys().next_back().unwrap();
                    sh.samples.remove(&last);
                }
            }
        }
        let mut vs = out.violations;
        if let Some(msg) = panic_msg {
            vs.push((
                prop.to_string(),
                format!("panic/{}", sanitize_sig(&msg)),
                format!("panic while running the case: {msg}"),
                Json::Null,
            ));
        }
        for (property, signature, what, detail) in vs {
            let key = format!("{property} {signature}");
            let n = sh.violation_sigs.entry(key).or_insert(0);
            *n += 1;
            if *n <= MAX_PER_SIG {
                sh.violations.push(Violation { property, signature, what, detail, part: part.to_string(), case });
            }
        }
    }
}

fn panic_text(p: &(dyn std::any::Any + Send)) -> String {
    if let Some(s) = p.downcast_ref::<&str>() {
        s.to_string()
    } else if let Some(s) = p.downcast_ref::<String>() {
        s.clone()
    } else {
        "non-string panic payload".to_string()
    }
}

/// Reduce free text to something usable inside a signature (no digits runs, bounded length).
pub fn sanitize_sig(s: &str) -> String {
    let mut out = String::new();
    let mut last_digit = false;
    for c in s.chars().take(160) {
        if c.is_ascii_digit() {
            if !last_digit {
                out.push('#');
            }
            last_digit = true;
        } else {
            last_digit = false;
            if c.is_ascii_alphanumeric() || "-_./:".contains(c) {
                out.push(c);
            } else if !out.ends_with('_') {
                out.push('_');
            }
        }
    }
    out
}
