//! Engine `bytechan` (C12): `swimos_utilities::byte_channel` is a lossless bounded FIFO pipe with
//! no lost wake-ups.
//!
//! Parts (select one with `--only exhaustive|random|threaded`):
//!  * `poll-exhaustive` – every sequence of `poll_read(1..3)`, `poll_write(1..3)`, `poll_flush`,
//!    `poll_shutdown`, `drop(reader)`, `drop(writer)` up to the depth bound (7 quick / 8 thorough; `--depth N` overrides),
//!    for capacities 1–3, without the budget wrapper and inside `RunWithBudget` with budgets 1–4;
//!    one case per (capacity, mode, two-operation prefix).
//!  * `poll-random`     – random sequences of 200 operations, capacities up to 64, request sizes
//!    0–100, budgets none / 1–8, task yields and waker changes.
//!  * `threaded`        – writer and reader on two OS threads through `AsyncWriteExt` /
//!    `AsyncReadExt` (stream equality + termination; also the TSan / Miri workload).
//!
//! The poll-level oracle lives in `model.rs`.

mod model;
#[cfg(not(feature = "nocoop"))]
mod threaded;

use common::{json, CaseOut, Rng, Session};
use model::{run_epilogue, run_task, Exec, Mode, Op, Stats, Viol};

const P: &str = "C12";

/// Alphabet of the exhaustive part.
const ALPHABET: [Op; 10] = [
    Op::Read(1),
    Op::Read(2),
    Op::Read(3),
    Op::Write(1),
    Op::Write(2),
    Op::Write(3),
    Op::Flush,
    Op::Shutdown,
    Op::DropReader,
    Op::DropWriter,
];

#[cfg(not(feature = "nocoop"))]
const MODES: [Mode; 5] = [Mode::Bare, Mode::Budget(1), Mode::Budget(2), Mode::Budget(3), Mode::Budget(4)];
#[cfg(feature = "nocoop")]
const MODES: [Mode; 1] = [Mode::Bare];
#[cfg(not(feature = "nocoop"))]
const ENGINE: &str = "bytechan";
#[cfg(feature = "nocoop")]
const ENGINE: &str = "bytechan_nocoop";

/// Does the linked channel force a yield on a poll that could proceed (the `coop` twin)? 300 one-byte
/// round trips inside one task poll: the cooperative variant answers `Pending` with the caller's own
/// waker woken at the latest on the 64th call, the pass-through variant never does.
fn channel_is_cooperative() -> bool {
    let mut exec = match Exec::new(1) {
        Ok(e) => e,
        Err(_) => return false,
    };
    let mut n = 0;
    let _ = run_task(&mut exec, Mode::Bare, 600, &mut |_e: &Exec| {
        n += 1;
        Some(if n % 2 == 1 { Op::Write(1) } else { Op::Read(1) })
    });
    exec.stats.forced_yield > 0
}

fn available(op: Op, reader: bool, writer: bool) -> bool {
    match op {
        Op::Read(_) | Op::DropReader => reader,
        Op::Write(_) | Op::Flush | Op::Shutdown | Op::DropWriter => writer,
        _ => true,
    }
}

fn report(out: &mut CaseOut, v: Viol, exec: &Exec, mode: Mode) {
    out.violation(
        P,
        v.sig,
        v.what,
        json!({"capacity": exec.cap, "mode": mode.show(), "trace": exec.trace_json()}),
    );
}

/// Run one complete sequence (plus the closing epilogue) on a fresh channel.
fn run_sequence(cap: usize, mode: Mode, ops: &[Op], total: &mut Stats, out: &mut CaseOut, viols: &mut u32) {
    let mut exec = match Exec::new(cap) {
        Ok(e) => e,
        Err(v) => {
            out.violation(P, v.sig, v.what, json!({"capacity": cap}));
            return;
        }
    };
    let mut i = 0;
    let r = run_task(&mut exec, mode, ops.len(), &mut |_e: &Exec| {
        let op = ops.get(i).copied();
        i += 1;
        op
    })
    .and_then(|_| run_epilogue(&mut exec, mode, 2));
    exec.stats.sequences = 1;
    add_stats(total, &exec.stats);
    if let Err(v) = r {
        *viols += 1;
        // The runner keeps three per signature; do not build thousands of traces for nothing.
        if *viols <= 50 {
            report(out, v, &exec, mode);
        }
    }
}

fn add_stats(a: &mut Stats, b: &Stats) {
    a.calls += b.calls;
    a.bytes_delivered += b.bytes_delivered;
    a.read_blocked += b.read_blocked;
    a.read_eof += b.read_eof;
    a.read_short += b.read_short;
    a.write_blocked += b.write_blocked;
    a.write_partial += b.write_partial;
    a.write_refused += b.write_refused;
    a.forced_yield += b.forced_yield;
    a.starved += b.starved;
    a.wake_reader_on_data += b.wake_reader_on_data;
    a.wake_reader_on_close += b.wake_reader_on_close;
    a.wake_writer_on_space += b.wake_writer_on_space;
    a.wake_writer_on_close += b.wake_writer_on_close;
    a.buffer_full += b.buffer_full;
    a.eof_after_shutdown += b.eof_after_shutdown;
    a.drained_after_drop += b.drained_after_drop;
    a.sequences += b.sequences;
}

/// Depth-first enumeration of every applicable continuation of `ops` up to `depth` operations.
/// Only maximal sequences are executed: every step of a run is judged, so prefixes are covered.
#[allow(clippy::too_many_arguments)]
fn enumerate(cap: usize, mode: Mode, depth: usize, ops: &mut Vec<Op>, reader: bool, writer: bool, total: &mut Stats, out: &mut CaseOut, viols: &mut u32) {
    if ops.len() == depth || (!reader && !writer) {
        run_sequence(cap, mode, ops, total, out, viols);
        return;
    }
    for op in ALPHABET {
        if !available(op, reader, writer) {
            continue;
        }
        ops.push(op);
        enumerate(cap, mode, depth, ops, reader && op != Op::DropReader, writer && op != Op::DropWriter, total, out, viols);
        ops.pop();
    }
}

fn random_size(rng: &mut Rng, cap: usize) -> usize {
    let n = match rng.below(10) {
        0 => 0,
        1..=3 => rng.range(1, 3),
        4..=6 => rng.range(1, cap as u64),
        7 | 8 => rng.range(cap as u64, cap as u64 + 3),
        _ => rng.range(1, 100),
    } as usize;
    n.min(model::MAX_REQ)
}

fn random_case(rng: &mut Rng, out: &mut CaseOut, depth: usize) {
    let cap = match rng.below(4) {
        0 => rng.range(1, 3),
        1 => *rng.pick(&[4u64, 5, 7, 8, 16, 31, 32, 63, 64]),
        _ => rng.range(1, 64),
    } as usize;
    let mode = match rng.below(if cfg!(feature = "nocoop") { 1 } else { 20 }) {
        _ if cfg!(feature = "nocoop") => Mode::Bare,
        0 => Mode::Budget(1),
        1..=6 => Mode::Bare,
        _ => Mode::Budget(rng.range(2, 8) as usize),
    };
    let mut exec = match Exec::new(cap) {
        Ok(e) => e,
        Err(v) => {
            out.violation(P, v.sig, v.what, json!({"capacity": cap}));
            return;
        }
    };
    let mut gen = rng.fork();
    // Percentage of data operations that are writes; redrawn now and then so that the buffer
    // visits both "full" and "empty" many times.
    let mut bias = 50u64;
    let mut issued: Vec<Op> = Vec::with_capacity(depth);
    let r = run_task(&mut exec, mode, depth, &mut |e: &Exec| {
        if !e.reader_alive() && !e.writer_alive() {
            return None;
        }
        if gen.chance(1, 25) {
            bias = *gen.pick(&[15u64, 50, 85]);
        }
        let roll = gen.below(1000);
        let mut op = if roll < 880 {
            if gen.below(100) < bias { Op::Write(random_size(&mut gen, cap)) } else { Op::Read(random_size(&mut gen, cap)) }
        } else if roll < 920 {
            Op::Flush
        } else if roll < 955 {
            Op::TaskYield
        } else if roll < 994 {
            Op::SwapWaker(gen.bool())
        } else if roll < 996 {
            Op::Shutdown
        } else if roll < 998 {
            Op::DropWriter
        } else {
            Op::DropReader
        };
        if !e.applicable(op) {
            // The side is gone: exercise the surviving one.
            op = if e.reader_alive() { Op::Read(random_size(&mut gen, cap)) } else { Op::Write(random_size(&mut gen, cap)) };
        }
        issued.push(op);
        Some(op)
    })
    .and_then(|_| run_epilogue(&mut exec, mode, 1 + rng.usize_below(5)));
    exec.stats.sequences = 1;
    out.sig(&(cap, mode.show(), &issued));
    out.nontrivial = exec.stats.obligations() > 0 && exec.stats.bytes_delivered > 0;
    exec.stats.flush_into(out);
    out.count(&format!("mode/{}", if mode == Mode::Bare { "bare" } else { "budget" }));
    if let Err(v) = r {
        report(out, v, &exec, mode);
    }
    if issued.len() < 40 || out.sample.is_none() {
        out.set_sample(json!({"capacity": cap, "mode": mode.show(), "ops": issued.len(),
            "first_ops": issued.iter().take(12).map(|o| o.show()).collect::<Vec<_>>(),
            "delivered": exec.stats.bytes_delivered, "wake_obligations_checked": exec.stats.obligations()}));
    }
}

fn main() {
    let mut s = Session::new(ENGINE);
    if s.prop() != P {
        s.note(format!("engine {ENGINE} serves only {P}; nothing run for '{}'", s.prop()));
        s.finish();
    }
    // The two engines differ only in the twin of the channel they link; a build that unified the
    // features of both (one cargo invocation for both packages) would silently test the same twin twice.
    let coop = channel_is_cooperative();
    if coop == cfg!(feature = "nocoop") {
        s.part("linked-variant", "the channel linked into this engine is the twin it is meant to test", false, 1, |_i, _rng, out| {
            out.inconclusive(format!("engine {ENGINE} is linked against the {} variant of swimos_byte_channel", if coop { "coop" } else { "pass-through" }));
        });
        s.finish();
    }
    s.note(format!("linked channel variant: {}", if coop { "coop (default features)" } else { "pass-through (default-features = false)" }));
    let only = s.args.extra.get("only").cloned();
    let want = |name: &str| only.as_deref().map_or(true, |o| o == name);
    let scale = s.args.scale;

    if want("exhaustive") {
        // Valid two-operation prefixes (the second operation must still be applicable).
        let mut prefixes: Vec<[Op; 2]> = Vec::new();
        for a in ALPHABET {
            for b in ALPHABET {
                if available(b, a != Op::DropReader, a != Op::DropWriter) {
                    prefixes.push([a, b]);
                }
            }
        }
        let full = 3 * MODES.len() * prefixes.len();
        // Scaled-down runs (Miri, sanitizers) take a stride through the case list and a smaller
        // depth; they are then not exhaustive and not reported as such.
        let default_depth = if scale < 0.02 {
            4
        } else if scale < 1.0 {
            5
        } else if s.args.thorough() {
            8
        } else {
            7
        };
        let depth = s.args.extra_u64("depth").map(|d| d as usize).unwrap_or(default_depth).max(2);
        let n_cases = if scale < 1.0 { s.args.budget(full as u64, full as u64).clamp(6, full as u64) } else { full as u64 };
        let exhaustive = n_cases == full as u64;
        let stride = full as u64 / n_cases;
        s.note(format!("poll-exhaustive: depth {depth}, {n_cases} of {full} (capacity, mode, prefix) cases"));
        let rule = format!(
            "one case per (capacity 1-3, mode bare|budget 1-4, valid 2-operation prefix): every applicable continuation over \
             {{read 1-3, write 1-3, flush, shutdown, drop reader, drop writer}} up to {depth} operations, each run on a fresh real channel \
             and followed by drop-writer + drain-to-EOF (or a write that must fail); every call is judged (FIFO content, capacity, \
             Pending/EOF/error legality, wake obligation); non-trivial when the case delivered bytes and checked at least one wake \
             obligation; distinct by case"
        );
        s.part("poll-exhaustive", &rule, exhaustive, n_cases, |i, _rng, out| {
            // Scaled-down runs: one case per stride, offset within the stride so that the picks
            // spread over modes and prefixes.
            let i = (i * stride + (i * 37) % stride) as usize;
            let prefix = prefixes[i % prefixes.len()];
            let mode = MODES[(i / prefixes.len()) % MODES.len()];
            let cap = 1 + i / (prefixes.len() * MODES.len());
            let mut total = Stats::default();
            let mut viols = 0u32;
            let mut ops = prefix.to_vec();
            let reader = !prefix.contains(&Op::DropReader);
            let writer = !prefix.contains(&Op::DropWriter);
            enumerate(cap, mode, depth, &mut ops, reader, writer, &mut total, out, &mut viols);
            total.flush_into(out);
            out.nontrivial = total.bytes_delivered > 0 && total.obligations() > 0;
            out.log(|| format!("case cap={cap} mode={} prefix={},{} sequences={} delivered={} obligations={}", mode.show(), prefix[0].show(), prefix[1].show(), total.sequences, total.bytes_delivered, total.obligations()));
            if i < 3 * stride as usize + 1 {
                out.set_sample(json!({"capacity": cap, "mode": mode.show(), "prefix": [prefix[0].show(), prefix[1].show()],
                    "sequences": total.sequences, "calls": total.calls, "wake_obligations_checked": total.obligations()}));
            }
        });
    }

    if want("random") {
        let cases = s.args.budget(20_000, 5_000_000);
        let depth = s.args.extra_u64("random-depth").unwrap_or(200) as usize;
        let rule = format!(
            "seeded random sequences of {depth} operations (writes/reads of 0-100 bytes biased to the capacity, flush, task yield, waker \
             change, rare shutdown/drop), capacity 1-64, bare or inside RunWithBudget(1-8), then drop-writer + drain-to-EOF; same per-call \
             oracle as the exhaustive part; non-trivial when bytes were delivered and at least one wake obligation was checked; distinct \
             by hash of (capacity, mode, operations)"
        );
        s.part("poll-random", &rule, false, cases, |_i, rng, out| random_case(rng, out, depth));
    }

    #[cfg(not(feature = "nocoop"))]
    if want("threaded") {
        let cases = s.args.budget(160, 4_000).max(3);
        // 10^5 bytes per case at full scale; proportionally less for Miri / sanitizer passes.
        let total = ((100_000.0 * (scale * 10.0).min(1.0)) as u64).clamp(2_000, 100_000);
        let total = s.args.extra_u64("bytes").unwrap_or(total);
        let timeout_s = s.args.extra_u64("threaded-timeout").unwrap_or(120);
        let rule = format!(
            "writer and reader of one channel on two OS threads (current-thread Tokio runtimes, optional RunWithBudget 2-16), {total} \
             pattern bytes in random chunks via write_all/write/flush and read, random capacity 1-5000, optional shutdown, reader dropped \
             early in 1/5 of the cases; oracle: bytes read equal the bytes written position by position, EOF exactly after the last \
             accepted byte, writes fail only after the reader is gone, both threads terminate (wall-clock watchdog => inconclusive); \
             non-trivial when at least one side got Pending and was resumed; distinct by parameters"
        );
        s.part("threaded", &rule, false, cases, |_i, rng, out| threaded::case(total, timeout_s, rng, out));
    }
    #[cfg(not(feature = "nocoop"))]
    if want("close-race") {
        let cases = s.args.budget(32, 800).max(2);
        let rounds = if cfg!(miri) { 3 } else { 250 };
        s.part(
            "close-race",
            "250 fresh channels per case (capacity 1-300): one half is polled in a tight loop on another OS thread (no-op waker) while this thread drops the other half at a random moment and then raises a flag; every poll that started after the flag was seen must find the channel closed - a write fails, reads drain at most the capacity and then reach end-of-stream; judged on polls ordered after the drop by the flag, never on timing; non-trivial when at least one round was judged; distinct by parameters",
            false,
            cases,
            |_i, rng, out| threaded::close_race_case(rounds, rng, out),
        );
    }

    s.finish()
}
