//! Poll-level executor: owns both halves of a real `byte_channel`, drives them one call at a time
//! with counting wakers and judges every result against a reference FIFO (`VecDeque<u8>` + closed
//! flags). Nothing here predicts what the channel does from its implementation: the expectations
//! come from the `AsyncRead` / `AsyncWrite` contracts and the statement of C12.

use std::collections::VecDeque;
use std::future::{poll_fn, Future};
use std::io::ErrorKind;
use std::num::NonZeroUsize;
use std::pin::{pin, Pin};
use std::sync::atomic::{AtomicU64, Ordering};
use std::sync::Arc;
use std::task::{Context, Poll, Wake, Waker};

// The same executor serves the engine `bytechan_nocoop`, which links the channel built without its
// default `coop` feature (the pass-through twins of the `AsyncRead`/`AsyncWrite` impls, no budget).
#[cfg(feature = "nocoop")]
use swimos_byte_channel::{are_connected, byte_channel, ByteReader, ByteWriter};
#[cfg(not(feature = "nocoop"))]
use swimos_utilities::byte_channel::{are_connected, byte_channel, BudgetedFutureExt, ByteReader, ByteWriter, RunWithBudget};
use tokio::io::{AsyncRead, AsyncWrite, ReadBuf};

/// Largest request size any part uses (scratch buffers are this long).
pub const MAX_REQ: usize = 128;

/// The byte written at stream position `pos`. 167 is coprime to 251, so the pattern has period 251
/// and any reordering, duplication or loss of fewer than 251 bytes shows up as a mismatch.
#[inline]
pub fn pat(pos: u64) -> u8 {
    ((pos % 251) * 167 % 251) as u8
}

#[derive(Clone, Copy, Debug, PartialEq, Eq, Hash)]
pub enum Op {
    Read(usize),
    Write(usize),
    Flush,
    Shutdown,
    DropReader,
    DropWriter,
    /// The task returns `Pending` to its executor voluntarily (a new budget period starts).
    TaskYield,
    /// The side is polled with a new waker from now on (false = reader, true = writer).
    SwapWaker(bool),
}

impl Op {
    pub fn kind(&self) -> &'static str {
        match self {
            Op::Read(_) => "read",
            Op::Write(_) => "write",
            Op::Flush => "flush",
            Op::Shutdown => "shutdown",
            Op::DropReader => "drop-reader",
            Op::DropWriter => "drop-writer",
            Op::TaskYield => "task-yield",
            Op::SwapWaker(_) => "swap-waker",
        }
    }

    pub fn show(&self) -> String {
        match self {
            Op::Read(n) => format!("read({n})"),
            Op::Write(n) => format!("write({n})"),
            Op::SwapWaker(false) => "swap-waker(reader)".into(),
            Op::SwapWaker(true) => "swap-waker(writer)".into(),
            o => o.kind().to_string(),
        }
    }
}

/// What a call returned, for the trace shown with a violation (read through `Debug`).
#[allow(dead_code)]
#[derive(Clone, Copy, Debug)]
pub enum Res {
    Ok(usize),
    Eof,
    Err(ErrorKind),
    /// `Pending` because the channel cannot proceed (the waker is now owed a wake-up).
    Blocked,
    /// `Pending` although the channel could proceed, with the caller's own waker woken during the
    /// call: a cooperative yield forced by the budget.
    ForcedYield,
    /// Placeholder while a call is being judged: the last entry of a violation's trace is the
    /// refuted call (its result is in the violation text).
    Refuted,
    Done,
}

#[derive(Clone, Copy, Debug, PartialEq, Eq)]
pub enum Mode {
    /// No `RunWithBudget` wrapper (the channel then runs on the crate's default thread budget).
    Bare,
    /// Every task poll happens inside `RunWithBudget::with_budget(n, ..)`.
    Budget(usize),
}

impl Mode {
    pub fn show(&self) -> String {
        match self {
            Mode::Bare => "bare".into(),
            Mode::Budget(n) => format!("budget-{n}"),
        }
    }
}

pub struct Viol {
    pub sig: String,
    pub what: String,
}

fn viol<T>(sig: impl Into<String>, what: impl Into<String>) -> Result<T, Viol> {
    Err(Viol { sig: sig.into(), what: what.into() })
}

pub struct CountWaker(AtomicU64);

impl CountWaker {
    fn get(&self) -> u64 {
        self.0.load(Ordering::SeqCst)
    }
}

impl Wake for CountWaker {
    fn wake(self: Arc<Self>) {
        self.0.fetch_add(1, Ordering::SeqCst);
    }
    fn wake_by_ref(self: &Arc<Self>) {
        self.0.fetch_add(1, Ordering::SeqCst);
    }
}

struct Side {
    counter: Arc<CountWaker>,
    waker: Waker,
    /// Set when the side's last data poll returned a genuine `Pending`: the waker that was passed
    /// and its count at that moment. The side is *waiting* until that waker's count increases.
    waiting: Option<(Arc<CountWaker>, u64)>,
}

impl Side {
    fn new() -> Side {
        let counter = Arc::new(CountWaker(AtomicU64::new(0)));
        Side { waker: Waker::from(counter.clone()), counter, waiting: None }
    }

    fn swap(&mut self) {
        let counter = Arc::new(CountWaker(AtomicU64::new(0)));
        self.waker = Waker::from(counter.clone());
        self.counter = counter;
    }

    fn count(&self) -> u64 {
        self.counter.get()
    }

    fn wait_here(&mut self) {
        self.waiting = Some((self.counter.clone(), self.counter.get()));
    }

    /// Still waiting (not woken since the `Pending`)? Clears the record once woken.
    fn still_waiting(&mut self) -> bool {
        match &self.waiting {
            Some((c, at)) if c.get() > *at => {
                self.waiting = None;
                false
            }
            Some(_) => true,
            None => false,
        }
    }
}

#[derive(Default, Clone)]
pub struct Stats {
    pub calls: u64,
    pub bytes_delivered: u64,
    pub read_blocked: u64,
    pub read_eof: u64,
    pub read_short: u64,
    pub write_blocked: u64,
    pub write_partial: u64,
    pub write_refused: u64,
    pub forced_yield: u64,
    pub starved: u64,
    pub wake_reader_on_data: u64,
    pub wake_reader_on_close: u64,
    pub wake_writer_on_space: u64,
    pub wake_writer_on_close: u64,
    pub buffer_full: u64,
    pub eof_after_shutdown: u64,
    pub drained_after_drop: u64,
    pub sequences: u64,
}

impl Stats {
    pub fn obligations(&self) -> u64 {
        self.wake_reader_on_data + self.wake_reader_on_close + self.wake_writer_on_space + self.wake_writer_on_close
    }

    pub fn flush_into(&self, out: &mut common::CaseOut) {
        out.events += self.calls;
        out.add("sequences", self.sequences);
        out.add("bytes-delivered", self.bytes_delivered);
        out.add("read-blocked-empty", self.read_blocked);
        out.add("read-eof", self.read_eof);
        out.add("read-short-of-request", self.read_short);
        out.add("write-blocked-full", self.write_blocked);
        out.add("write-partial", self.write_partial);
        out.add("write-refused-after-close", self.write_refused);
        out.add("budget-forced-yield-self-woken", self.forced_yield);
        out.add("budget-starved-op-skipped", self.starved);
        out.add("wake-checked/reader-on-data", self.wake_reader_on_data);
        out.add("wake-checked/reader-on-close", self.wake_reader_on_close);
        out.add("wake-checked/writer-on-space", self.wake_writer_on_space);
        out.add("wake-checked/writer-on-close", self.wake_writer_on_close);
        out.add("buffer-reached-capacity", self.buffer_full);
        out.add("eof-after-shutdown-writer-alive", self.eof_after_shutdown);
        out.add("drained-then-eof-after-writer-drop", self.drained_after_drop);
    }
}

pub struct Exec {
    pub cap: usize,
    writer: Option<ByteWriter>,
    reader: Option<ByteReader>,
    /// Reference content of the channel: accepted by `poll_write`, not yet returned by `poll_read`.
    q: VecDeque<u8>,
    written: u64,
    read: u64,
    /// `poll_shutdown` returned `Ready(Ok)`.
    shutdown: bool,
    eof_after_drop: bool,
    r: Side,
    w: Side,
    scratch: [u8; MAX_REQ],
    pub stats: Stats,
    pub trace: Vec<(Op, Res)>,
}

/// Outcome of one step that the task loop needs.
pub struct Step {
    pub forced_yield: bool,
}

impl Exec {
    pub fn new(cap: usize) -> Result<Exec, Viol> {
        let n = NonZeroUsize::new(cap).expect("capacity >= 1");
        let (tx, rx) = byte_channel(n);
        let (tx2, rx2) = byte_channel(n);
        if !are_connected(&tx, &rx) || are_connected(&tx, &rx2) || are_connected(&tx2, &rx) {
            return viol("are-connected-wrong", "are_connected does not tell a channel's own halves from another channel's");
        }
        Ok(Exec {
            cap,
            writer: Some(tx),
            reader: Some(rx),
            q: VecDeque::with_capacity(cap + 4),
            written: 0,
            read: 0,
            shutdown: false,
            eof_after_drop: false,
            r: Side::new(),
            w: Side::new(),
            scratch: [0; MAX_REQ],
            stats: Stats::default(),
            trace: Vec::with_capacity(16),
        })
    }

    pub fn reader_alive(&self) -> bool {
        self.reader.is_some()
    }

    pub fn writer_alive(&self) -> bool {
        self.writer.is_some()
    }

    pub fn buffered(&self) -> usize {
        self.q.len()
    }

    pub fn applicable(&self, op: Op) -> bool {
        match op {
            Op::Read(_) | Op::DropReader => self.reader.is_some(),
            Op::Write(_) | Op::Flush | Op::Shutdown | Op::DropWriter => self.writer.is_some(),
            Op::TaskYield | Op::SwapWaker(_) => true,
        }
    }

    pub fn trace_json(&self) -> common::Json {
        common::Json::Array(self.trace.iter().map(|(o, r)| common::Json::String(format!("{} -> {:?}", o.show(), r))).collect())
    }

    /// Execute one operation on the real channel and judge it. `Err` is a refutation of C12.
    pub fn step(&mut self, op: Op) -> Result<Step, Viol> {
        let idx = self.trace.len();
        self.trace.push((op, Res::Refuted));
        let (res, forced) = self.step_inner(op)?;
        self.trace[idx].1 = res;
        Ok(Step { forced_yield: forced })
    }

    fn step_inner(&mut self, op: Op) -> Result<(Res, bool), Viol> {
        // What the call made possible for the *other* side (decided from the reference model
        // after the call has been judged).
        let mut progress_for_reader: Option<&'static str> = None;
        let mut progress_for_writer: Option<&'static str> = None;
        let res;
        let mut forced = false;
        match op {
            Op::TaskYield => return Ok((Res::Done, false)),
            Op::SwapWaker(false) => {
                self.r.swap();
                return Ok((Res::Done, false));
            }
            Op::SwapWaker(true) => {
                self.w.swap();
                return Ok((Res::Done, false));
            }
            Op::Read(n) => {
                let Some(reader) = self.reader.as_mut() else { return Ok((Res::Done, false)) };
                self.stats.calls += 1;
                let own_before = self.r.count();
                let mut rb = ReadBuf::new(&mut self.scratch[..n]);
                let mut cx = Context::from_waker(&self.r.waker);
                let poll = Pin::new(reader).poll_read(&mut cx, &mut rb);
                let k = rb.filled().len();
                let writer_gone = self.writer.is_none();
                match poll {
                    Poll::Pending => {
                        if k != 0 {
                            return viol("read/pending-but-buffer-filled", format!("poll_read returned Pending after putting {k} bytes into the buffer"));
                        }
                        if self.r.count() > own_before {
                            // The caller's own waker fired during the call: the task will be polled
                            // again whatever the reason for the Pending, so nothing can be lost or
                            // hang. This is how a budget-forced yield looks from outside.
                            self.stats.forced_yield += 1;
                            self.r.waiting = None;
                            forced = true;
                            res = Res::ForcedYield;
                        } else if !self.q.is_empty() {
                            return viol("read/pending-with-data-buffered", format!("poll_read returned Pending (no self-wake) with {} bytes buffered", self.q.len()));
                        } else if writer_gone {
                            return viol("read/pending-after-writer-drop", "poll_read returned Pending (no self-wake) after the writer was dropped and the buffer drained");
                        } else {
                            // Empty and the writer exists. (After a completed shutdown the property
                            // does not say whether the reader sees EOF before the drop; both
                            // answers are accepted.)
                            self.stats.read_blocked += 1;
                            self.r.wait_here();
                            res = Res::Blocked;
                        }
                    }
                    Poll::Ready(Err(e)) => {
                        let state = if !self.q.is_empty() { "data-buffered" } else if writer_gone || self.shutdown { "closed-empty" } else { "open-empty" };
                        return viol(format!("read/error/{state}"), format!("poll_read failed with {:?} ({e}); the read side only ever ends with end-of-stream", e.kind()));
                    }
                    Poll::Ready(Ok(())) => {
                        self.r.waiting = None;
                        if k == 0 && n > 0 {
                            // End of stream.
                            if !self.q.is_empty() {
                                return viol("read/eof-with-data-buffered", format!("poll_read signalled end-of-stream while {} accepted bytes were never delivered", self.q.len()));
                            }
                            if !writer_gone && !self.shutdown {
                                return viol("read/eof-while-writer-open", "poll_read signalled end-of-stream although the writer is neither dropped nor shut down");
                            }
                            if !writer_gone {
                                self.stats.eof_after_shutdown += 1;
                            } else if !self.eof_after_drop {
                                // First EOF after the writer's drop, with everything delivered.
                                self.eof_after_drop = true;
                                self.stats.drained_after_drop += 1;
                            }
                            self.stats.read_eof += 1;
                            res = Res::Eof;
                        } else {
                            if k > self.q.len() {
                                return viol("read/more-than-written", format!("poll_read returned {k} bytes but only {} were accepted and not yet delivered", self.q.len()));
                            }
                            for i in 0..k {
                                let want = self.q[i];
                                let got = self.scratch[i];
                                if want != got {
                                    return viol(
                                        "read/not-the-next-bytes",
                                        format!("byte {} of the stream: expected {want} got {got} (read of {k} bytes)", self.read + i as u64),
                                    );
                                }
                            }
                            self.q.drain(..k);
                            self.read += k as u64;
                            self.stats.bytes_delivered += k as u64;
                            if k > 0 {
                                if k < n && !self.q.is_empty() {
                                    self.stats.read_short += 1;
                                }
                                progress_for_writer = Some("space");
                            }
                            res = Res::Ok(k);
                        }
                    }
                }
            }
            Op::Write(m) => {
                let Some(writer) = self.writer.as_mut() else { return Ok((Res::Done, false)) };
                self.stats.calls += 1;
                let own_before = self.w.count();
                for i in 0..m {
                    self.scratch[i] = pat(self.written + i as u64);
                }
                let mut cx = Context::from_waker(&self.w.waker);
                let poll = Pin::new(writer).poll_write(&mut cx, &self.scratch[..m]);
                let reader_gone = self.reader.is_none();
                match poll {
                    Poll::Pending => {
                        if self.w.count() > own_before {
                            self.stats.forced_yield += 1;
                            self.w.waiting = None;
                            forced = true;
                            res = Res::ForcedYield;
                        } else if reader_gone {
                            return viol("write/pending-after-reader-drop", "poll_write returned Pending (no self-wake) after the reader was dropped: nobody can ever wake it");
                        } else if self.q.len() < self.cap && m > 0 {
                            return viol(
                                "write/pending-with-space",
                                format!("poll_write returned Pending (no self-wake) with {} of {} bytes buffered", self.q.len(), self.cap),
                            );
                        } else {
                            self.stats.write_blocked += 1;
                            self.w.wait_here();
                            res = Res::Blocked;
                        }
                    }
                    Poll::Ready(Err(e)) => {
                        self.w.waiting = None;
                        if !reader_gone && !self.shutdown {
                            return viol(format!("write/error-while-open/{:?}", e.kind()), format!("poll_write failed ({e}) although the reader is alive and the writer not shut down"));
                        }
                        self.stats.write_refused += 1;
                        res = Res::Err(e.kind());
                    }
                    Poll::Ready(Ok(k)) => {
                        self.w.waiting = None;
                        if reader_gone && m > 0 {
                            return viol("write/accepted-after-reader-drop", format!("poll_write accepted {k} of {m} bytes after the reader was dropped"));
                        }
                        if reader_gone {
                            // "After the reader is dropped writes fail", for all request sizes: a write of
                            // nothing is still a write (it is how a caller probes whether the pipe is alive).
                            return viol("write/accepted-after-reader-drop/empty-request", "poll_write of an empty buffer returned Ok after the reader was dropped");
                        }
                        if k > m {
                            return viol("write/count-exceeds-request", format!("poll_write reports {k} bytes written of a {m} byte buffer"));
                        }
                        if k == 0 && m > 0 {
                            return viol("write/zero", "poll_write returned Ok(0) for a non-empty buffer (write_all would fail with WriteZero)");
                        }
                        // Any 1 <= k <= m is a legitimate (possibly partial) write.
                        for i in 0..k {
                            self.q.push_back(self.scratch[i]);
                        }
                        self.written += k as u64;
                        if self.q.len() > self.cap {
                            return viol("capacity-exceeded", format!("{} bytes accepted and undelivered in a channel of capacity {}", self.q.len(), self.cap));
                        }
                        if self.q.len() == self.cap {
                            self.stats.buffer_full += 1;
                        }
                        if k < m {
                            self.stats.write_partial += 1;
                        }
                        if k > 0 {
                            progress_for_reader = Some("data");
                        }
                        res = Res::Ok(k);
                    }
                }
            }
            Op::Flush | Op::Shutdown => {
                let Some(writer) = self.writer.as_mut() else { return Ok((Res::Done, false)) };
                self.stats.calls += 1;
                let own_before = self.w.count();
                let mut cx = Context::from_waker(&self.w.waker);
                let poll = if op == Op::Flush { Pin::new(writer).poll_flush(&mut cx) } else { Pin::new(writer).poll_shutdown(&mut cx) };
                let name = op.kind();
                match poll {
                    Poll::Pending => {
                        if self.w.count() > own_before {
                            self.stats.forced_yield += 1;
                            forced = true;
                            res = Res::ForcedYield;
                        } else {
                            // Nothing the reader does is owed to a flushing writer by this
                            // channel's contract (writes are complete once accepted), so a Pending
                            // that is not self-woken would hang.
                            return viol(format!("{name}/pending"), format!("poll_{name} returned Pending without waking the caller"));
                        }
                    }
                    Poll::Ready(Err(e)) => {
                        if self.reader.is_some() && !self.shutdown {
                            return viol(format!("{name}/error-while-open"), format!("poll_{name} failed ({e}) on an open channel"));
                        }
                        res = Res::Err(e.kind());
                    }
                    Poll::Ready(Ok(())) => {
                        if op == Op::Shutdown {
                            self.shutdown = true;
                            // A completed shutdown closes the write side: a reader waiting for
                            // data can now be answered (EOF), so it is owed a wake-up like on drop.
                            progress_for_reader = Some("close");
                        }
                        res = Res::Ok(0);
                    }
                }
            }
            Op::DropReader => {
                if self.reader.take().is_none() {
                    return Ok((Res::Done, false));
                }
                self.r.waiting = None;
                progress_for_writer = Some("close");
                res = Res::Done;
            }
            Op::DropWriter => {
                if self.writer.take().is_none() {
                    return Ok((Res::Done, false));
                }
                self.w.waiting = None;
                progress_for_reader = Some("close");
                res = Res::Done;
            }
        }
        // Wake obligation: a side whose last data poll returned a genuine Pending, and which has
        // not been woken since, must have been woken by now if this call made progress possible for
        // it or closed the channel.
        if self.r.still_waiting() {
            if let Some(why) = progress_for_reader {
                return viol(
                    format!("lost-wakeup/reader-waiting/{}", op.kind()),
                    format!("the reader's last poll_read returned Pending; {} made progress possible ({why}) but the reader's waker was not woken", op.show()),
                );
            }
        }
        if self.w.still_waiting() {
            if let Some(why) = progress_for_writer {
                return viol(
                    format!("lost-wakeup/writer-waiting/{}", op.kind()),
                    format!("the writer's last poll_write returned Pending; {} made progress possible ({why}) but the writer's waker was not woken", op.show()),
                );
            }
        }
        Ok((res, forced))
    }
}

// The obligation counters need to know whether somebody *was* waiting before the call; wrap `step`
// so that the bookkeeping stays out of the judging code above.
impl Exec {
    pub fn step_counted(&mut self, op: Op) -> Result<Step, Viol> {
        let r_was = self.r.waiting.as_ref().map_or(false, |(c, at)| c.get() == *at);
        let w_was = self.w.waiting.as_ref().map_or(false, |(c, at)| c.get() == *at);
        let delivered = self.read;
        let accepted = self.written;
        let st = self.step(op)?;
        // A violation returned above; here the obligation (if any) was met.
        if r_was {
            match op {
                Op::Write(_) if self.written > accepted => self.stats.wake_reader_on_data += 1,
                Op::DropWriter => self.stats.wake_reader_on_close += 1,
                Op::Shutdown if self.shutdown && !st.forced_yield => self.stats.wake_reader_on_close += 1,
                _ => {}
            }
        }
        if w_was {
            match op {
                Op::Read(_) if self.read > delivered => self.stats.wake_writer_on_space += 1,
                Op::DropReader => self.stats.wake_writer_on_close += 1,
                _ => {}
            }
        }
        Ok(st)
    }
}

fn noop_waker() -> Waker {
    struct Noop;
    impl Wake for Noop {
        fn wake(self: Arc<Self>) {}
    }
    Waker::from(Arc::new(Noop))
}

/// Put this thread's channel budget back to "unset" so that a case does not depend on what ran on
/// the worker thread before it: a unit future that consumes budget, polled once under a budget of
/// one, exhausts the budget (which clears it).
#[cfg(feature = "nocoop")]
pub fn reset_thread_budget() {}

#[cfg(not(feature = "nocoop"))]
pub fn reset_thread_budget() {
    let w = noop_waker();
    let mut cx = Context::from_waker(&w);
    let fut = std::future::ready(()).consuming().with_budget(NonZeroUsize::new(1).unwrap());
    let mut fut = pin!(fut);
    let _ = fut.as_mut().poll(&mut cx);
}

/// Run a script as one task would: operations come from `next` one at a time. In `Budget(n)` mode
/// every task poll is a poll of `RunWithBudget::with_budget(n, ..)`; when an operation is forced to
/// yield the task returns `Pending` (it has been self-woken), is polled again – which resets the
/// budget – and retries the operation, as `AsyncReadExt`/`AsyncWriteExt` futures would. A genuine
/// `Pending` does not end the task poll (the task is a join of a reading and a writing activity).
/// `max_ops` bounds the script; retries are bounded by one per operation (`budget-1` starves every
/// operation: counted, and the operation is skipped).
pub fn run_task(exec: &mut Exec, mode: Mode, max_ops: usize, next: &mut dyn FnMut(&Exec) -> Option<Op>) -> Result<(), Viol> {
    reset_thread_budget();
    let w = noop_waker();
    let mut cx = Context::from_waker(&w);
    let mut retry: Option<Op> = None;
    let mut retried = false;
    let mut issued = 0usize;
    let mut finished = false;
    let mut failure: Option<Viol> = None;
    // Bound on task polls: every poll either issues an operation or retries one.
    let mut polls_left = 2 * max_ops + 4;
    while !finished && failure.is_none() {
        if polls_left == 0 {
            break;
        }
        polls_left -= 1;
        let body = poll_fn(|_cx| {
            loop {
                let op = match retry.take() {
                    Some(op) => op,
                    None => {
                        retried = false;
                        if issued >= max_ops {
                            finished = true;
                            return Poll::Ready(());
                        }
                        match next(exec) {
                            Some(op) => {
                                issued += 1;
                                op
                            }
                            None => {
                                finished = true;
                                return Poll::Ready(());
                            }
                        }
                    }
                };
                if op == Op::TaskYield {
                    exec.trace.push((op, Res::Done));
                    return Poll::Pending;
                }
                match exec.step_counted(op) {
                    Err(v) => {
                        failure = Some(v);
                        return Poll::Ready(());
                    }
                    Ok(st) if st.forced_yield => {
                        if !retried {
                            retried = true;
                            retry = Some(op);
                        } else {
                            exec.stats.starved += 1;
                        }
                        return Poll::Pending;
                    }
                    Ok(_) => {}
                }
            }
        });
        match mode {
            Mode::Bare => {
                let mut fut = pin!(body);
                let _ = fut.as_mut().poll(&mut cx);
            }
            #[cfg(feature = "nocoop")]
            Mode::Budget(_) => unreachable!("no budget wrapper exists without the coop feature"),
            #[cfg(not(feature = "nocoop"))]
            Mode::Budget(n) => {
                let fut = RunWithBudget::with_budget(NonZeroUsize::new(n).expect("budget >= 1"), body);
                let mut fut = pin!(fut);
                let _ = fut.as_mut().poll(&mut cx);
            }
        }
    }
    match failure {
        Some(v) => Err(v),
        None => Ok(()),
    }
}

/// Epilogue of every script: whatever state the script left, the closing clauses of the property
/// are exercised – drop the writer and drain (every remaining byte, then EOF), or, when the reader
/// is already gone, a write must fail.
pub fn run_epilogue(exec: &mut Exec, mode: Mode, read_size: usize) -> Result<(), Viol> {
    if exec.reader_alive() {
        let bound = exec.buffered() + 4;
        run_task(exec, mode, bound + 1, &mut |e: &Exec| {
            if e.writer_alive() {
                return Some(Op::DropWriter);
            }
            // EOF seen before the drop (after a shutdown) does not count: ask again after it.
            if matches!(e.trace.last(), Some((Op::Read(_), Res::Eof))) {
                return None;
            }
            Some(Op::Read(read_size))
        })?;
        if !matches!(exec.trace.last(), Some((Op::Read(_), Res::Eof))) && mode != Mode::Budget(1) {
            // Not a property violation by itself (every step was judged); the drain loop is bounded
            // by buffered + 4 reads of >= 1 byte, so this cannot happen unless reads were starved.
            return viol("harness/epilogue-did-not-reach-eof", "drain loop ended without EOF");
        }
    } else if exec.writer_alive() {
        let mut n = 0;
        run_task(exec, mode, 1, &mut |_e: &Exec| {
            n += 1;
            if n == 1 { Some(Op::Write(1)) } else { None }
        })?;
    }
    Ok(())
}
