//! Threaded part: the writer and the reader of one real `byte_channel` run on two OS threads, each
//! inside its own current-thread Tokio runtime, through `AsyncWriteExt` / `AsyncReadExt`. The
//! oracle is stream equality plus termination; a wall-clock watchdog only ever yields
//! `inconclusive`. Built with ThreadSanitizer / run under Miri, the same workload checks the
//! cross-thread hand-over of the waker slot for data races.

use std::io::ErrorKind;
use std::num::NonZeroUsize;
use std::pin::Pin;
use std::sync::atomic::{AtomicU64, Ordering};
use std::sync::{mpsc, Arc};
use std::task::{Context, Poll};
use std::time::Duration;

use common::{json, CaseOut, Rng};
use swimos_utilities::byte_channel::{are_connected, byte_channel, BudgetedFutureExt};
use tokio::io::{AsyncRead, AsyncReadExt, AsyncWrite, AsyncWriteExt, ReadBuf};

use crate::model::pat;

const P: &str = "C12";

/// Transparent adapter that counts how often the wrapped half answered `Pending` (evidence that
/// the sides really blocked and were woken across threads).
struct Probe<T> {
    inner: T,
    pending: Arc<AtomicU64>,
    calls: Arc<AtomicU64>,
}

impl<T: AsyncRead + Unpin> AsyncRead for Probe<T> {
    fn poll_read(mut self: Pin<&mut Self>, cx: &mut Context<'_>, buf: &mut ReadBuf<'_>) -> Poll<std::io::Result<()>> {
        self.calls.fetch_add(1, Ordering::Relaxed);
        let r = Pin::new(&mut self.inner).poll_read(cx, buf);
        if r.is_pending() {
            self.pending.fetch_add(1, Ordering::Relaxed);
        }
        r
    }
}

impl<T: AsyncWrite + Unpin> AsyncWrite for Probe<T> {
    fn poll_write(mut self: Pin<&mut Self>, cx: &mut Context<'_>, buf: &[u8]) -> Poll<std::io::Result<usize>> {
        self.calls.fetch_add(1, Ordering::Relaxed);
        let r = Pin::new(&mut self.inner).poll_write(cx, buf);
        if r.is_pending() {
            self.pending.fetch_add(1, Ordering::Relaxed);
        }
        r
    }
    fn poll_flush(mut self: Pin<&mut Self>, cx: &mut Context<'_>) -> Poll<std::io::Result<()>> {
        Pin::new(&mut self.inner).poll_flush(cx)
    }
    fn poll_shutdown(mut self: Pin<&mut Self>, cx: &mut Context<'_>) -> Poll<std::io::Result<()>> {
        Pin::new(&mut self.inner).poll_shutdown(cx)
    }
}

#[derive(Debug)]
struct WriterEnd {
    /// Bytes known to be accepted (exact when the writer finished; a lower bound after an error
    /// inside `write_all`).
    accepted: u64,
    error: Option<ErrorKind>,
}

#[derive(Debug)]
struct ReaderEnd {
    got: u64,
    eof: bool,
    dropped_early: bool,
    error: Option<ErrorKind>,
    /// First position whose byte differed from the written stream: (position, expected, got).
    mismatch: Option<(u64, u8, u8)>,
}

enum Msg {
    W(WriterEnd),
    R(ReaderEnd),
    /// A thread could not set up its runtime (harness problem, not a verdict).
    Setup(String),
}

/// Occasional scheduling noise so that both "reader ahead" and "writer ahead" phases occur.
async fn noise(rng: &mut Rng, slow_per_mille: u64) {
    let r = rng.below(1000);
    if r < slow_per_mille {
        match rng.below(3) {
            0 => tokio::task::yield_now().await,
            1 => std::thread::yield_now(),
            _ => std::thread::sleep(Duration::from_micros(rng.range(1, 40))),
        }
    }
}

async fn linger(rng: &mut Rng) {
    if rng.bool() {
        std::thread::sleep(Duration::from_micros(rng.range(100, 1500)));
    }
}

pub fn case(total: u64, timeout_s: u64, rng: &mut Rng, out: &mut CaseOut) {
    let cap = match rng.below(6) {
        0 => rng.range(1, 3),
        1 => rng.range(4, 64),
        2 => *rng.pick(&[7, 8, 16, 255, 256, 1024, 4096]),
        _ => rng.range(1, 5000),
    } as usize;
    let w_budget = if rng.bool() { None } else { NonZeroUsize::new(rng.range(2, 16) as usize) };
    let r_budget = if rng.bool() { None } else { NonZeroUsize::new(rng.range(2, 16) as usize) };
    let w_chunk_max = *rng.pick(&[1u64, 3, 17, 100, 300, 2000]);
    let r_chunk_max = *rng.pick(&[1u64, 3, 17, 100, 300, 2000]);
    let w_slow = *rng.pick(&[0u64, 5, 50, 300]);
    let r_slow = *rng.pick(&[0u64, 5, 50, 300]);
    let end_with_shutdown = rng.bool();
    let early_drop: Option<u64> = if rng.chance(1, 5) { Some(rng.below(total.max(1))) } else { None };
    let mut w_rng = rng.fork();
    let mut r_rng = rng.fork();
    out.sig(&(cap, w_chunk_max, r_chunk_max, w_slow, r_slow, end_with_shutdown, early_drop, w_budget, r_budget));

    let (tx, rx) = byte_channel(NonZeroUsize::new(cap).unwrap());
    if !are_connected(&tx, &rx) {
        out.violation(P, "are-connected-wrong", "are_connected(tx, rx) is false for the two halves of one channel", json!({}));
        return;
    }
    let w_pending = Arc::new(AtomicU64::new(0));
    let r_pending = Arc::new(AtomicU64::new(0));
    let w_calls = Arc::new(AtomicU64::new(0));
    let r_calls = Arc::new(AtomicU64::new(0));
    let mut tx = Probe { inner: tx, pending: w_pending.clone(), calls: w_calls.clone() };
    let mut rx = Probe { inner: rx, pending: r_pending.clone(), calls: r_calls.clone() };
    let (report, results) = mpsc::channel::<Msg>();

    let report_w = report.clone();
    let writer = std::thread::Builder::new().name("bc-writer".into()).spawn(move || {
        let rt = match tokio::runtime::Builder::new_current_thread().build() {
            Ok(rt) => rt,
            Err(e) => {
                let _ = report_w.send(Msg::Setup(e.to_string()));
                return;
            }
        };
        let task = async move {
            let mut sent: u64 = 0;
            let mut buf = vec![0u8; w_chunk_max as usize];
            let mut error = None;
            while sent < total {
                let n = w_rng.range(1, w_chunk_max).min(total - sent) as usize;
                for (i, b) in buf[..n].iter_mut().enumerate() {
                    *b = pat(sent + i as u64);
                }
                let r = if w_rng.chance(7, 10) {
                    tx.write_all(&buf[..n]).await.map(|_| n)
                } else {
                    // A single write may be partial: only the accepted prefix counts as sent.
                    tx.write(&buf[..n]).await
                };
                match r {
                    Ok(k) => sent += k as u64,
                    Err(e) => {
                        error = Some(e.kind());
                        break;
                    }
                }
                if w_rng.chance(1, 20) {
                    if let Err(e) = tx.flush().await {
                        error = Some(e.kind());
                        break;
                    }
                }
                noise(&mut w_rng, w_slow).await;
            }
            // Half of the time give the reader the chance to drain and park before the channel is
            // closed, so that the close itself has to deliver the wake-up.
            linger(&mut w_rng).await;
            if error.is_none() && end_with_shutdown {
                // After the reader has gone a shutdown may fail; that is not the writer's data.
                let _ = tx.shutdown().await;
                noise(&mut w_rng, 500).await;
            }
            drop(tx);
            WriterEnd { accepted: sent, error }
        };
        let end = rt.block_on(task.with_budget_or_default(w_budget));
        let _ = report_w.send(Msg::W(end));
    });

    let report_r = report.clone();
    let reader = std::thread::Builder::new().name("bc-reader".into()).spawn(move || {
        let rt = match tokio::runtime::Builder::new_current_thread().build() {
            Ok(rt) => rt,
            Err(e) => {
                let _ = report_r.send(Msg::Setup(e.to_string()));
                return;
            }
        };
        let task = async move {
            let mut end = ReaderEnd { got: 0, eof: false, dropped_early: false, error: None, mismatch: None };
            let mut buf = vec![0u8; r_chunk_max as usize];
            loop {
                if let Some(k) = early_drop {
                    if end.got >= k {
                        // Likewise: let the writer fill the buffer and park before the drop.
                        linger(&mut r_rng).await;
                        end.dropped_early = true;
                        break;
                    }
                }
                let n = r_rng.range(1, r_chunk_max) as usize;
                match rx.read(&mut buf[..n]).await {
                    Ok(0) => {
                        end.eof = true;
                        break;
                    }
                    Ok(k) => {
                        for (i, b) in buf[..k].iter().enumerate() {
                            let pos = end.got + i as u64;
                            if *b != pat(pos) && end.mismatch.is_none() {
                                end.mismatch = Some((pos, pat(pos), *b));
                            }
                        }
                        end.got += k as u64;
                    }
                    Err(e) => {
                        end.error = Some(e.kind());
                        break;
                    }
                }
                noise(&mut r_rng, r_slow).await;
            }
            drop(rx);
            end
        };
        let end = rt.block_on(task.with_budget_or_default(r_budget));
        let _ = report_r.send(Msg::R(end));
    });
    drop(report);
    if writer.is_err() || reader.is_err() {
        out.inconclusive("could not spawn the channel threads");
        return;
    }

    let deadline = std::time::Instant::now() + Duration::from_secs(timeout_s);
    let mut w_end = None;
    let mut r_end = None;
    while w_end.is_none() || r_end.is_none() {
        let left = deadline.saturating_duration_since(std::time::Instant::now());
        match results.recv_timeout(left) {
            Ok(Msg::W(w)) => w_end = Some(w),
            Ok(Msg::R(r)) => r_end = Some(r),
            Ok(Msg::Setup(e)) => {
                out.inconclusive(format!("runtime setup failed: {e}"));
                return;
            }
            Err(mpsc::RecvTimeoutError::Timeout) => {
                // Wall clock is never a verdict. (The two threads are left behind, parked.)
                let who = match (&w_end, &r_end) {
                    (None, None) => "both",
                    (None, _) => "writer",
                    _ => "reader",
                };
                out.count(&format!("watchdog/{who}-unfinished"));
                out.inconclusive(format!("threaded case exceeded the {timeout_s}s wall-clock watchdog ({who} unfinished)"));
                return;
            }
            Err(mpsc::RecvTimeoutError::Disconnected) => {
                let who = if w_end.is_none() { "writer" } else { "reader" };
                out.violation(P, format!("threaded/{who}-thread-panicked"), format!("the {who} thread ended without a result (panic inside the channel or the runtime)"), json!({"capacity": cap}));
                return;
            }
        }
    }
    let (w, r) = (w_end.unwrap(), r_end.unwrap());
    let params = json!({
        "capacity": cap, "total": total, "writer_chunk_max": w_chunk_max, "reader_chunk_max": r_chunk_max,
        "writer_budget": w_budget.map(|b| b.get()), "reader_budget": r_budget.map(|b| b.get()),
        "end_with_shutdown": end_with_shutdown, "reader_drops_after": early_drop,
        "writer": format!("{w:?}"), "reader": format!("{r:?}"),
    });
    let wp = w_pending.load(Ordering::Relaxed);
    let rp = r_pending.load(Ordering::Relaxed);
    out.events += w_calls.load(Ordering::Relaxed) + r_calls.load(Ordering::Relaxed);
    out.add("bytes-delivered", r.got);
    out.add("writer-pending-then-resumed", wp);
    out.add("reader-pending-then-resumed", rp);
    if early_drop.is_some() {
        out.count("reader-dropped-early");
    }
    if w.error.is_some() {
        out.count("writer-saw-broken-pipe");
    }
    // Both threads terminated, so every Pending counted above was followed by a wake-up.
    out.nontrivial = wp > 0 || rp > 0;

    if let Some((pos, want, got)) = r.mismatch {
        out.violation(P, "threaded/stream-differs", format!("byte {pos} read from the channel is {got}, the byte written there was {want}"), params.clone());
    }
    if let Some(k) = r.error {
        out.violation(P, format!("threaded/read-error/{k:?}"), "the reader got an I/O error instead of end-of-stream", params.clone());
    }
    if r.got > total {
        out.violation(P, "threaded/read-more-than-written", format!("{} bytes read, {total} written", r.got), params.clone());
    }
    if r.dropped_early {
        // The writer either finished before the drop was visible or failed; it terminated.
        if w.error.is_none() && w.accepted != total {
            out.violation(P, "threaded/writer-stopped-short", "writer ended without error before sending everything", params.clone());
        }
    } else {
        if let Some(k) = w.error {
            out.violation(P, format!("threaded/write-error-while-reader-alive/{k:?}"), "a write failed although the reader was alive until end-of-stream", params.clone());
        }
        if r.eof && r.error.is_none() && r.mismatch.is_none() && w.error.is_none() && r.got != w.accepted {
            out.violation(
                P,
                if r.got < w.accepted { "threaded/eof-before-all-bytes" } else { "threaded/read-more-than-accepted" },
                format!("reader saw end-of-stream after {} bytes, writer had {} accepted before dropping", r.got, w.accepted),
                params.clone(),
            );
        }
    }
    out.set_sample(params);
}

// ------------------------------------------------------------------------------------------------
// Close races: one half is dropped while the other half is being polled on another thread.

/// One case = `rounds` fresh channels. In each round a spinner thread polls one half in a tight loop
/// (no-op waker) while this thread drops the other half at a random moment and then raises a flag.
/// Closing takes the channel's lock, so once the drop has returned every later poll of the surviving
/// half must see the closed channel: a write fails; a read drains what is buffered (at most the
/// capacity) and then returns end-of-stream. Decided on polls that *started after* the flag was
/// observed - never on timing.
pub fn close_race_case(rounds: u64, rng: &mut Rng, out: &mut CaseOut) {
    use std::sync::atomic::AtomicBool;
    use std::task::Waker;
    let mut collisions_possible = 0u64;
    for round in 0..rounds {
        let cap = *rng.pick(&[1usize, 2, 3, 8, 16, 64, 300]);
        let drop_reader = rng.bool();
        let spin_before = rng.below(400);
        let chunk = rng.range(1, 8) as usize;
        out.sig(&(cap, drop_reader, chunk));
        let (mut tx, mut rx) = byte_channel(NonZeroUsize::new(cap).expect("cap"));
        let gone = Arc::new(AtomicBool::new(false));
        let started = Arc::new(AtomicBool::new(false));
        let gone2 = gone.clone();
        let started2 = started.clone();
        if drop_reader {
            // the writer spins
            let h = std::thread::spawn(move || {
                let waker = Waker::noop();
                let mut cx = Context::from_waker(waker);
                let data = vec![0x5au8; chunk];
                let mut polls = 0u64;
                let mut after_polls = 0u64;
                started2.store(true, Ordering::Release);
                loop {
                    let after = gone2.load(Ordering::Acquire);
                    let r = Pin::new(&mut tx).poll_write(&mut cx, &data);
                    polls += 1;
                    if after {
                        // this poll started after the reader's drop had returned (a single `Pending` may be
                        // the forced yield of the cooperative budget, which is then refilled)
                        if matches!(r, Poll::Ready(Err(_))) {
                            return (polls, Some(true), String::new());
                        }
                        after_polls += 1;
                        if !matches!(r, Poll::Pending) || after_polls >= 3 {
                            return (polls, Some(false), format!("{r:?} on poll {after_polls} after the drop"));
                        }
                        continue;
                    }
                    if matches!(r, Poll::Ready(Err(_))) {
                        return (polls, None, String::new());
                    }
                    if polls > 50_000_000 {
                        return (polls, None, "spinner gave up".into());
                    }
                }
            });
            while !started.load(Ordering::Acquire) {
                std::hint::spin_loop();
            }
            for _ in 0..spin_before {
                std::hint::spin_loop();
            }
            drop(rx);
            gone.store(true, Ordering::Release);
            let (polls, verdict, shown) = h.join().expect("spinner thread");
            out.events += polls.min(1000);
            match verdict {
                Some(true) => collisions_possible += 1,
                Some(false) => {
                    out.violation(
                        P,
                        "close-race/write-does-not-fail-after-reader-dropped",
                        "a write polled after the reader's drop had returned did not fail (the channel was not closed by the drop)",
                        json!({"capacity": cap, "round": round, "poll_result": shown, "polls_before": polls}),
                    );
                    return;
                }
                None => out.count("close-race/writer-saw-the-close-before-the-flag"),
            }
        } else {
            // the reader spins; a few bytes are buffered first
            let pre = rng.below(cap as u64 + 1) as usize;
            {
                let waker = Waker::noop();
                let mut cx = Context::from_waker(waker);
                let _ = Pin::new(&mut tx).poll_write(&mut cx, &vec![0xa5u8; pre.max(1)][..pre]);
            }
            let h = std::thread::spawn(move || {
                let waker = Waker::noop();
                let mut cx = Context::from_waker(waker);
                let mut polls = 0u64;
                let mut after_polls = 0u64;
                let mut pendings_after = 0u64;
                let mut read_after = 0usize;
                started2.store(true, Ordering::Release);
                loop {
                    let after = gone2.load(Ordering::Acquire);
                    let mut space = [0u8; 4];
                    let mut buf = ReadBuf::new(&mut space);
                    let r = Pin::new(&mut rx).poll_read(&mut cx, &mut buf);
                    polls += 1;
                    let n = buf.filled().len();
                    if after {
                        after_polls += 1;
                        match r {
                            Poll::Ready(Ok(())) if n == 0 => return (polls, Some(true), String::new()),
                            Poll::Ready(Ok(())) => {
                                read_after += n;
                                if read_after > cap {
                                    return (polls, Some(false), format!("read {read_after} bytes after the writer was dropped, capacity {cap}"));
                                }
                            }
                            // the forced yield of the cooperative budget (at most every 64th poll)
                            Poll::Pending if pendings_after < 2 + after_polls / 32 => pendings_after += 1,
                            other => return (polls, Some(false), format!("{other:?} on poll {after_polls} after the writer was dropped")),
                        }
                    }
                    if polls > 50_000_000 {
                        return (polls, None, "spinner gave up".into());
                    }
                }
            });
            while !started.load(Ordering::Acquire) {
                std::hint::spin_loop();
            }
            for _ in 0..spin_before {
                std::hint::spin_loop();
            }
            drop(tx);
            gone.store(true, Ordering::Release);
            let (polls, verdict, shown) = h.join().expect("spinner thread");
            out.events += polls.min(1000);
            match verdict {
                Some(true) => collisions_possible += 1,
                Some(false) => {
                    out.violation(
                        P,
                        "close-race/no-end-of-stream-after-writer-dropped",
                        "reads polled after the writer's drop had returned did not drain the buffer and reach end-of-stream",
                        json!({"capacity": cap, "round": round, "observed": shown}),
                    );
                    return;
                }
                None => out.count("close-race/spinner-gave-up"),
            }
        }
    }
    out.add("close-race/rounds-judged", collisions_possible);
    out.nontrivial = collisions_possible > 0;
}
