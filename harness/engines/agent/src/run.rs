//! Executes one scripted conversation against the real agent runtime (`AgentRouteTask`) on a
//! current-thread Tokio runtime with a paused clock, and returns everything the monitors saw.

use std::collections::HashMap;
use std::num::NonZeroUsize;
use std::sync::Arc;
use std::time::Duration;

use bytes::Bytes;
use common::jitter::Jitter;
use common::{ticket, Rng};
use futures::StreamExt;
use parking_lot::Mutex;
use swimos::agent::agent_model::AgentModel;
use swimos_api::agent::{AgentConfig, LaneConfig};
use swimos_api::persistence::NodePersistence;
use swimos_messages::protocol::{Operation, RawRequestMessageDecoder};
use swimos_runtime::agent::reporting::{UplinkReportReader, UplinkReporter, UplinkSnapshot};
use swimos_runtime::agent::{
    AgentAttachmentRequest, AgentExecError, AgentRouteChannels, AgentRouteDescriptor, AgentRouteTask, AgentRuntimeConfig,
    CombinedAgentConfig, DisconnectionReason, LinkRequest, NodeReporting, UplinkReporterRegistration,
};
use swimos_utilities::byte_channel::byte_channel;
use swimos_utilities::trigger::{self, promise};
use tokio::sync::{mpsc, Notify};
use tokio::task::JoinHandle;
use tokio_util::codec::FramedRead;
use uuid::Uuid;

use crate::agentdef::{Rec, SharedRec, TestAgent, TestLifecycle, M1, M2, M3, S1, V1, V2};
use crate::selectdef::{SelCounters, SelectAgent, SelectLifecycle};
use crate::remote::{
    new_ctl, reader_task, set_stalled, FrameLog, Pace, PacedReader, ReaderEnd, RemoteWriter, Req, ReqKind, SharedCtl, SharedLog,
};
use crate::script::{Config, FaultPlan, OpenAnswer, RetrySpec, Step};

pub const NODE: &str = "/node";
pub const ALL_LANES: [&str; 6] = [V1, V2, M1, M2, M3, S1];

/// One attachment of a remote (a remote id may attach several times, sequentially).
pub struct Session {
    pub remote: usize,
    pub id: Uuid,
    pub attached_t0: u64,
    pub attached_t1: Option<u64>,
    pub reqs: Vec<Req>,
    pub log: SharedLog,
    pub completion: Option<(u64, Option<DisconnectionReason>)>,
    /// Ticket at which the harness dropped the writer half (None = still held at the end).
    pub writer_dropped: Option<u64>,
    /// Tickets of stall / unstall transitions (stalled from, until).
    pub stalls: Vec<(u64, Option<u64>)>,
}

struct Live {
    writer: Option<RemoteWriter>,
    ctl: SharedCtl,
    drop_signal: Arc<Notify>,
    reader: JoinHandle<()>,
    reader_done: bool,
    completion: promise::Receiver<DisconnectionReason>,
    session: usize,
}

#[derive(Clone, Debug)]
pub struct SnapshotPoint {
    pub ticket: u64,
    /// (lane name, snapshot) for each registered lane reporter, then the aggregate under "".
    pub lanes: Vec<(String, Option<UplinkSnapshot>)>,
    pub aggregate: Option<UplinkSnapshot>,
}

/// A frame received on a commander channel the agent opened (C14, agent-sent commands).
#[derive(Clone, Debug)]
pub struct TargetFrame {
    pub ticket: u64,
    /// Debug form of the `CommanderKey` the channel was opened for.
    pub key: String,
    pub target: usize,
    pub node: String,
    pub lane: String,
    pub body: Bytes,
    pub is_command: bool,
    /// The stream on this channel could not be decoded as a request frame (lane = error text).
    pub corrupt: bool,
}

/// What the harness's link server saw and did for the command channels (fault part of C14).
#[derive(Clone, Debug)]
pub enum LinkEvent {
    /// A request to open a channel for key class `key` arrived and was answered. `retry`: the
    /// previous request of this key got a transient error within the retry budget, so this one is
    /// the runtime trying again for the same output; `exhausted`: this transient answer is one more
    /// than the configured number of retries.
    Open { ticket: u64, key: usize, answer: OpenAnswer, retry: bool, exhausted: bool, channel: Option<usize> },
    /// The harness dropped the reading half of channel `channel`.
    ReaderClosed { ticket: u64, key: usize, channel: usize },
    /// The reader of `channel` saw the end of the stream: the runtime had dropped its writer.
    Eof { ticket: u64, key: usize, channel: usize },
}

pub struct FaultState {
    pub plan: FaultPlan,
    next_answer: Vec<usize>,
    /// Retries the runtime has left for the output it is opening (per key).
    retries_left: Vec<usize>,
    /// The last answer for this key was a transient error within the budget: a retry must follow.
    retrying: Vec<bool>,
    /// Channel last handed out for the key, with the task reading it (None once closed by the harness).
    current: Vec<Option<(usize, Option<JoinHandle<()>>)>>,
    transient_no: usize,
    pub log: Vec<LinkEvent>,
}

impl FaultState {
    pub fn new(plan: FaultPlan) -> Self {
        let n = plan.keys.len();
        let budget = plan.retry.retries();
        FaultState {
            plan,
            next_answer: vec![0; n],
            retries_left: vec![budget; n],
            retrying: vec![false; n],
            current: (0..n).map(|_| None).collect(),
            transient_no: 0,
            log: vec![],
        }
    }
}

pub type SharedFaults = Arc<Mutex<FaultState>>;

pub struct Obs {
    pub link_events: Vec<LinkEvent>,
    /// Tickets at which the harness had just observed quiescence (`Settle` / `Idle` steps, epilogue).
    pub settles: Vec<u64>,
    pub sessions: Vec<Session>,
    pub rec: Rec,
    pub agent_result: Option<Result<(), String>>,
    pub stop_requested: Option<u64>,
    pub agent_finished: Option<u64>,
    /// Ticket of the final quiescent point (all readers unstalled and drained), before the probe.
    pub quiescent: Option<u64>,
    pub probe_session: Option<usize>,
    pub take_drops: Vec<TakeDropObs>,
    pub effects: Vec<EffectObs>,
    pub snapshots: Vec<SnapshotPoint>,
    pub stuck: Vec<String>,
    pub identity: Uuid,
    pub target_frames: Vec<TargetFrame>,
    pub jitter_deferred: u64,
    pub crashed: bool,
    /// Select agent only: how often the agent model was handed a handler of the select family.
    pub select_counts: Option<Vec<(&'static str, u64)>>,
}

/// One command-effect probe (`Step::Effect`): the lane's callback history was `hist_before` long
/// at the quiescent point before the command was sent and `hist_after` long at the one after.
#[derive(Clone, Debug)]
pub struct EffectObs {
    pub lane: String,
    pub body: String,
    pub hist_before: usize,
    pub hist_after: usize,
    pub sent: bool,
    /// Ticket of the quiescent point after the command.
    pub t_after: u64,
}

#[derive(Clone, Debug)]
pub struct TakeDropObs {
    pub lane: u32,
    pub take: bool,
    pub n: u64,
    /// Index into `rec.map_hist[lane]` before and after the command was processed (quiescent on both sides).
    pub hist_before: usize,
    pub hist_after: usize,
    pub sent: bool,
}

pub struct Options {
    pub reporting: bool,
    pub stop_at_end: bool,
    pub probe: bool,
    /// Number of command targets the harness serves for `Act::Send`.
    pub targets: usize,
    pub target_caps: Vec<usize>,
    pub target_pace: Vec<Pace>,
    /// Crash: drop the whole agent + runtime future after this many script steps (no epilogue).
    pub crash_after: Option<usize>,
    /// Command-channel faults (C14, fault part only): the link server follows this plan, the runtime
    /// runs with the plan's retry strategy and idle time-out.
    pub faults: Option<FaultPlan>,
    /// Host the conversation on the hand-written `SelectAgent` (handlers of the `*Select*` family)
    /// instead of the derived `TestAgent`.
    pub select_agent: bool,
}

impl Default for Options {
    fn default() -> Self {
        Options {
            reporting: false,
            stop_at_end: true,
            probe: true,
            targets: 0,
            target_caps: vec![],
            target_pace: vec![],
            crash_after: None,
            faults: None,
            select_agent: false,
        }
    }
}

fn nz(n: usize) -> NonZeroUsize {
    NonZeroUsize::new(n.max(1)).unwrap()
}

pub fn runtime_config() -> AgentRuntimeConfig {
    AgentRuntimeConfig {
        inactive_timeout: Duration::from_secs(1_000_000),
        prune_remote_delay: Duration::from_secs(1_000_000),
        shutdown_timeout: Duration::from_secs(30),
        item_init_timeout: Duration::from_secs(5),
        command_output_timeout: Duration::from_secs(1_000_000),
        ..Default::default()
    }
}

const STEP_TIMEOUT: Duration = Duration::from_secs(20);

async fn settle() {
    // Paused clock: this returns only when every other task is idle (virtual time advances only then).
    tokio::time::sleep(Duration::from_millis(1)).await;
}

pub struct Runner {
    cfg: Config,
    rng: Rng,
    att_tx: mpsc::Sender<AgentAttachmentRequest>,
    ids: Vec<Uuid>,
    live: Vec<Option<Live>>,
    pub sessions: Vec<Session>,
    stuck: Vec<String>,
    rec: SharedRec,
    take_drops: Vec<TakeDropObs>,
    effects: Vec<EffectObs>,
    reporters: Arc<Mutex<Vec<(String, UplinkReportReader)>>>,
    aggregate: Option<UplinkReportReader>,
    snapshots: Vec<SnapshotPoint>,
    target_ctls: Arc<Mutex<Vec<SharedCtl>>>,
    targets_stalled: Arc<Mutex<bool>>,
    faults: Option<SharedFaults>,
    settles: Vec<u64>,
}

impl Runner {
    async fn attach(&mut self, r: usize, cap_in: usize, cap_out: usize, pace: Pace) {
        if let Some(old) = self.live[r].take() {
            self.retire(old, true).await;
        }
        // every attachment is a new connection with its own routing id (as in the real server)
        let id = Uuid::from_u128(0x1000 + self.sessions.len() as u128);
        self.ids[r] = id;
        let (req_tx, req_rx) = byte_channel(nz(cap_in));
        let (resp_tx, resp_rx) = byte_channel(nz(cap_out));
        let (comp_tx, comp_rx) = promise::promise();
        let (att_done_tx, att_done_rx) = trigger::trigger();
        let ctl = new_ctl(pace, false);
        let log: SharedLog = Arc::new(Mutex::new(FrameLog::default()));
        let drop_signal = Arc::new(Notify::new());
        let reader = tokio::spawn(reader_task(PacedReader::new(resp_rx, ctl.clone(), self.rng.fork()), log.clone(), drop_signal.clone()));
        let t0 = ticket();
        let req = AgentAttachmentRequest::with_confirmation(id, (resp_tx, req_rx), comp_tx, att_done_tx);
        let mut attached_t1 = None;
        if self.att_tx.send(req).await.is_ok() {
            match tokio::time::timeout(STEP_TIMEOUT, att_done_rx).await {
                Ok(Ok(())) => attached_t1 = Some(ticket()),
                Ok(Err(_)) => {}
                Err(_) => self.stuck.push(format!("attach of remote {r} not confirmed")),
            }
        }
        self.sessions.push(Session {
            remote: r,
            id,
            attached_t0: t0,
            attached_t1,
            reqs: vec![],
            log,
            completion: None,
            writer_dropped: None,
            stalls: vec![],
        });
        let session = self.sessions.len() - 1;
        self.live[r] = Some(Live { writer: Some(RemoteWriter::new(id, NODE, req_tx)), ctl, drop_signal, reader, reader_done: false, completion: comp_rx, session });
    }

    /// Drop both halves (if still held) and record how the runtime completed the remote.
    async fn retire(&mut self, mut live: Live, drop_reader: bool) {
        let s = live.session;
        if live.writer.take().is_some() {
            self.sessions[s].writer_dropped = Some(ticket());
        }
        if drop_reader && !live.reader_done {
            live.drop_signal.notify_one();
            let _ = (&mut live.reader).await;
            live.reader_done = true;
        }
        settle().await;
        // The completion promise is satisfied when the runtime closes the remote.
        match tokio::time::timeout(Duration::from_millis(1), live.completion).await {
            Ok(Ok(reason)) => self.sessions[s].completion = Some((ticket(), Some(reason))),
            Ok(Err(_)) => self.sessions[s].completion = Some((ticket(), None)),
            Err(_) => {}
        }
        live.reader.abort();
    }

    async fn send(&mut self, r: usize, kind: ReqKind, lane: &str, body: &str) -> bool {
        let Some(live) = self.live[r].as_mut() else { return false };
        let s = live.session;
        let Some(writer) = live.writer.as_mut() else { return false };
        let t0 = ticket();
        self.sessions[s].reqs.push(Req { t0, t1: None, kind: kind.clone(), lane: lane.to_string(), body: body.to_string() });
        match tokio::time::timeout(STEP_TIMEOUT, writer.send(&kind, lane, body)).await {
            Ok(Ok(())) => {
                self.sessions[s].reqs.last_mut().unwrap().t1 = Some(ticket());
                true
            }
            Ok(Err(_)) => {
                // The runtime closed its reading half: nothing more can be sent on this attachment.
                live.writer = None;
                self.sessions[s].writer_dropped = Some(ticket());
                false
            }
            Err(_) => {
                self.stuck.push(format!("send {kind:?} to {lane} by remote {r} did not complete in virtual {STEP_TIMEOUT:?}"));
                live.writer = None;
                self.sessions[s].writer_dropped = Some(ticket());
                false
            }
        }
    }

    fn stall(&mut self, r: usize, stalled: bool) {
        if let Some(live) = self.live[r].as_ref() {
            let was = live.ctl.lock().stalled;
            if was != stalled {
                set_stalled(&live.ctl, stalled);
                let t = ticket();
                let st = &mut self.sessions[live.session].stalls;
                if stalled {
                    st.push((t, None));
                } else if let Some(last) = st.last_mut() {
                    last.1 = Some(t);
                }
            }
        }
    }

    fn snapshot(&mut self) {
        if self.aggregate.is_none() {
            return;
        }
        let lanes = self.reporters.lock().iter().map(|(n, r)| (n.clone(), r.snapshot())).collect();
        let aggregate = self.aggregate.as_ref().and_then(|r| r.snapshot());
        self.snapshots.push(SnapshotPoint { ticket: ticket(), lanes, aggregate });
    }

    async fn step(&mut self, step: &Step) {
        match step {
            Step::Attach(r) => {
                let (ci, co, p) = (self.cfg.cap_in[*r], self.cfg.cap_out[*r], self.cfg.pace[*r]);
                self.attach(*r, ci, co, p).await;
            }
            Step::Link(r, lane) => {
                self.send(*r, ReqKind::Link, lane, "").await;
            }
            Step::Sync(r, lane) => {
                self.send(*r, ReqKind::Sync, lane, "").await;
            }
            Step::Unlink(r, lane) => {
                self.send(*r, ReqKind::Unlink, lane, "").await;
            }
            Step::Command(r, lane, body) => {
                self.send(*r, ReqKind::Command, lane, body).await;
            }
            Step::Stall(r) => self.stall(*r, true),
            Step::Unstall(r) => self.stall(*r, false),
            Step::SetPace(r, pace) => {
                if let Some(live) = self.live[*r].as_ref() {
                    live.ctl.lock().pace = *pace;
                }
            }
            Step::DropReader(r) => {
                if let Some(live) = self.live[*r].as_mut() {
                    if !live.reader_done {
                        live.drop_signal.notify_one();
                        let _ = (&mut live.reader).await;
                        live.reader_done = true;
                    }
                }
            }
            Step::DropRemote(r) => {
                if let Some(live) = self.live[*r].take() {
                    self.retire(live, true).await;
                }
            }
            Step::Settle => {
                settle().await;
                self.settles.push(ticket());
                self.snapshot();
            }
            Step::Idle(ms) => {
                tokio::time::sleep(Duration::from_millis(*ms)).await;
                settle().await;
                self.settles.push(ticket());
            }
            Step::CloseTargetReader(k) => {
                let Some(fs) = self.faults.clone() else { return };
                // only a channel that is still being read can be closed
                let taken = {
                    let mut g = fs.lock();
                    match g.current.get_mut(*k) {
                        Some(Some((ch, h))) if h.as_ref().map_or(false, |h| !h.is_finished()) => Some((*ch, h.take().unwrap())),
                        _ => None,
                    }
                };
                if let Some((channel, h)) = taken {
                    // aborting drops the reader (the task owns it); a frame is decoded and recorded
                    // without an await point in between, so none is half-recorded
                    h.abort();
                    let _ = h.await;
                    fs.lock().log.push(LinkEvent::ReaderClosed { ticket: ticket(), key: *k, channel });
                }
            }
            Step::TakeDrop { remote, lane, take, n } => {
                settle().await;
                let before = self.rec.lock().map_hist[*lane as usize].len();
                let name = [M1, M2, M3][*lane as usize];
                let body = if *take { format!("@take({n})") } else { format!("@drop({n})") };
                let sent = self.send(*remote, ReqKind::Command, name, &body).await;
                settle().await;
                let after = self.rec.lock().map_hist[*lane as usize].len();
                self.take_drops.push(TakeDropObs { lane: *lane, take: *take, n: *n, hist_before: before, hist_after: after, sent });
            }
            Step::Effect { remote, lane, body } => {
                let hist_len = |rec: &SharedRec| {
                    let r = rec.lock();
                    match lane.as_str() {
                        V1 => r.value_hist[0].len(),
                        V2 => r.value_hist[1].len(),
                        M1 => r.map_hist[0].len(),
                        M2 => r.map_hist[1].len(),
                        _ => r.map_hist[2].len(),
                    }
                };
                settle().await;
                let before = hist_len(&self.rec);
                let sent = self.send(*remote, ReqKind::Command, lane, body).await;
                settle().await;
                let after = hist_len(&self.rec);
                self.effects.push(EffectObs { lane: lane.clone(), body: body.clone(), hist_before: before, hist_after: after, sent, t_after: ticket() });
            }
            Step::StallTargets(stalled) => {
                *self.targets_stalled.lock() = *stalled;
                for c in self.target_ctls.lock().iter() {
                    set_stalled(c, *stalled);
                }
            }
            Step::StopAgent => {}
        }
    }
}

/// Serves `LinkRequest`s from the agent: commander channels are answered with byte channels whose
/// reading side is a paced "target"; downlink requests are refused.
async fn link_server(
    mut link_rx: mpsc::Receiver<LinkRequest>,
    caps: Vec<usize>,
    paces: Vec<Pace>,
    frames: Arc<Mutex<Vec<TargetFrame>>>,
    mut rng: Rng,
    ctls: Arc<Mutex<Vec<SharedCtl>>>,
    stalled: Arc<Mutex<bool>>,
    faults: Option<SharedFaults>,
) {
    let mut n = 0usize;
    while let Some(req) = link_rx.recv().await {
        match req {
            LinkRequest::Commander(c) => {
                // Fault part: decide the answer from the plan of the key this request is for.
                let mut fault_key = None;
                if let Some(fs) = faults.as_ref() {
                    let key_dbg = format!("{:?}", c.key);
                    let mut g = fs.lock();
                    if let Some(k) = g.plan.keys.iter().position(|needle| key_dbg.contains(needle.as_str())) {
                        let retry = g.retrying[k];
                        if !retry {
                            g.retries_left[k] = g.plan.retry.retries();
                        }
                        let i = g.next_answer[k];
                        g.next_answer[k] += 1;
                        let answer = g.plan.answers[k].get(i).copied().unwrap_or(OpenAnswer::Ok);
                        let mut exhausted = false;
                        g.retrying[k] = false;
                        if answer == OpenAnswer::Transient {
                            if g.retries_left[k] > 0 {
                                g.retries_left[k] -= 1;
                                g.retrying[k] = true;
                            } else {
                                exhausted = true;
                            }
                        }
                        if answer != OpenAnswer::Ok {
                            g.log.push(LinkEvent::Open { ticket: ticket(), key: k, answer, retry, exhausted, channel: None });
                            let no = g.transient_no;
                            g.transient_no += 1;
                            drop(g);
                            use swimos_api::error::{DownlinkFailureReason as R, DownlinkRuntimeError as E};
                            match answer {
                                OpenAnswer::Transient => {
                                    let reason = match no % 3 {
                                        0 => R::RemoteStopped,
                                        1 => R::ConnectionFailed(Arc::new(std::io::Error::from(std::io::ErrorKind::ConnectionReset))),
                                        _ => R::DownlinkStopped,
                                    };
                                    let _ = c.promise.send(Err(E::DownlinkConnectionFailed(reason)));
                                }
                                OpenAnswer::Fatal => {
                                    let _ = c.promise.send(Err(E::DownlinkConnectionFailed(R::InvalidUrl)));
                                }
                                _ => drop(c),
                            }
                            continue;
                        }
                        g.log.push(LinkEvent::Open { ticket: ticket(), key: k, answer, retry, exhausted, channel: Some(n) });
                        fault_key = Some(k);
                    }
                }
                let idx = n;
                n += 1;
                let cap = caps.get(idx % caps.len().max(1)).copied().unwrap_or(4096);
                let pace = paces.get(idx % paces.len().max(1)).copied().unwrap_or(Pace { chunk: 4096, yields: 0 });
                let (tx, rx) = byte_channel(nz(cap));
                let ctl = new_ctl(pace, *stalled.lock());
                ctls.lock().push(ctl.clone());
                let frames = frames.clone();
                let key = format!("{:?}", c.key);
                let reader = PacedReader::new(rx, ctl, rng.fork());
                let eof_log = faults.clone().zip(fault_key);
                let handle = tokio::spawn(async move {
                    let mut framed = FramedRead::new(reader, RawRequestMessageDecoder);
                    loop {
                        let msg = match framed.next().await {
                            Some(Ok(msg)) => msg,
                            Some(Err(e)) => {
                                frames.lock().push(TargetFrame {
                                    ticket: ticket(),
                                    key: key.clone(),
                                    target: idx,
                                    node: String::new(),
                                    lane: format!("{e}"),
                                    body: Bytes::new(),
                                    is_command: false,
                                    corrupt: true,
                                });
                                break;
                            }
                            None => {
                                if let Some((fs, k)) = eof_log.as_ref() {
                                    fs.lock().log.push(LinkEvent::Eof { ticket: ticket(), key: *k, channel: idx });
                                }
                                break;
                            }
                        };
                        let (is_command, body) = match msg.envelope {
                            Operation::Command(b) => (true, b),
                            _ => (false, Bytes::new()),
                        };
                        frames.lock().push(TargetFrame {
                            ticket: ticket(),
                            key: key.clone(),
                            target: idx,
                            node: msg.path.node.as_str().to_string(),
                            lane: msg.path.lane.as_str().to_string(),
                            body,
                            is_command,
                            corrupt: false,
                        });
                    }
                });
                if let (Some(fs), Some(k)) = (faults.as_ref(), fault_key) {
                    fs.lock().current[k] = Some((idx, Some(handle)));
                }
                let _ = c.promise.send(Ok(tx));
            }
            LinkRequest::Downlink(d) => {
                drop(d);
            }
        }
    }
}

/// Wraps an `Agent` so that the task it returns (the agent implementation's own event loop) is
/// polled under its own `Jitter`, independently of the runtime tasks it talks to.
struct JitterAgent<A> {
    inner: A,
    rng: Mutex<Rng>,
    per_mille: u64,
}

impl<A: swimos_api::agent::Agent> swimos_api::agent::Agent for JitterAgent<A> {
    fn run(
        &self,
        route: swimos_utilities::routing::RouteUri,
        route_params: HashMap<String, String>,
        config: AgentConfig,
        context: Box<dyn swimos_api::agent::AgentContext + Send>,
    ) -> futures::future::BoxFuture<'static, swimos_api::agent::AgentInitResult> {
        let init = self.inner.run(route, route_params, config, context);
        let rng = self.rng.lock().fork();
        let per_mille = self.per_mille;
        Box::pin(async move {
            let task = init.await?;
            let jittered: swimos_api::agent::AgentTask = Box::pin(Jitter::new(task, rng, per_mille));
            Ok(jittered)
        })
    }
}

/// Run one case. `store`: when given, the agent runs with persistence against it.
pub fn run_case<S>(cfg: &Config, script: &[Step], opts: &Options, rng: &mut Rng, store: Option<S>, targets: Vec<(Option<String>, String, String)>) -> Obs
where
    S: NodePersistence + Send + Sync + 'static,
{
    let rt = tokio::runtime::Builder::new_current_thread().enable_time().start_paused(true).build().expect("tokio runtime");
    let rec: SharedRec = Arc::new(Mutex::new(Rec::default()));
    let identity = Uuid::from_u128(0xA6E47);
    let cfg2 = cfg.clone();
    let mut rng2 = rng.fork();
    let rec2 = rec.clone();
    rt.block_on(async move {
        let eager = rng.below(targets.len() as u64 + 1) as u32;
        let select_counters = opts.select_agent.then(|| Arc::new(SelCounters::default()));
        let inner: swimos_api::agent::BoxAgent = match select_counters.clone() {
            None => {
                let lifecycle = TestLifecycle { rec: rec2.clone(), targets: Arc::new(targets), commanders: Default::default(), eager };
                Box::new(AgentModel::new(TestAgent::default, lifecycle.into_lifecycle()))
            }
            Some(counters) => {
                let lifecycle = SelectLifecycle { rec: rec2.clone(), targets: Arc::new(targets), commanders: Default::default(), eager };
                Box::new(AgentModel::new(move || SelectAgent::new(counters.clone()), lifecycle.into_lifecycle()))
            }
        };
        let agent = JitterAgent { inner, rng: Mutex::new(rng2.fork()), per_mille: cfg2.agent_jitter_per_mille };
        let (att_tx, att_rx) = mpsc::channel(8);
        let (_http_tx, http_rx) = mpsc::channel(1);
        let (link_tx, link_rx) = mpsc::channel(8);
        let (stop_tx, stop_rx) = trigger::trigger();
        let lane_conf = LaneConfig { input_buffer_size: nz(cfg2.lane_in_buf), output_buffer_size: nz(cfg2.lane_out_buf), transient: false };
        let mut runtime_config = runtime_config();
        if let Some(plan) = opts.faults.as_ref() {
            use swimos_utilities::future::{Quantity, RetryStrategy};
            runtime_config.command_output_timeout = Duration::from_millis(plan.timeout_ms);
            runtime_config.command_output_retry = match plan.retry {
                RetrySpec::None => RetryStrategy::none(),
                RetrySpec::Immediate(n) => RetryStrategy::immediate(nz(n)),
                RetrySpec::Interval(ms, n) => RetryStrategy::interval(Duration::from_millis(ms), Quantity::Finite(nz(n))),
            };
        }
        let faults: Option<SharedFaults> = opts.faults.clone().map(|p| Arc::new(Mutex::new(FaultState::new(p))));
        let config = CombinedAgentConfig {
            agent_config: AgentConfig { default_lane_config: Some(lane_conf), ..Default::default() },
            runtime_config,
        };
        let reporters: Arc<Mutex<Vec<(String, UplinkReportReader)>>> = Arc::new(Mutex::new(vec![]));
        let mut aggregate = None;
        let reporting = if opts.reporting {
            let agg = UplinkReporter::default();
            aggregate = Some(agg.reader());
            let (reg_tx, mut reg_rx) = mpsc::channel::<UplinkReporterRegistration>(8);
            let reps = reporters.clone();
            tokio::spawn(async move {
                while let Some(reg) = reg_rx.recv().await {
                    reps.lock().push((reg.lane_name.to_string(), reg.reader));
                }
            });
            Some(NodeReporting::new(identity, agg, reg_tx))
        } else {
            None
        };
        let descriptor = AgentRouteDescriptor { identity, route: NODE.parse().expect("route uri"), route_params: HashMap::new() };
        let task = AgentRouteTask::new(&agent, descriptor, AgentRouteChannels::new(att_rx, http_rx, link_tx), stop_rx, config, reporting);
        let jitter_rng = rng2.fork();
        let agent_handle: JoinHandle<Result<(), AgentExecError>> = match store {
            Some(store) => tokio::spawn(Jitter::new(task.run_agent_with_store(async move { Ok(store) }), jitter_rng, cfg2.jitter_per_mille)),
            None => tokio::spawn(Jitter::new(task.run_agent(), jitter_rng, cfg2.jitter_per_mille)),
        };
        let target_frames = Arc::new(Mutex::new(vec![]));
        let target_ctls = Arc::new(Mutex::new(vec![]));
        let targets_stalled = Arc::new(Mutex::new(false));
        let link_handle = tokio::spawn(link_server(
            link_rx,
            opts.target_caps.clone(),
            opts.target_pace.clone(),
            target_frames.clone(),
            rng2.fork(),
            target_ctls.clone(),
            targets_stalled.clone(),
            faults.clone(),
        ));

        let n = cfg2.remotes;
        let mut runner = Runner {
            cfg: cfg2.clone(),
            rng: rng2.fork(),
            att_tx,
            ids: (0..n + 1).map(|i| Uuid::from_u128(0x1000 + i as u128)).collect(),
            live: (0..n + 1).map(|_| None).collect(),
            sessions: vec![],
            stuck: vec![],
            rec: rec2.clone(),
            take_drops: vec![],
            effects: vec![],
            reporters,
            aggregate,
            snapshots: vec![],
            target_ctls: target_ctls.clone(),
            targets_stalled: targets_stalled.clone(),
            faults: faults.clone(),
            settles: vec![],
        };

        let mut agent_handle = Some(agent_handle);
        let mut agent_result = None;
        let mut stop_requested = None;
        let mut agent_finished = None;
        let mut crashed = false;
        for (i, step) in script.iter().enumerate() {
            if opts.crash_after == Some(i) {
                // Crash: every task of the agent and its runtime is dropped at whatever await point
                // it has reached.
                if let Some(h) = agent_handle.take() {
                    h.abort();
                    let _ = h.await;
                }
                crashed = true;
                break;
            }
            if matches!(step, Step::StopAgent) {
                break;
            }
            runner.step(step).await;
            if agent_handle.as_ref().map_or(false, |h| h.is_finished()) {
                break;
            }
        }
        // Epilogue 1: let every reader drain, reach quiescence.
        for r in 0..n {
            runner.stall(r, false);
            if let Some(live) = runner.live[r].as_ref() {
                live.ctl.lock().pace = Pace { chunk: 4096, yields: 0 };
            }
        }
        *targets_stalled.lock() = false;
        for c in target_ctls.lock().iter() {
            set_stalled(c, false);
            c.lock().pace = Pace { chunk: 4096, yields: 0 };
        }
        if let Some(plan) = opts.faults.as_ref() {
            // delayed retries of a channel that is still being opened must be able to finish
            if let RetrySpec::Interval(ms, n) = plan.retry {
                tokio::time::sleep(Duration::from_millis(ms * (n as u64 + 1) + 1_000)).await;
            }
            settle().await;
            runner.settles.push(ticket());
        }
        settle().await;
        settle().await;
        runner.snapshot();
        let quiescent = Some(ticket());
        // Epilogue 2: a fresh probe remote syncs every lane (large buffers, fast reader).
        let mut probe_session = None;
        let agent_alive = agent_handle.as_ref().map_or(false, |h| !h.is_finished());
        if opts.probe && agent_alive && !crashed {
            runner.attach(n, 4096, 1 << 16, Pace { chunk: 4096, yields: 0 }).await;
            probe_session = Some(runner.sessions.len() - 1);
            for lane in ALL_LANES {
                runner.send(n, ReqKind::Sync, lane, "").await;
            }
            settle().await;
            settle().await;
        }
        // Epilogue 3: stop the agent (clean shutdown) and collect how every remote ended.
        if !crashed && (opts.stop_at_end || !agent_alive) {
            stop_requested = Some(ticket());
            stop_tx.trigger();
            if let Some(h) = agent_handle.take() {
                match tokio::time::timeout(Duration::from_secs(120), h).await {
                    Ok(Ok(r)) => {
                        agent_finished = Some(ticket());
                        agent_result = Some(r.map_err(|e| format!("{e}")));
                    }
                    Ok(Err(join_err)) => {
                        agent_finished = Some(ticket());
                        agent_result = Some(Err(format!("agent task panicked: {join_err}")));
                    }
                    Err(_) => runner.stuck.push("agent did not stop within 120 virtual seconds of the stop signal".to_string()),
                }
            }
            settle().await;
            settle().await;
        }
        for r in 0..n + 1 {
            if let Some(live) = runner.live[r].take() {
                let s = live.session;
                // Reader first: let it observe the close; do not drop it.
                match tokio::time::timeout(Duration::from_millis(1), live.completion.clone()).await {
                    Ok(Ok(reason)) => runner.sessions[s].completion = Some((ticket(), Some(reason))),
                    Ok(Err(_)) => runner.sessions[s].completion = Some((ticket(), None)),
                    Err(_) => {}
                }
                if live.writer.is_some() {
                    runner.sessions[s].writer_dropped = None;
                }
                live.reader.abort();
            }
        }
        link_handle.abort();
        if let Some(h) = agent_handle {
            h.abort();
        }
        let rec = rec2.lock().clone();
        let tf = target_frames.lock().clone();
        let link_events = faults.as_ref().map(|f| f.lock().log.clone()).unwrap_or_default();
        Obs {
            link_events,
            settles: runner.settles,
            sessions: runner.sessions,
            rec,
            agent_result,
            stop_requested,
            agent_finished,
            quiescent,
            probe_session,
            take_drops: runner.take_drops,
            effects: runner.effects,
            snapshots: runner.snapshots,
            stuck: runner.stuck,
            identity,
            target_frames: tf,
            jitter_deferred: 0,
            crashed,
            select_counts: select_counters.map(|c| c.snapshot()),
        }
    })
}

pub fn reader_end(s: &Session) -> Option<ReaderEnd> {
    s.log.lock().end.clone()
}

