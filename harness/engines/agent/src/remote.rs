//! Simulated remotes: what a web-socket peer would send to / receive from the agent runtime, at the
//! byte-channel boundary handed to `AgentAttachmentRequest::TwoWay`. Readers are paced (bytes per
//! read, yields between reads), can be stalled and dropped; every decoded frame is ticketed.

use std::pin::Pin;
use std::sync::Arc;
use std::task::{Context, Poll, Waker};

use bytes::Bytes;
use common::{ticket, Rng};
use futures::{SinkExt, StreamExt};
use parking_lot::Mutex;
use swimos_api::address::RelativeAddress;
use swimos_messages::protocol::{Notification, RawRequestMessageEncoder, RawResponseMessageDecoder, RequestMessage};
use swimos_utilities::byte_channel::{ByteReader, ByteWriter};
use tokio::io::{AsyncRead, ReadBuf};
use tokio::sync::Notify;
use tokio_util::codec::{FramedRead, FramedWrite};
use uuid::Uuid;

#[derive(Clone, Copy, Debug)]
pub struct Pace {
    /// Maximum bytes returned per successful read.
    pub chunk: usize,
    /// Upper bound on the number of self-waking `Pending`s inserted after each successful read.
    pub yields: u32,
}

pub struct ReaderCtl {
    pub stalled: bool,
    pub pace: Pace,
    waker: Option<Waker>,
}

pub type SharedCtl = Arc<Mutex<ReaderCtl>>;

pub fn new_ctl(pace: Pace, stalled: bool) -> SharedCtl {
    Arc::new(Mutex::new(ReaderCtl { stalled, pace, waker: None }))
}

pub fn set_stalled(ctl: &SharedCtl, stalled: bool) {
    let mut g = ctl.lock();
    g.stalled = stalled;
    if !stalled {
        if let Some(w) = g.waker.take() {
            w.wake();
        }
    }
}

pub struct PacedReader {
    inner: ByteReader,
    ctl: SharedCtl,
    yield_left: u32,
    rng: Rng,
}

impl PacedReader {
    pub fn new(inner: ByteReader, ctl: SharedCtl, rng: Rng) -> Self {
        PacedReader { inner, ctl, yield_left: 0, rng }
    }
}

impl AsyncRead for PacedReader {
    fn poll_read(self: Pin<&mut Self>, cx: &mut Context<'_>, buf: &mut ReadBuf<'_>) -> Poll<std::io::Result<()>> {
        let this = self.get_mut();
        let (chunk, yields) = {
            let mut g = this.ctl.lock();
            if g.stalled {
                g.waker = Some(cx.waker().clone());
                return Poll::Pending;
            }
            (g.pace.chunk.max(1), g.pace.yields)
        };
        if this.yield_left > 0 {
            this.yield_left -= 1;
            cx.waker().wake_by_ref();
            return Poll::Pending;
        }
        let mut tmp = [0u8; 4096];
        let n = chunk.min(buf.remaining()).min(tmp.len());
        let mut rb = ReadBuf::new(&mut tmp[..n]);
        match Pin::new(&mut this.inner).poll_read(cx, &mut rb) {
            Poll::Ready(Ok(())) => {
                let filled = rb.filled();
                buf.put_slice(filled);
                if yields > 0 {
                    this.yield_left = this.rng.below(yields as u64 + 1) as u32;
                }
                Poll::Ready(Ok(()))
            }
            other => other,
        }
    }
}

#[derive(Clone, Debug, PartialEq, Eq)]
pub enum FrameKind {
    Linked,
    Synced,
    Unlinked,
    Event,
}

#[derive(Clone, Debug)]
pub struct Frame {
    pub ticket: u64,
    pub kind: FrameKind,
    pub node: String,
    pub lane: String,
    pub origin: Uuid,
    pub body: Bytes,
}

#[derive(Clone, Debug)]
pub enum ReaderEnd {
    /// The channel was closed by the runtime (ticket).
    Closed(u64),
    /// The harness dropped the reader (ticket).
    Dropped(u64),
    /// A frame could not be decoded.
    DecodeError(u64, String),
}

#[derive(Default)]
pub struct FrameLog {
    pub frames: Vec<Frame>,
    pub end: Option<ReaderEnd>,
}

pub type SharedLog = Arc<Mutex<FrameLog>>;

/// Reads frames until the channel closes or `drop_signal` is notified.
pub async fn reader_task(reader: PacedReader, log: SharedLog, drop_signal: Arc<Notify>) {
    let mut framed = FramedRead::new(reader, RawResponseMessageDecoder);
    loop {
        tokio::select! {
            biased;
            _ = drop_signal.notified() => {
                log.lock().end = Some(ReaderEnd::Dropped(ticket()));
                return;
            }
            item = framed.next() => {
                match item {
                    Some(Ok(msg)) => {
                        let (kind, body) = match msg.envelope {
                            Notification::Linked => (FrameKind::Linked, Bytes::new()),
                            Notification::Synced => (FrameKind::Synced, Bytes::new()),
                            Notification::Unlinked(b) => (FrameKind::Unlinked, b.unwrap_or_default()),
                            Notification::Event(b) => (FrameKind::Event, b),
                        };
                        log.lock().frames.push(Frame {
                            ticket: ticket(),
                            kind,
                            node: msg.path.node.as_str().to_string(),
                            lane: msg.path.lane.as_str().to_string(),
                            origin: msg.origin,
                            body,
                        });
                    }
                    Some(Err(e)) => {
                        log.lock().end = Some(ReaderEnd::DecodeError(ticket(), format!("{e:?}")));
                        return;
                    }
                    None => {
                        log.lock().end = Some(ReaderEnd::Closed(ticket()));
                        return;
                    }
                }
            }
        }
    }
}

#[derive(Clone, Debug, PartialEq, Eq)]
pub enum ReqKind {
    Link,
    Sync,
    Unlink,
    Command,
}

#[derive(Clone, Debug)]
pub struct Req {
    /// Ticket drawn before the request is handed to the channel.
    pub t0: u64,
    /// Ticket drawn after the whole frame was accepted by the channel (None: never completed).
    pub t1: Option<u64>,
    pub kind: ReqKind,
    pub lane: String,
    pub body: String,
}

pub struct RemoteWriter {
    pub id: Uuid,
    pub node: String,
    framed: FramedWrite<ByteWriter, RawRequestMessageEncoder>,
}

impl RemoteWriter {
    pub fn new(id: Uuid, node: &str, writer: ByteWriter) -> Self {
        RemoteWriter { id, node: node.to_string(), framed: FramedWrite::new(writer, RawRequestMessageEncoder) }
    }

    pub async fn send(&mut self, kind: &ReqKind, lane: &str, body: &str) -> std::io::Result<()> {
        let path = RelativeAddress::new(self.node.as_str(), lane);
        let msg: RequestMessage<&str, &[u8]> = match kind {
            ReqKind::Link => RequestMessage::link(self.id, path),
            ReqKind::Sync => RequestMessage::sync(self.id, path),
            ReqKind::Unlink => RequestMessage::unlink(self.id, path),
            ReqKind::Command => RequestMessage::command(self.id, path, body.as_bytes()),
        };
        self.framed.send(msg).await
    }
}
