//! C05: persistence ordering and restart, decided with the recording store.
//!  (1) store-before-send: every event frame of a persistent lane carries a state that was handed
//!      to the store at an earlier ticket;
//!  (2) every cut point of the store-operation log: rebuild the store from the first k operations,
//!      start a *fresh agent instance* (real runtime) against it and compare what a syncing probe
//!      (and a store dump) sees with the fold of those k operations; transient items at defaults;
//!  (3) real crash (all tasks dropped at a seeded await point) / clean stop, then restart against the
//!      surviving store.

use std::collections::BTreeMap;

use common::{json, CaseOut, Rng};
use swimos_agent_protocol::MapMessage;
use swimos_recon::parser::parse_recognize;

use crate::agentdef::{M1, M2, M3, V1, V2};
use crate::remote::{FrameKind, Pace};
use crate::run::{self, Obs, Options};
use crate::script::{Config, Focus, Gen, Step};
use crate::store::{state_at, Op, RecStore, State};

#[derive(Debug, Clone, PartialEq, Eq, Default)]
pub struct Restored {
    pub v1: Option<u64>,
    pub v2: Option<u64>,
    pub m1: BTreeMap<i32, u64>,
    pub m2: BTreeMap<i32, u64>,
    pub m3: BTreeMap<i32, u64>,
    pub vs: Option<u64>,
    pub vt: Option<u64>,
    pub ms: BTreeMap<i32, u64>,
    pub synced: [bool; 5],
    /// Previous value reported by the first on_set of v1 / v2 and the first on_update of m1[k0] after the restart
    /// (None: the handler did not run).
    pub first_prev: [Option<Option<u64>>; 3],
}

fn key_m1(s: &str) -> Option<i32> {
    s.strip_prefix('k')?.parse().ok()
}

pub fn expected_from(state: &State) -> Restored {
    Restored {
        v1: Some(state.value_u64(V1).unwrap_or(0)),
        v2: Some(0),
        m1: state.map_text(M1).iter().filter_map(|(k, v)| Some((key_m1(k)?, *v))).collect(),
        m2: state.map_text(M2).iter().filter_map(|(k, v)| Some((k.parse().ok()?, *v))).collect(),
        m3: BTreeMap::new(),
        vs: Some(state.value_u64("vs").unwrap_or(0)),
        vt: Some(0),
        ms: state.map_text("ms").iter().filter_map(|(k, v)| Some((key_m1(k)?, *v))).collect(),
        synced: [true; 5],
        first_prev: [None; 3],
    }
}

fn probe_config() -> Config {
    Config {
        remotes: 1,
        cap_out: vec![1 << 16; 2],
        cap_in: vec![4096; 2],
        pace: vec![Pace { chunk: 4096, yields: 0 }; 2],
        lane_in_buf: 4096,
        lane_out_buf: 4096,
        jitter_per_mille: 0,
        agent_jitter_per_mille: 0,
        keys: 5,
    }
}

/// Start a fresh agent against `state`, sync every lane with one remote and dump the stores.
pub fn restart_and_observe(state: &State, rng: &mut Rng) -> Result<Restored, String> {
    let store = RecStore::from_state(state.clone());
    let cfg = probe_config();
    let mut script = vec![Step::Attach(0)];
    for lane in [V1, V2, M1, M2, M3] {
        script.push(Step::Sync(0, lane.to_string()));
    }
    script.push(Step::Settle);
    script.push(Step::Command(0, "cmd".to_string(), "@cmd{id:1,acts:{@dump}}".to_string()));
    script.push(Step::Settle);
    // The first change of each kind of item after the restart: the lifecycle handlers must be told the
    // restored state as the previous one (C06: "with the true previous value / entry").
    script.push(Step::Command(0, "cmd".to_string(), "@cmd{id:2,acts:{@setv{lane:0,v:990000000001},@setv{lane:1,v:990000000002},@upd{lane:0,k:0,v:990000000003}}}".to_string()));
    script.push(Step::Settle);
    let opts = Options { probe: false, ..Default::default() };
    let obs = run::run_case(&cfg, &script, &opts, rng, Some(store), vec![]);
    if !obs.stuck.is_empty() {
        return Err(format!("stuck: {}", obs.stuck[0]));
    }
    if let Some(Err(e)) = &obs.agent_result {
        return Err(format!("agent failed after restart: {e}"));
    }
    let mut r = Restored::default();
    let s = obs.sessions.first().ok_or("no session")?;
    let log = s.log.lock();
    // what the syncing remote was shown before the first change after the restart
    let change_at = s.reqs.iter().find(|r| r.body.contains("id:2,")).map(|r| r.t0).unwrap_or(u64::MAX);
    for f in log.frames.iter().filter(|f| f.ticket < change_at) {
        let idx = [V1, V2, M1, M2, M3].iter().position(|l| *l == f.lane);
        match (&f.kind, idx) {
            (FrameKind::Synced, Some(i)) => r.synced[i] = true,
            (FrameKind::Event, Some(i)) => {
                let text = String::from_utf8_lossy(&f.body).to_string();
                match i {
                    0 => r.v1 = text.trim().parse().ok(),
                    1 => r.v2 = text.trim().parse().ok(),
                    2 => {
                        if let Ok(MapMessage::Update { key, value }) = parse_recognize::<MapMessage<String, u64>>(text.as_str(), false) {
                            if let Some(k) = key_m1(&key) {
                                r.m1.insert(k, value);
                            }
                        }
                    }
                    _ => {
                        if let Ok(MapMessage::Update { key, value }) = parse_recognize::<MapMessage<i32, u64>>(text.as_str(), false) {
                            if i == 3 {
                                r.m2.insert(key, value);
                            } else {
                                r.m3.insert(key, value);
                            }
                        }
                    }
                }
            }
            _ => {}
        }
    }
    r.first_prev = [
        obs.rec.value_hist[0].iter().find(|x| x.2 == 990000000001).map(|x| x.1),
        obs.rec.value_hist[1].iter().find(|x| x.2 == 990000000002).map(|x| x.1),
        obs.rec.map_hist[0].iter().find_map(|(_, e)| match e {
            crate::agentdef::MapEv::Upd { k: 0, prev, new: 990000000003 } => Some(*prev),
            _ => None,
        }),
    ];
    if let Some((_, vs, vt, ms)) = obs.rec.dumps.last() {
        r.vs = Some(*vs);
        r.vt = Some(*vt);
        r.ms = ms.clone();
    }
    Ok(r)
}

fn diff_class(got: &Restored, want: &Restored) -> Option<&'static str> {
    if got.v1 != want.v1 {
        Some("value-lane")
    } else if got.m1 != want.m1 || got.m2 != want.m2 {
        Some("map-lane")
    } else if got.vs != want.vs {
        Some("value-store")
    } else if got.ms != want.ms {
        Some("map-store")
    } else if got.v2 != want.v2 || got.m3 != want.m3 || got.vt != want.vt {
        Some("transient-item-not-default")
    } else if got.synced != want.synced {
        Some("sync-not-completed")
    } else {
        None
    }
}

pub struct PersistSummary {
    pub store_ops: u64,
    pub cut_points: u64,
    pub frames_checked: u64,
    pub mode: &'static str,
}

pub fn run_case_c05(rng: &mut Rng, out: &mut CaseOut, max_len: usize, all_cuts: bool) -> PersistSummary {
    let mut g = Gen::new(rng);
    let cfg = g.config(Focus::Persist);
    let len = g.rng.range(6, max_len as u64) as usize;
    let script = g.script(Focus::Persist, &cfg, len);
    drop(g);
    // How the first incarnation ends: clean stop, or a crash (all tasks dropped) at a seeded step.
    let mode = rng.below(3);
    let crash_after = if mode == 0 { None } else { Some(rng.range(2, script.len() as u64) as usize) };
    let opts = Options { crash_after, ..Default::default() };
    let store = RecStore::default();
    let obs: Obs = run::run_case(&cfg, &script, &opts, rng, Some(store.clone()), vec![]);
    if !obs.stuck.is_empty() {
        out.inconclusive(format!("stuck: {}", obs.stuck[0]));
    }
    let (final_state, log, id_requests) = store.snapshot();
    let mode_name = if obs.crashed { "crash" } else { "clean-stop" };
    out.sig(&(mode_name, log.len()));
    for (_, op) in &log {
        out.sig(&format!("{op:?}"));
    }
    let base = State { ids: final_state.ids.clone(), ..Default::default() };
    if out.verbose {
        eprintln!("config: {cfg:?}\n mode {mode_name} crash_after {crash_after:?}");
        for st in &script {
            eprintln!("  step {st:?}");
        }
        eprintln!(" ids {:?}", final_state.ids);
        for (i, (t, op)) in log.iter().enumerate() {
            eprintln!(" store[{i}] t={t} {op:?}");
        }
        for (l, h) in obs.rec.map_hist.iter().enumerate() {
            eprintln!(" map history {l}: {h:?}");
        }
        for (si, se) in obs.sessions.iter().enumerate() {
            for f in &se.log.lock().frames {
                eprintln!(" session {si} <- t={} {:?} {} {:?}", f.ticket, f.kind, f.lane, String::from_utf8_lossy(&f.body));
            }
        }
    }

    // Transient items never reach the store.
    for (_, name) in &id_requests {
        if [V2, M3, "vt", "s1", "cmd"].contains(&name.as_str()) {
            out.violation("C05", format!("transient-item-given-store-id/{name}"), "a transient item asked the store for an identifier", json!({"item": name}));
        }
    }

    // (1) store-before-send
    let id_of = |name: &str| final_state.ids.get(name).copied();
    let mut frames_checked = 0u64;
    for s in &obs.sessions {
        let flog = s.log.lock();
        for f in flog.frames.iter().filter(|f| f.kind == FrameKind::Event) {
            let text = String::from_utf8_lossy(&f.body).to_string();
            let lane = f.lane.as_str();
            let before = |pred: &dyn Fn(&Op) -> bool| log.iter().any(|(t, op)| *t < f.ticket && pred(op));
            let ok = match lane {
                V1 => {
                    frames_checked += 1;
                    let id = id_of(V1);
                    let want = text.trim().as_bytes().to_vec();
                    // the initial value (never set) is the default and has no store entry
                    text.trim() == "0" || before(&|op| matches!(op, Op::PutValue { id: i, value } if Some(*i) == id && *value == want))
                }
                M1 | M2 => {
                    frames_checked += 1;
                    let id = id_of(lane);
                    let parsed: Option<(u8, String, String)> = if lane == M1 {
                        match parse_recognize::<MapMessage<String, u64>>(text.as_str(), false) {
                            Ok(MapMessage::Update { key, value }) => Some((0, key, value.to_string())),
                            Ok(MapMessage::Remove { key }) => Some((1, key, String::new())),
                            Ok(MapMessage::Clear) => Some((2, String::new(), String::new())),
                            _ => None,
                        }
                    } else {
                        match parse_recognize::<MapMessage<i32, u64>>(text.as_str(), false) {
                            Ok(MapMessage::Update { key, value }) => Some((0, key.to_string(), value.to_string())),
                            Ok(MapMessage::Remove { key }) => Some((1, key.to_string(), String::new())),
                            Ok(MapMessage::Clear) => Some((2, String::new(), String::new())),
                            _ => None,
                        }
                    };
                    match parsed {
                        Some((0, k, v)) => before(&|op| matches!(op, Op::UpdateMap { id: i, key, value } if Some(*i) == id && key.as_slice() == k.as_bytes() && value.as_slice() == v.as_bytes())),
                        Some((1, k, _)) => before(&|op| matches!(op, Op::RemoveMap { id: i, key } if Some(*i) == id && key.as_slice() == k.as_bytes())),
                        Some((2, _, _)) => before(&|op| matches!(op, Op::ClearMap { id: i } if Some(*i) == id)),
                        _ => true, // unparseable bodies are C04's business
                    }
                }
                _ => true,
            };
            if !ok {
                out.violation(
                    "C05",
                    format!("sent-before-stored/{}", if lane == V1 { "value" } else { "map" }),
                    "a remote received a state of a persistent lane that had not been handed to the store before",
                    json!({"lane": lane, "body": text.chars().take(60).collect::<String>(), "frame_ticket": f.ticket}),
                );
            }
        }
    }
    out.events += frames_checked + log.len() as u64;

    // (1b) at every cut point of the store log – no restart needed – the stored state of a
    // persistent lane must not be older than a state some remote had already *received* before the
    // next store operation (receipt is later than sending, so this is sound): "never something older
    // than what a subscriber already saw", for a crash right after operation k.
    {
        // value lane v1: index of each value in the true history (0 = default)
        let mut vidx: std::collections::HashMap<u64, usize> = std::collections::HashMap::new();
        vidx.insert(0, 0);
        for (i, (_, _, v)) in obs.rec.value_hist[0].iter().enumerate() {
            vidx.insert(*v, i + 1);
        }
        let mut v_frames: Vec<(u64, usize)> = vec![];
        // map lanes m1/m2: per key, index of each value in that key's timeline; `absent_after[i]` = the
        // key was removed/cleared at some point after entry i
        let mut kidx: [std::collections::HashMap<(i32, u64), (usize, u64)>; 2] = [Default::default(), Default::default()];
        let mut removed_at: [std::collections::HashMap<i32, Vec<u64>>; 2] = [Default::default(), Default::default()];
        for l in 0..2 {
            let mut present: std::collections::BTreeSet<i32> = Default::default();
            let mut count: std::collections::HashMap<i32, usize> = Default::default();
            for (t, ev) in &obs.rec.map_hist[l] {
                match ev {
                    crate::agentdef::MapEv::Upd { k, new, .. } => {
                        let c = count.entry(*k).or_insert(0);
                        *c += 1;
                        kidx[l].insert((*k, *new), (*c, *t));
                        present.insert(*k);
                    }
                    crate::agentdef::MapEv::Rem { k, .. } => {
                        removed_at[l].entry(*k).or_default().push(*t);
                        present.remove(k);
                    }
                    crate::agentdef::MapEv::Clr { .. } => {
                        for k in present.iter() {
                            removed_at[l].entry(*k).or_default().push(*t);
                        }
                        present.clear();
                    }
                }
            }
        }
        let mut m_frames: [Vec<(u64, i32, u64)>; 2] = [vec![], vec![]];
        for s in &obs.sessions {
            let flog = s.log.lock();
            for f in flog.frames.iter().filter(|f| f.kind == FrameKind::Event) {
                let text = String::from_utf8_lossy(&f.body).to_string();
                match f.lane.as_str() {
                    V1 => {
                        if let Some(i) = text.trim().parse::<u64>().ok().and_then(|v| vidx.get(&v).copied()) {
                            v_frames.push((f.ticket, i));
                        }
                    }
                    M1 => {
                        if let Ok(MapMessage::Update { key, value }) = parse_recognize::<MapMessage<String, u64>>(text.as_str(), false) {
                            if let Some(k) = key_m1(&key) {
                                m_frames[0].push((f.ticket, k, value));
                            }
                        }
                    }
                    M2 => {
                        if let Ok(MapMessage::Update { key, value }) = parse_recognize::<MapMessage<i32, u64>>(text.as_str(), false) {
                            m_frames[1].push((f.ticket, key, value));
                        }
                    }
                    _ => {}
                }
            }
        }
        let n = log.len();
        'cuts: for k in 0..=n {
            let t_next = if k < n { log[k].0 } else { u64::MAX };
            let st = state_at(&base, &log, k);
            let stored_v = st.value_u64(V1).and_then(|v| vidx.get(&v).copied()).unwrap_or(0);
            if let Some((t, seen)) = v_frames.iter().filter(|(t, _)| *t < t_next).max_by_key(|(_, i)| *i) {
                if *seen > stored_v {
                    out.violation(
                        "C05",
                        format!("published-newer-than-stored/value/{}", if k == n { "surviving-store" } else { "cut" }),
                        "a remote had already received a value of a persistent lane that the store (as it would be after a crash at this point) does not yet hold: restart would bring back something older than what a subscriber saw",
                        json!({"cut": k, "of": n, "frame_ticket": t, "next_store_op_ticket": t_next, "history_index_seen": seen, "history_index_stored": stored_v, "store_ops_around": log.iter().skip(k.saturating_sub(2)).take(4).map(|(t, o)| format!("{t}: {o:?}")).collect::<Vec<_>>()}),
                    );
                    break 'cuts;
                }
            }
            for l in 0..2 {
                let stored = if l == 0 {
                    st.map_text(M1).iter().filter_map(|(k, v)| Some((key_m1(k)?, *v))).collect::<BTreeMap<i32, u64>>()
                } else {
                    st.map_text(M2).iter().filter_map(|(k, v)| Some((k.parse().ok()?, *v))).collect::<BTreeMap<i32, u64>>()
                };
                for (t, key, value) in m_frames[l].iter().filter(|(t, _, _)| *t < t_next) {
                    let Some((seen_i, seen_t)) = kidx[l].get(&(*key, *value)).copied() else { continue };
                    let ok = match stored.get(key) {
                        Some(sv) => kidx[l].get(&(*key, *sv)).map_or(true, |(si, _)| *si >= seen_i),
                        // absent in the store: fine only if the key was removed/cleared after that value
                        None => removed_at[l].get(key).map_or(false, |ts| ts.iter().any(|rt| *rt > seen_t)),
                    };
                    if !ok {
                        // The store did hold this entry and then lost it to a clear / remove that the lane had
                        // executed *before* the update (the removal reached the store after the newer update:
                        // a targeted sync event, which is persisted too, overtook the older standard event).
                        let lane_name = if l == 0 { M1 } else { M2 };
                        let overtaken = base.id(lane_name).map_or(false, |id| {
                            let key_text: Vec<u8> = if l == 0 { format!("k{key}").into_bytes() } else { format!("{key}").into_bytes() };
                            let val_text = format!("{value}").into_bytes();
                            let stored_at = log[..k].iter().position(|(_, op)| matches!(op, Op::UpdateMap { id: i, key: kk, value: vv } if *i == id && *kk == key_text && *vv == val_text));
                            stored_at.map_or(false, |p| {
                                log[p + 1..k].iter().any(|(_, op)| match op {
                                    Op::ClearMap { id: i } => *i == id,
                                    Op::RemoveMap { id: i, key: kk } => *i == id && *kk == key_text,
                                    _ => false,
                                })
                            })
                        });
                        out.violation(
                            "C05",
                            format!("published-newer-than-stored/map/{}{}", if k == n { "surviving-store" } else { "cut" }, if overtaken { "/older-removal-stored-after-newer-update" } else { "" }),
                            "a remote had already received a map entry of a persistent lane that the store (as it would be after a crash at this point) does not reflect",
                            json!({"cut": k, "of": n, "lane": l, "key": key, "value": value, "frame_ticket": t, "stored": format!("{:?}", stored.get(key))}),
                        );
                        break 'cuts;
                    }
                }
            }
        }
        out.events += (n as u64 + 1) * (v_frames.len() + m_frames[0].len() + m_frames[1].len()).min(50) as u64 / 10;
    }

    // (2)+(3) restart at cut points. The final cut (k = len) is the store as it actually survived.
    let n = log.len();
    let cuts: Vec<usize> = if all_cuts || n <= 24 {
        (0..=n).collect()
    } else {
        // all cuts in the thorough tier; in the quick tier a seeded third of them plus both ends
        let mut v: Vec<usize> = (0..=n).filter(|k| *k == 0 || *k == n || rng.chance(1, 3)).collect();
        v.dedup();
        v
    };
    let mut cut_points = 0;
    for k in cuts {
        let st = state_at(&base, &log, k);
        let want = expected_from(&st);
        match restart_and_observe(&st, rng) {
            Err(e) => {
                if e.starts_with("stuck") {
                    out.inconclusive(e);
                } else {
                    out.violation("C05", "restart-failed", "a fresh agent instance could not be started against the surviving store", json!({"error": e, "cut": k, "of": n}));
                }
            }
            Ok(got) => {
                cut_points += 1;
                out.events += 1;
                // C06: what the first handlers after the restart were told was there before must be what a
                // syncing remote had just been shown (the lane's state right before the change).
                let shown = [got.v1.or(Some(0)), got.v2.or(Some(0)), got.m1.get(&0).copied()];
                for (i, item) in ["value-lane", "transient-value-lane", "map-lane"].iter().enumerate() {
                    match got.first_prev[i] {
                        None => out.count("first-change-after-restart-not-observed"),
                        Some(prev) if prev != shown[i] => {
                            out.violation(
                                "C06",
                                format!("restart/first-handler-previous-value/{item}"),
                                "the first on_set / on_update after a restart was given a previous value that is not the state the lane held (and had just shown to a syncing remote)",
                                json!({"cut": k, "of": n, "told": prev, "lane_held": shown[i]}),
                            );
                        }
                        Some(_) => out.count("first-change-after-restart-previous-checked"),
                    }
                }
                if let Some(class) = diff_class(&got, &want) {
                    out.violation(
                        "C05",
                        format!("restored-state-differs/{class}/{}", if k == n { "final" } else { "cut" }),
                        "after restart an item does not hold the last state handed to the store (or a transient item is not at its default)",
                        json!({"cut": k, "of": n, "got": format!("{got:?}"), "want": format!("{want:?}"), "last_op": if k > 0 { format!("{:?}", log[k - 1].1) } else { String::new() }}),
                    );
                    break;
                }
            }
        }
    }
    out.nontrivial = n >= 3 && cut_points >= 3;
    out.set_sample(json!({"mode": mode_name, "store_ops": n, "cut_points": cut_points, "first_ops": log.iter().take(6).map(|(t, o)| format!("{t}: {o:?}")).collect::<Vec<_>>()}));
    PersistSummary { store_ops: n as u64, cut_points, frames_checked, mode: mode_name }
}
