//! Engine `agent`: the real agent runtime (`AgentRouteTask`) + a derived agent, conversed with by
//! simulated remotes over byte channels; serves C01 C02 C03 C04 C14 C20 (and C05 with a store).

mod agentdef;
mod cmdfault;
mod effect;
mod oracle;
mod persist;
mod remote;
mod run;
mod script;
mod selectdef;
mod store;

use common::{json, CaseOut, Json, Rng, Session};
use swimos_api::persistence::StoreDisabled;

use remote::FrameKind;
use script::{Focus, Gen, Step};

fn focus_for(prop: &str) -> Vec<(Focus, &'static str, u64)> {
    // (focus, part name, share of the budget in percent)
    match prop {
        "C01" => vec![(Focus::Value, "value-conversations", 80), (Focus::Sync, "sync-conversations", 20)],
        "C02" => vec![(Focus::Map, "map-conversations", 80), (Focus::Sync, "sync-conversations", 20)],
        "C03" => vec![(Focus::Sync, "sync-conversations", 70), (Focus::Map, "map-conversations", 30)],
        "C04" => vec![(Focus::Protocol, "protocol-conversations", 60), (Focus::Sync, "sync-conversations", 20), (Focus::Value, "value-conversations", 20)],
        "C14" => vec![(Focus::Supply, "supply-conversations", 15), (Focus::Commands, "agent-command-conversations", 85)],
        "C20" => vec![(Focus::Links, "link-conversations", 100)],
        // C06 takes from the conversations only the clauses about the lifecycle callbacks' arguments (rules `history/...`)
        "C06" => vec![(Focus::Map, "map-conversations", 60), (Focus::Value, "value-conversations", 40)],
        _ => vec![(Focus::Protocol, "protocol-conversations", 100)],
    }
}

/// Parts hosted on the hand-written `SelectAgent` (handlers of the `*Select*` family, see `selectdef`):
/// the same generators and oracles as the parts of `focus_for`, 9-10 % of the budget on top of it.
fn select_focus_for(prop: &str) -> Vec<(Focus, &'static str, u64)> {
    match prop {
        "C01" => vec![(Focus::Value, "select-value-conversations", 7), (Focus::Sync, "select-sync-conversations", 2)],
        "C02" => vec![(Focus::Map, "select-map-conversations", 8), (Focus::Sync, "select-sync-conversations", 2)],
        "C03" => vec![(Focus::Sync, "select-sync-conversations", 7), (Focus::Map, "select-map-conversations", 3)],
        _ => vec![],
    }
}

fn describe(script: &[Step]) -> Vec<String> {
    script.iter().map(|s| format!("{s:?}").chars().take(100).collect()).collect()
}

fn run_one(focus: Focus, len: usize, rng: &mut Rng, out: &mut CaseOut, reporting: bool) {
    let mut g = Gen::new(rng);
    let cfg = g.config(focus);
    let script = g.script(focus, &cfg, len);
    drop(g);
    run_script(&cfg, &script, rng, out, reporting);
}

/// The same conversation generator, hosted on the hand-written `SelectAgent`.
fn run_one_select(focus: Focus, len: usize, rng: &mut Rng, out: &mut CaseOut) {
    let mut g = Gen::new(rng);
    let cfg = g.config(focus);
    let script = g.script_with_effects(focus, &cfg, len);
    drop(g);
    run_script_with(&cfg, &script, rng, out, false, None, true);
}

/// C14, fault part: the command channels the agent's commands travel on fail to open, fail while
/// open, or are closed by the idle time-out (see `cmdfault`).
fn run_fault_case(len: usize, rng: &mut Rng, out: &mut CaseOut) {
    let mut g = Gen::new(rng);
    let cfg = g.config(Focus::Commands);
    let plan = g.fault_plan();
    let script = g.fault_script(&cfg, len, &plan);
    drop(g);
    run_script_with(&cfg, &script, rng, out, false, Some(plan), false);
}

fn run_script(cfg: &script::Config, script: &[Step], rng: &mut Rng, out: &mut CaseOut, reporting: bool) {
    run_script_with(cfg, script, rng, out, reporting, None, false)
}

fn run_script_with(cfg: &script::Config, script: &[Step], rng: &mut Rng, out: &mut CaseOut, reporting: bool, faults: Option<script::FaultPlan>, select_agent: bool) {
    // command targets: two lanes behind one remote host (they share a channel) and one local lane
    let targets: Vec<(Option<String>, String, String)> = if faults.is_some() {
        script::fault_targets()
    } else {
        vec![
            (Some("ws://hosta:9001".to_string()), "/t0".to_string(), "in".to_string()),
            (Some("ws://hosta:9001".to_string()), "/t1".to_string(), "in".to_string()),
            (None, "/t2".to_string(), "in".to_string()),
        ]
    };
    let opts = run::Options {
        reporting,
        target_caps: vec![*rng.pick(&[4usize, 16, 64, 4096]), *rng.pick(&[8usize, 64, 4096])],
        target_pace: vec![remote::Pace { chunk: *rng.pick(&[1usize, 3, 64, 4096]), yields: *rng.pick(&[0u32, 2, 20]) }],
        faults: faults.clone(),
        select_agent,
        ..Default::default()
    };
    let obs = run::run_case::<StoreDisabled>(cfg, script, &opts, rng, None, targets.clone());
    if let Some(plan) = faults.as_ref() {
        // the channels fail on purpose here: the rules of `check_agent_commands` (which assume targets
        // that are always reachable) are replaced by those of `cmdfault`
        cmdfault::check(&obs, &targets, plan, out);
    } else {
        let (cmd_recv, cmd_superseded, shared) = oracle::check_agent_commands(&obs, &targets, out);
        out.add("agent-commands-forwarded", cmd_recv);
        out.add("agent-commands-superseded", cmd_superseded);
        out.add("command-channels-shared-by-two-targets", shared);
    }
    if !obs.stuck.is_empty() {
        out.inconclusive(format!("stuck: {}", obs.stuck[0]));
    }
    // schedule signature: global order of (session, frame kind, lane) receipts
    let mut order: Vec<(u64, usize, u8, String)> = vec![];
    for (si, s) in obs.sessions.iter().enumerate() {
        for f in &s.log.lock().frames {
            let k = match f.kind {
                FrameKind::Linked => 0,
                FrameKind::Synced => 1,
                FrameKind::Unlinked => 2,
                FrameKind::Event => 3,
            };
            order.push((f.ticket, si, k, f.lane.clone()));
        }
    }
    order.sort();
    for (_, si, k, lane) in &order {
        out.sig(&(*si, *k, lane));
    }
    let sum = oracle::check_all(&obs, out);
    out.nontrivial = sum.frames >= 4;
    out.add("frames", sum.frames);
    out.add("values-coalesced-away", sum.coalesced_values);
    out.add("synced-frames", sum.synced_frames);
    out.add("sync-windows-checked", sum.sync_windows);
    out.add("links-checked-for-convergence", sum.converged_links);
    out.add("lane-not-found-replies", sum.lane_not_found);
    out.add("supply-items-received", sum.supply_items);
    out.add("supply-items-certain", sum.supply_certain);
    out.add("commands-handled", sum.commands_traced);
    out.add("take-drop-checked", sum.take_drops);
    if let Some(counts) = obs.select_counts.as_ref() {
        // which handlers of the select family the agent model was handed in this case
        out.count("agent-type/select");
        for (name, n) in counts {
            out.add(name, *n);
        }
        let judged = effect::check_effects(&obs, out);
        out.add("command-effect-checked", judged);
    }
    if out.verbose {
        eprintln!("config: {cfg:?}");
        for st in script {
            eprintln!("  step {st:?}");
        }
        for (si, se) in obs.sessions.iter().enumerate() {
            eprintln!(" session {si} remote {} attached {:?} completion {:?} end {:?}", se.remote, se.attached_t1, se.completion, run::reader_end(se));
            let log = se.log.lock();
            let mut lines: Vec<(u64, String)> = vec![];
            for r in &se.reqs {
                lines.push((r.t0, format!("   -> t0={} t1={:?} {:?} {} {}", r.t0, r.t1, r.kind, r.lane, r.body)));
            }
            for f in &log.frames {
                lines.push((f.ticket, format!("   <- t={} {:?} {} {:?}", f.ticket, f.kind, f.lane, f.body)));
            }
            lines.sort();
            for (_, l) in lines {
                eprintln!("{l}");
            }
        }
        for f in &obs.target_frames {
            eprintln!(" target-frame t={} ch={} key={} {}{} {:?}", f.ticket, f.target, f.key, f.node, f.lane, f.body);
        }
        for e in &obs.link_events {
            eprintln!(" link-event {e:?}");
        }
        if let Some(plan) = faults.as_ref() {
            eprintln!(" fault plan: {plan:?}");
            eprintln!(" settles: {:?}", obs.settles);
        }
        eprintln!(" sent by agent: {:?}", obs.rec.sent);
        eprintln!(" value history: {:?}", obs.rec.value_hist);
        eprintln!(" map history: {:?}", obs.rec.map_hist);
        eprintln!(" quiescent {:?} stop {:?} finished {:?} result {:?} stuck {:?}", obs.quiescent, obs.stop_requested, obs.agent_finished, obs.agent_result, obs.stuck);
    }
    let sample: Json = json!({
        "config": format!("{cfg:?}"),
        "script": describe(script).into_iter().take(12).collect::<Vec<_>>(),
        "frames_received": sum.frames,
    });
    out.set_sample(sample);
}

fn main() {
    let mut s = Session::new("agent");
    let prop = s.prop().to_string();
    let select_debug = s.args.extra_u64("select").map_or(false, |v| v != 0);
    if let Some(which) = s.args.extra_u64("debug") {
        // hand-written scripts for investigating a finding (never part of a check)
        s.part("debug", "hand-written script", false, 1, |_i, rng, out| {
            out.verbose = true;
            let mut g = Gen::new(rng);
            let mut cfg = g.config(Focus::Sync);
            drop(g);
            cfg.remotes = 2;
            cfg.cap_out = vec![4096; 3];
            cfg.cap_in = vec![4096; 3];
            cfg.jitter_per_mille = 0;
            let c = |r: usize, l: &str, b: &str| Step::Command(r, l.to_string(), b.to_string());
            if which == 8 {
                // command-channel faults: transient error + delayed retry, idle time-out, closed reader
                let plan = script::FaultPlan {
                    keys: ["\"hosta\"", "\"hostb\"", "\"/t2\"", "\"/t4\""].iter().map(|s| s.to_string()).collect(),
                    target_keys: vec![0, 0, 2, 1, 3],
                    answers: vec![vec![script::OpenAnswer::Transient, script::OpenAnswer::Ok], vec![], vec![script::OpenAnswer::Fatal], vec![]],
                    retry: script::RetrySpec::Interval(3_000, 1),
                    timeout_ms: script::FAULT_TIMEOUT_MS,
                };
                let send = |id: u64, target: u32, v: u64| c(0, "cmd", &format!("@cmd{{id:{id},acts:{{@send{{target:{target},v:{v},mode:2}},@send{{target:2,v:{},mode:2}}}}}}", v + 100));
                let script = vec![
                    Step::Attach(0),
                    send(1, 0, 1),
                    Step::Settle,
                    send(2, 0, 2),
                    Step::Idle(4_000),
                    send(3, 0, 3),
                    Step::Idle(61_000),
                    send(4, 0, 4),
                    Step::Settle,
                    Step::CloseTargetReader(0),
                    send(5, 0, 5),
                    Step::Settle,
                    send(6, 0, 6),
                    Step::Settle,
                ];
                run_script_with(&cfg, &script, rng, out, false, Some(plan), false);
                return;
            }
            let script = match which {
                1 => vec![Step::Attach(0), Step::Sync(0, "m3".into()), Step::Settle, c(0, "cmd", "@cmd{id:1,acts:{@clr{lane:2}}}"), Step::Settle, Step::Sync(0, "m3".into()), Step::Settle],
                2 => vec![Step::Attach(0), Step::Sync(0, "m1".into()), Step::Settle, c(0, "m1", "@remove(key:k2)"), Step::Settle, Step::Sync(0, "m1".into()), Step::Settle],
                3 => vec![Step::Attach(0), Step::Sync(0, "m1".into()), Step::Settle, c(0, "cmd", "@cmd{id:1,acts:{@rem{lane:0,k:0}}}"), Step::Settle, Step::Sync(0, "m1".into()), Step::Settle],
                5 => vec![Step::Attach(0), c(0, "cmd", "@cmd{id:1,acts:{@send{target:2,v:4294967297,mode:2},@send{target:2,v:4294967298,mode:2}}}"), Step::Settle, c(0, "cmd", "@cmd{id:2,acts:{@send{target:2,v:4294967299,mode:2}}}"), Step::Settle],
                6 => vec![Step::Attach(0), c(0, "cmd", "@cmd{id:1,acts:{@send{target:2,v:4294967297,mode:0},@send{target:2,v:4294967298,mode:2}}}"), Step::Settle, c(0, "cmd", "@cmd{id:2,acts:{@send{target:2,v:4294967299,mode:0}}}"), Step::Settle],
                7 => vec![Step::Attach(0), c(0, "cmd", "@cmd{id:1,acts:{@send{target:0,v:4294967297,mode:0},@send{target:1,v:4294967298,mode:0}}}"), Step::Settle, c(0, "cmd", "@cmd{id:2,acts:{@send{target:0,v:4294967299,mode:0},@send{target:1,v:4294967300,mode:0}}}"), Step::Settle],
                _ => vec![Step::Attach(0), Step::Sync(0, "m1".into()), Step::Settle, c(0, "cmd", "@cmd{id:1,acts:{@upd{lane:0,k:0,v:4294967297}}}"), Step::Settle, Step::Sync(0, "m1".into()), Step::Settle],
            };
            run_script_with(&cfg, &script, rng, out, false, None, select_debug);
        });
        s.finish();
    }
    if prop == "C05" || prop == "C06" {
        // (C06 uses the restarts of this part for one clause only: the first lifecycle handler after a restart
        // is given the restored state as the previous value.)
        let n = if prop == "C05" { s.args.budget(8_000, 300_000) } else { s.args.budget(3_000, 100_000) };
        let thorough = s.args.thorough();
        s.part(
            "persist-and-restart",
            "seeded conversation over persistent and transient lanes/stores against a recording NodePersistence, ended by clean stop or by a crash (all tasks dropped) at a seeded step; then a fresh agent instance is started against the store rebuilt at cut points of the operation log (all of them in the thorough tier and for short logs, a seeded third otherwise); non-trivial when >= 3 store operations and >= 3 restarts; distinct by the operation log",
            false,
            n,
            |_i, rng, out| {
                let sum = persist::run_case_c05(rng, out, if thorough { 40 } else { 30 }, thorough);
                out.add("store-operations", sum.store_ops);
                out.add("restarts-at-cut-points", sum.cut_points);
                out.add("frames-checked-against-store-log", sum.frames_checked);
                out.count(&format!("first-incarnation-ended-by-{}", sum.mode));
            },
        );
        if prop == "C05" {
            s.finish();
        }
    }
    let total = if prop == "C06" { s.args.budget(10_000, 400_000) } else { s.args.budget(40_000, 2_000_000) };
    let len_max = if s.args.thorough() { 60 } else { 40 };
    let only = s.args.extra.get("only").cloned();
    for (focus, name, share) in focus_for(&prop) {
        if only.as_ref().map_or(false, |o| !name.starts_with(o.as_str())) {
            continue;
        }
        let n = (total * share / 100).max(1);
        s.part(
            name,
            "seeded conversation (1-4 remotes, byte channels of 2..4096 bytes, paced/stalled/dropped readers, poll jitter) against the real agent runtime; non-trivial when >= 4 frames were received; distinct by the schedule signature (global order of (session, frame kind, lane) receipts)",
            false,
            n,
            |_i, rng, out| {
                let len = rng.range(8, len_max) as usize;
                run_one(focus, len, rng, out, prop == "C20");
            },
        );
    }
    for (focus, name, share) in select_focus_for(&prop) {
        if only.as_ref().map_or(false, |o| !name.starts_with(o.as_str())) {
            continue;
        }
        let n = (total * share / 100).max(1);
        s.part(
            name,
            "the same seeded conversations as the part of the same name without `select-`, hosted on a hand-written AgentSpec whose value and map lanes are served by the select handler family (decode_and_select_set, decode_and_select_apply, decode_shared_and_select_apply, ValueLaneSelectSync, MapLaneSelectSync, MapLaneSelectDropOrTake); judged by the same oracles; about one step in fourteen is followed by a command-effect probe (settle, one command to a value or map lane, settle: the lane must have changed by exactly that operation); non-trivial when >= 4 frames were received; distinct by the schedule signature",
            false,
            n,
            |_i, rng, out| {
                let len = rng.range(8, len_max) as usize;
                run_one_select(focus, len, rng, out);
            },
        );
    }
    if prop == "C14" && only.as_ref().map_or(true, |o| "agent-command-fault-conversations".starts_with(o.as_str())) {
        let n = (total / 10).max(1);
        s.part(
            "agent-command-fault-conversations",
            "seeded conversation whose handlers send commands (send_command, Commander::send, send_queued) to 5 targets behind 4 command channels (two remote hosts, two local lanes) while the harness makes one or two of the channels fail: the open request is answered with a fatal error, with transient errors (within / beyond the configured retry budget: none, immediate, delayed), or dropped; readers of open channels are closed (also under a queued burst behind a stalled target); targets sit idle beyond the channel time-out (virtual time) and are used again; non-trivial when >= 4 frames were received; distinct by the schedule signature",
            false,
            n,
            |_i, rng, out| {
                let len = rng.range(8, len_max) as usize;
                run_fault_case(len, rng, out);
            },
        );
    }
    s.finish()
}
