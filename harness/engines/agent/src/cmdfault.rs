//! C14, agent-sent commands when the command channels fail (part `agent-command-fault-conversations`).
//!
//! The harness's link server answers the runtime's requests for command channels according to a
//! `FaultPlan` (fatal error, transient errors, dropped request), the script closes readers of open
//! channels and lets targets sit idle beyond the channel time-out. What is judged:
//!
//! * always (safety): every frame on a command channel is a well-formed command for a known target,
//!   arrives on a channel of that target's key, carries a value the agent sent to that very target,
//!   arrives at most once over all the channels ever opened for the key, and in send order per
//!   sending path - where the channels of one key are taken in the order they were opened (a later
//!   channel is only requested after the runtime gave the earlier one up);
//! * completeness: a command must arrive (a `send_queued` one always, an overwritable one unless a
//!   later command to the same target exists) when it was sent after the point at which every
//!   failure of its key's channel had certainly been noticed by the runtime (`clean_after`): for a
//!   key whose channel never failed - retries within the configured budget and idle time-outs are
//!   not failures - that is every command. Commands that a failed channel took with it are counted
//!   (`commands-lost-with-failed-channel`), never reported: the statement promises forwarding, not
//!   redelivery to a target that could not be reached.
//!
//! `clean_after` of a key is the latest "noticed by" point of its failures: for an open request that
//! was answered with a fatal error / one transient error more than the retry budget / dropped, the
//! next quiescent point of the harness after the answer; for a closed reader, the quiescent point
//! after the first command sent to the key after the quiescent point following the closure (a write
//! in progress fails at once, otherwise only the next write finds out - and is lost with the output).
//! The retry budget is read as the maintainers' unit test `route_single_command_repeated_errors`
//! does: n retries = the first request plus n more.
//!
//! Signatures (all new, prefix `agent-command-fault/`): `lost/{queued|last-overwritable}/sent-when-channel=<state>`
//! where the state is what the harness's link server knew about the key's channel when the command was
//! sent (`not-requested`, `open`, `being-retried-immediately`, `being-retried-after-a-delay`,
//! `open-failed`, `reader-closed`, `closed-when-idle`, or - when the next thing seen was a new open
//! request - what became of it: `first-opened-for-it`, `reopened-for-it`, ...);
//! `duplicated/same-channel/opened-by=..`, `duplicated/across-reopen/first-channel-ended-by=..`,
//! `reordered/{same-channel|across-reopen}`, `misdelivered-or-invented`, `wrong-channel`,
//! `corrupt-frame`, `non-command-frame`, `unknown-target`, `body-corrupt`.

use std::collections::{HashMap, HashSet};

use common::{json, CaseOut};

use crate::agentdef::{host_spelling, send_handle, send_is_queued};
use crate::run::{LinkEvent, Obs, TargetFrame};
use crate::script::{FaultPlan, OpenAnswer, RetrySpec};

fn parse_u64(body: &[u8]) -> Option<u64> {
    std::str::from_utf8(body).ok()?.trim().parse().ok()
}

fn first_after(sorted: &[u64], t: u64) -> Option<u64> {
    sorted.iter().copied().find(|s| *s > t)
}

struct KeyHistory {
    /// Did a failure that may take commands with it happen on this key?
    faulted: bool,
    /// (ticket, state the key's channel is in from then on), for the signature facets.
    states: Vec<(u64, &'static str)>,
    /// Open requests: (ticket, is a retry, state the answer put the channel in).
    opens: Vec<(u64, bool, &'static str)>,
    /// Channel -> how the harness saw it end ("reader-closed", "idle"), for the signature facets.
    ended_by: HashMap<usize, &'static str>,
    /// Commands sent after this ticket must be complete (`u64::MAX`: none).
    clean_after: u64,
    /// Channels handed out for this key, in open order.
    channels: Vec<usize>,
    retried_channels: HashSet<usize>,
}

pub fn check(obs: &Obs, targets: &[(Option<String>, String, String)], plan: &FaultPlan, out: &mut CaseOut) {
    let quiescent_ok = obs.quiescent.is_some() && obs.stuck.is_empty();
    let agent_alive_at_q = match (obs.quiescent, obs.rec.stopped) {
        (Some(q), Some(st)) => st > q,
        (Some(_), None) => true,
        _ => false,
    };
    let q = obs.quiescent.unwrap_or(u64::MAX);
    let budget = plan.retry.retries();
    let mut settles = obs.settles.clone();
    settles.sort_unstable();
    out.events += obs.target_frames.len() as u64 + obs.link_events.len() as u64;

    // ---- per key: what happened to its channel ----
    let mut keys: Vec<KeyHistory> = vec![];
    for k in 0..plan.keys.len() {
        let mut h = KeyHistory { faulted: false, states: vec![], opens: vec![], ended_by: HashMap::new(), clean_after: 0, channels: vec![], retried_channels: HashSet::new() };
        let retry_kind = match plan.retry {
            RetrySpec::Interval(..) => "being-retried-after-a-delay",
            _ => "being-retried-immediately",
        };
        // (ticket, is reader closure) of the failures that may take commands with them
        let mut loss_faults: Vec<(u64, bool)> = vec![];
        let mut consecutive_transient = 0usize;
        // how the output the runtime last worked on ended, as far as the harness knows
        #[derive(PartialEq)]
        enum Prev {
            None,
            Open,
            ReaderClosed,
            OpenFailed,
        }
        let mut prev = Prev::None;
        for ev in &obs.link_events {
            match ev {
                LinkEvent::Open { ticket, key, answer, retry, exhausted, channel } if *key == k => {
                    if *ticket > q {
                        continue;
                    }
                    if !*retry {
                        match prev {
                            Prev::Open => {
                                // nothing the harness did ended the previous channel: the idle time-out did
                                if let Some(c) = h.channels.last() {
                                    h.ended_by.entry(*c).or_insert("idle");
                                }
                                out.count("cmd-channel-reopened-after-idle-timeout");
                            }
                            Prev::ReaderClosed => out.count("cmd-channel-reopened-after-reader-closed"),
                            Prev::OpenFailed => out.count("cmd-channel-reopened-after-open-failure"),
                            Prev::None => {}
                        }
                        consecutive_transient = 0;
                    }
                    match answer {
                        OpenAnswer::Ok => {
                            if *retry {
                                out.count("cmd-channel-open-succeeded-after-retries");
                                if consecutive_transient >= budget {
                                    out.count("cmd-channel-open-succeeded-at-the-last-retry");
                                }
                                if let Some(c) = channel {
                                    h.retried_channels.insert(*c);
                                }
                            }
                            if let Some(c) = channel {
                                h.channels.push(*c);
                            }
                            h.states.push((*ticket, "open"));
                            h.opens.push((*ticket, *retry, "open"));
                            prev = Prev::Open;
                        }
                        OpenAnswer::Transient => {
                            consecutive_transient += 1;
                            if *exhausted {
                                out.count("cmd-channel-open-retries-exhausted");
                                loss_faults.push((*ticket, false));
                                h.states.push((*ticket, "open-failed"));
                                h.opens.push((*ticket, *retry, "open-failed"));
                                prev = Prev::OpenFailed;
                            } else {
                                h.states.push((*ticket, retry_kind));
                                h.opens.push((*ticket, *retry, retry_kind));
                                match plan.retry {
                                    RetrySpec::Interval(..) => out.count("cmd-channel-open-transient-error-delayed-retry"),
                                    _ => out.count("cmd-channel-open-transient-error-immediate-retry"),
                                }
                            }
                        }
                        OpenAnswer::Fatal => {
                            out.count("cmd-channel-open-fatal-error");
                            h.states.push((*ticket, "open-failed"));
                            h.opens.push((*ticket, *retry, "open-failed"));
                            loss_faults.push((*ticket, false));
                            prev = Prev::OpenFailed;
                        }
                        OpenAnswer::DropPromise => {
                            out.count("cmd-channel-open-request-dropped");
                            h.states.push((*ticket, "open-failed"));
                            h.opens.push((*ticket, *retry, "open-failed"));
                            loss_faults.push((*ticket, false));
                            prev = Prev::OpenFailed;
                        }
                    }
                }
                LinkEvent::ReaderClosed { ticket, key, channel } if *key == k => {
                    out.count("cmd-channel-reader-closed");
                    h.ended_by.insert(*channel, "reader-closed");
                    h.states.push((*ticket, "reader-closed"));
                    loss_faults.push((*ticket, true));
                    if prev == Prev::Open {
                        prev = Prev::ReaderClosed;
                    }
                }
                LinkEvent::Eof { ticket, key, channel } if *key == k && *ticket < q => {
                    // the runtime dropped its writer while the agent was running: idle time-out
                    out.count("cmd-channel-closed-by-runtime-when-idle");
                    h.ended_by.entry(*channel).or_insert("idle");
                    if h.channels.last() == Some(channel) && prev == Prev::Open {
                        h.states.push((*ticket, "closed-when-idle"));
                    }
                }
                _ => {}
            }
        }
        // When had the runtime certainly noticed each failure?
        for (t, reader_closed) in &loss_faults {
            h.faulted = true;
            let noticed = if *reader_closed {
                // A closed reader is noticed by a write. One that was in progress has failed by the next
                // quiescent point; otherwise the next command for this key fails (and is lost), which has
                // happened by the quiescent point after that command.
                first_after(&settles, *t).and_then(|s1| {
                    let c = obs.rec.sent.iter().filter(|s| plan.target_keys.get(s.1 as usize) == Some(&k) && s.0 > s1).map(|s| s.0).min();
                    c.and_then(|c| first_after(&settles, c))
                })
            } else {
                // the answer (or the dropped request) has been processed by the next quiescent point
                first_after(&settles, *t)
            };
            h.clean_after = h.clean_after.max(noticed.unwrap_or(u64::MAX));
        }
        keys.push(h);
    }
    let any_fault = keys.iter().any(|h| h.faulted);
    // state of the key's channel (as the harness's link server knew it) when a command was sent
    // (a facet only: when the next thing the server saw for the key after the send is a new open request,
    // the command found no channel and what became of that request describes its situation better)
    let state_at = |h: &KeyHistory, t: u64| -> &'static str {
        let before = h.states.iter().rev().find(|(st, _)| *st < t).map_or("not-requested", |(_, s)| *s);
        match h.opens.iter().find(|(ot, _, _)| *ot > t) {
            Some((ot, false, answered)) if !h.states.iter().any(|(st, s)| *st > t && st < ot && *s != "closed-when-idle") => match *answered {
                "open" if before == "not-requested" => "first-opened-for-it",
                "open" => "reopened-for-it",
                other => other,
            },
            _ => before,
        }
    };
    let channel_key: HashMap<usize, usize> = keys.iter().enumerate().flat_map(|(k, h)| h.channels.iter().map(move |c| (*c, k))).collect();

    // ---- frame level ----
    for f in &obs.target_frames {
        if f.corrupt {
            // (a reader the harness closed records nothing further, so this is a stream the runtime ended or garbled)
            out.violation("C14", "agent-command-fault/corrupt-frame", "the byte stream the runtime wrote to a command channel is not a sequence of well-formed command frames", json!({"error": f.lane, "channel": f.target}));
            continue;
        }
        if !f.is_command {
            out.violation("C14", "agent-command-fault/non-command-frame", "a frame other than a command was written to a command channel", json!({"lane": f.lane}));
        }
        if !targets.iter().any(|(_, n, l)| *n == f.node && *l == f.lane) {
            out.violation("C14", "agent-command-fault/unknown-target", "a command was forwarded to an address the agent never sent to", json!({"node": f.node, "lane": f.lane}));
        }
    }

    // ---- per target ----
    for (ti, (host, node, lane)) in targets.iter().enumerate() {
        let Some(&k) = plan.target_keys.get(ti) else { continue };
        let h = &keys[k];
        let sent: Vec<(u64, u64, u32)> = obs.rec.sent.iter().filter(|s| s.1 as usize == ti).map(|s| (s.0, s.2, s.3)).collect();
        let index: HashMap<u64, usize> = sent.iter().enumerate().map(|(i, s)| (s.1, i)).collect();
        let mut recv: Vec<&TargetFrame> = obs.target_frames.iter().filter(|f| !f.corrupt && f.node == *node && f.lane == *lane && f.ticket < q).collect();
        // concatenation of the key's channels in the order they were opened (stable: stream order within a channel)
        recv.sort_by_key(|f| f.target);
        out.add("agent-commands-forwarded", recv.len() as u64);
        let mut seen: HashMap<u64, usize> = HashMap::new();
        // (index in `sent`, channel) of the latest command forwarded, per sending path
        let mut last_on_path: HashMap<Option<u32>, (usize, usize)> = HashMap::new();
        let mut handles: HashSet<u32> = HashSet::new();
        for (_, _, mode) in &sent {
            if let Some(hd) = send_handle(*mode) {
                handles.insert(hd);
                if hd > 0 {
                    out.count(&format!("agent-commands-sent-through-a-further-handle/{}", host_spelling(host, hd).1));
                }
            }
        }
        if handles.len() > 1 {
            out.count("targets-sent-to-through-several-commander-handles");
        }
        for f in &recv {
            match channel_key.get(&f.target) {
                Some(ck) if *ck == k => {}
                _ => {
                    out.violation("C14", "agent-command-fault/wrong-channel", "a command arrived on a channel that was opened for another endpoint", json!({"target": ti, "channel": f.target, "channel_key": f.key}));
                    continue;
                }
            }
            if h.channels.first() != Some(&f.target) {
                out.count("agent-commands-forwarded-on-a-reopened-channel");
            }
            if h.retried_channels.contains(&f.target) {
                out.count("agent-commands-forwarded-on-a-channel-opened-by-retry");
            }
            let Some(v) = parse_u64(&f.body) else {
                out.violation("C14", "agent-command-fault/body-corrupt", "a forwarded command does not carry the value the agent sent", json!({"body": String::from_utf8_lossy(&f.body).chars().take(60).collect::<String>()}));
                continue;
            };
            let Some(&i) = index.get(&v) else {
                out.violation("C14", "agent-command-fault/misdelivered-or-invented", "a command arrived at a target it was not sent to", json!({"value": v, "target": ti}));
                continue;
            };
            if let Some(first_channel) = seen.get(&v) {
                let place = if *first_channel == f.target {
                    format!("same-channel/opened-by={}", if h.retried_channels.contains(&f.target) { "retry" } else { "first-request" })
                } else {
                    format!("across-reopen/first-channel-ended-by={}", h.ended_by.get(first_channel).copied().unwrap_or("unknown"))
                };
                out.violation(
                    "C14",
                    format!("agent-command-fault/duplicated/{place}"),
                    "a command the agent sent once was forwarded more than once (counting every channel opened for its target)",
                    json!({"value": v, "target": ti, "mode": sent[i].2, "channels": [first_channel, &f.target]}),
                );
                continue;
            }
            seen.insert(v, f.target);
            let last = last_on_path.get(&send_handle(sent[i].2)).copied();
            if last.map_or(false, |(l, _)| i < l) {
                let place = if last.map_or(false, |(_, c)| c == f.target) { "same-channel" } else { "across-reopen" };
                out.violation(
                    "C14",
                    format!("agent-command-fault/reordered/{place}"),
                    "commands to one target were forwarded out of send order (channels of the target taken in the order they were opened)",
                    json!({"value": v, "target": ti}),
                );
            }
            last_on_path.insert(
                send_handle(sent[i].2),
                match last {
                    Some((l, c)) if l > i => (l, c),
                    _ => (i, f.target),
                },
            );
        }
        if !(quiescent_ok && agent_alive_at_q) {
            continue;
        }
        for (i, (t, v, mode)) in sent.iter().enumerate() {
            if *t > h.clean_after {
                out.count(if h.faulted { "commands-held-to-completeness-after-a-noticed-failure" } else { "commands-held-to-completeness-on-a-channel-that-never-failed" });
            }
            if seen.contains_key(v) {
                continue;
            }
            let later_exists = i + 1 < sent.len();
            let kind = if send_is_queued(*mode) {
                "queued"
            } else if !later_exists {
                "last-overwritable"
            } else {
                out.count("agent-commands-superseded");
                continue;
            };
            if *t > h.clean_after {
                out.violation(
                    "C14",
                    format!("agent-command-fault/lost/{kind}/sent-when-channel={}", state_at(h, *t)),
                    "a command was not forwarded although no failure of its target's channel can account for it: the channel never failed (transient open errors within the retry budget and idle time-outs are not failures), or the command was sent after the runtime had noticed the last failure",
                    json!({"value": v, "target": ti, "mode": mode, "handle": send_handle(*mode).map(|hd| format!("{hd} ({})", host_spelling(host, hd).1)), "handles_of_target": handles.len(), "sent_at": t, "clean_after": h.clean_after, "this_endpoint_ever_failed": h.faulted, "some_endpoint_failed": any_fault, "retry": format!("{:?}", plan.retry), "answers": format!("{:?}", plan.answers[k])}),
                );
            } else {
                out.count("commands-lost-with-failed-channel");
            }
        }
    }
}
