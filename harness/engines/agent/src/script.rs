//! Seeded generation of hostile conversation scripts.

use common::Rng;
use swimos_agent_protocol::MapMessage;
use swimos_recon::print_recon_compact;

use crate::agentdef::{m1_key, Act, Cmd, CMD, M1, M2, M3, S1, V1, V2};
use crate::remote::Pace;

pub const UNKNOWN_LANES: [&str; 2] = ["nope", "v3"];

#[derive(Clone, Debug)]
pub enum Step {
    Attach(usize),
    Link(usize, String),
    Sync(usize, String),
    Unlink(usize, String),
    /// Command envelope with a Recon body, for any lane.
    Command(usize, String, String),
    Stall(usize),
    Unstall(usize),
    SetPace(usize, Pace),
    DropReader(usize),
    DropRemote(usize),
    Settle,
    /// Stall / release the readers of every channel the agent opened to send commands.
    StallTargets(bool),
    /// Settle, send a take/drop to a map lane, settle (so that the oracle knows the state before).
    TakeDrop { remote: usize, lane: u32, take: bool, n: u64 },
    StopAgent,
    /// (fault part of C14 only) Drop the reading half of the command channel currently open for a
    /// channel key (index into `FaultPlan::keys`): the runtime's next write to it fails.
    CloseTargetReader(usize),
    /// (fault part of C14 only) Let this much virtual time (ms) pass with no activity, then settle.
    Idle(u64),
    /// (select parts only) Settle, send one well-formed command to a value or map lane, settle: the
    /// lane's history between the two quiescent points must be exactly the operation the command spells.
    Effect { remote: usize, lane: String, body: String },
}

/// How the harness answers one request of the runtime to open a command channel.
#[derive(Clone, Copy, Debug, PartialEq, Eq)]
pub enum OpenAnswer {
    Ok,
    /// An error that is not fatal (`Recoverable::is_fatal() == false`): the runtime may retry.
    Transient,
    /// A fatal error: the runtime gives the channel up.
    Fatal,
    /// The request is dropped unanswered.
    DropPromise,
}

/// `AgentRuntimeConfig::command_output_retry` of a fault case.
#[derive(Clone, Copy, Debug, PartialEq, Eq)]
pub enum RetrySpec {
    None,
    Immediate(usize),
    /// (delay in ms, retries)
    Interval(u64, usize),
}

impl RetrySpec {
    pub fn retries(&self) -> usize {
        match self {
            RetrySpec::None => 0,
            RetrySpec::Immediate(n) | RetrySpec::Interval(_, n) => *n,
        }
    }
}

/// What goes wrong with the command channels of one case (C14, part `agent-command-fault-conversations`).
#[derive(Clone, Debug)]
pub struct FaultPlan {
    /// One entry per channel key the targets resolve to: a string that occurs in the `Debug` form
    /// of that `CommanderKey` and of no other.
    pub keys: Vec<String>,
    /// Channel key of every command target.
    pub target_keys: Vec<usize>,
    /// Per key: the answers to its successive open requests (after the list is used up: `Ok`).
    pub answers: Vec<Vec<OpenAnswer>>,
    pub retry: RetrySpec,
    /// `AgentRuntimeConfig::command_output_timeout` in ms.
    pub timeout_ms: u64,
}

/// Targets of the fault part: two lanes behind host a (one channel), one behind host b, two local ones.
pub fn fault_targets() -> Vec<(Option<String>, String, String)> {
    vec![
        (Some("ws://hosta:9001".to_string()), "/t0".to_string(), "in".to_string()),
        (Some("ws://hosta:9001".to_string()), "/t1".to_string(), "in".to_string()),
        (None, "/t2".to_string(), "in".to_string()),
        // (port 80 is the default of the scheme: "ws://hostb" is a spelling of the same endpoint)
        (Some("ws://hostb:80".to_string()), "/t3".to_string(), "in".to_string()),
        (None, "/t4".to_string(), "in".to_string()),
    ]
}

pub const FAULT_TIMEOUT_MS: u64 = 60_000;

#[derive(Clone, Debug)]
pub struct Config {
    pub remotes: usize,
    /// Byte-channel capacity for agent -> remote (per remote).
    pub cap_out: Vec<usize>,
    /// Byte-channel capacity for remote -> agent (per remote).
    pub cap_in: Vec<usize>,
    pub pace: Vec<Pace>,
    pub lane_in_buf: usize,
    pub lane_out_buf: usize,
    pub jitter_per_mille: u64,
    /// Jitter applied to the agent implementation's own task (independent of the runtime's).
    pub agent_jitter_per_mille: u64,
    pub keys: i32,
}

#[derive(Clone, Copy, Debug, PartialEq, Eq)]
pub enum Focus {
    /// C01: value lanes, commands and handler sets, slow readers.
    Value,
    /// C02: map lanes.
    Map,
    /// C03: syncs everywhere.
    Sync,
    /// C04: protocol state machine, faults.
    Protocol,
    /// C14: supply bursts and command lane.
    Supply,
    /// C20: link bookkeeping.
    Links,
    /// C05: persistent lanes and stores.
    Persist,
    /// C14: commands the agent itself sends to other lanes.
    Commands,
}

pub struct Gen<'a> {
    pub rng: &'a mut Rng,
    counters: Vec<u64>,
    next_cmd: u64,
    next_supply: u64,
    next_send: u64,
    pub targets: usize,
}

pub const CAPS: [usize; 7] = [2, 3, 5, 8, 16, 64, 4096];

impl<'a> Gen<'a> {
    pub fn new(rng: &'a mut Rng) -> Self {
        Gen { rng, counters: vec![0; 64], next_cmd: 1, next_supply: 1, next_send: 0, targets: 3 }
    }

    /// Unique value: `source << 32 | counter` (source 1.. = remotes, 40.. = handler on behalf of remote).
    pub fn val(&mut self, source: usize) -> u64 {
        self.counters[source] += 1;
        ((source as u64) << 32) | self.counters[source]
    }

    pub fn config(&mut self, focus: Focus) -> Config {
        let rng = &mut *self.rng;
        let remotes = match focus {
            Focus::Protocol | Focus::Links => rng.range(1, 4) as usize,
            Focus::Commands => rng.range(1, 2) as usize,
            _ => rng.range(1, 3) as usize,
        };
        let small = rng.chance(2, 3);
        let mut cap_out = vec![];
        let mut cap_in = vec![];
        let mut pace = vec![];
        for _ in 0..remotes + 1 {
            cap_out.push(if small { *rng.pick(&CAPS[..5]) } else { *rng.pick(&CAPS) });
            cap_in.push(*rng.pick(&CAPS));
            pace.push(Pace { chunk: *rng.pick(&[1usize, 2, 3, 7, 64, 4096]), yields: *rng.pick(&[0u32, 0, 1, 3, 10, 50]) });
        }
        Config {
            remotes,
            cap_out,
            cap_in,
            pace,
            lane_in_buf: *rng.pick(&[32usize, 64, 256, 4096]),
            lane_out_buf: *rng.pick(&[8usize, 16, 32, 64, 256, 4096]),
            jitter_per_mille: *rng.pick(&[0u64, 0, 100, 300, 600]),
            agent_jitter_per_mille: *rng.pick(&[0u64, 0, 200, 500]),
            keys: rng.range(2, 5) as i32,
        }
    }

    fn value_lane(&mut self) -> (&'static str, u32) {
        if self.rng.chance(2, 3) {
            (V1, 0)
        } else {
            (V2, 1)
        }
    }

    fn map_lane(&mut self) -> (&'static str, u32) {
        match self.rng.below(5) {
            0 | 1 => (M1, 0),
            2 | 3 => (M2, 1),
            _ => (M3, 2),
        }
    }

    fn any_lane(&mut self, focus: Focus) -> String {
        let r = self.rng.below(100);
        let s = match focus {
            Focus::Value => {
                if r < 85 {
                    self.value_lane().0
                } else {
                    M1
                }
            }
            Focus::Map => {
                if r < 90 {
                    self.map_lane().0
                } else {
                    V1
                }
            }
            Focus::Supply | Focus::Commands => {
                if r < 80 {
                    S1
                } else {
                    V1
                }
            }
            Focus::Persist => *self.rng.pick(&[V1, V1, V2, M1, M1, M2, M3]),
            Focus::Sync | Focus::Protocol | Focus::Links => {
                if r < 8 {
                    *self.rng.pick(&UNKNOWN_LANES)
                } else {
                    *self.rng.pick(&[V1, V2, M1, M2, M3, S1, V1, M1])
                }
            }
        };
        s.to_string()
    }

    pub fn map_command(&mut self, lane: u32, cfg: &Config, source: usize) -> String {
        let k = self.rng.range_i64(0, cfg.keys as i64 - 1) as i32;
        let r = self.rng.below(100);
        let v = self.val(source);
        if lane == 0 {
            let msg: MapMessage<String, u64> = if r < 62 {
                MapMessage::Update { key: m1_key(k), value: v }
            } else if r < 90 {
                MapMessage::Remove { key: m1_key(k) }
            } else {
                MapMessage::Clear
            };
            format!("{}", print_recon_compact(&msg))
        } else {
            let msg: MapMessage<i32, u64> = if r < 62 {
                MapMessage::Update { key: k, value: v }
            } else if r < 90 {
                MapMessage::Remove { key: k }
            } else {
                MapMessage::Clear
            };
            format!("{}", print_recon_compact(&msg))
        }
    }

    fn acts(&mut self, focus: Focus, cfg: &Config, source: usize) -> Vec<Act> {
        let n = match focus {
            Focus::Supply => self.rng.range(1, 3),
            Focus::Commands => self.rng.range(1, 12),
            _ => self.rng.range(1, 6),
        };
        let mut acts = vec![];
        for _ in 0..n {
            let k = self.rng.range_i64(0, cfg.keys as i64 - 1) as i32;
            let r = self.rng.below(100);
            let a = match focus {
                Focus::Value => {
                    let lane = self.value_lane().1;
                    Act::SetV { lane, v: self.val(source) }
                }
                Focus::Map | Focus::Sync => {
                    let lane = self.map_lane().1;
                    if focus == Focus::Sync && r < 25 {
                        let lane = self.value_lane().1;
                        Act::SetV { lane, v: self.val(source) }
                    } else if r < 65 {
                        if self.rng.chance(1, 5) {
                            Act::Xf { lane, k, v: self.val(source) }
                        } else {
                            Act::Upd { lane, k, v: self.val(source) }
                        }
                    } else if r < 92 {
                        if self.rng.chance(1, 5) {
                            Act::XfRem { lane, k }
                        } else {
                            Act::Rem { lane, k }
                        }
                    } else {
                        Act::Clr { lane }
                    }
                }
                Focus::Supply => {
                    let n = if self.rng.chance(1, 40) { self.rng.range(150, 900) } else { self.rng.range(1, 30) } as u32;
                    let first = self.next_supply;
                    self.next_supply += n as u64;
                    Act::Sup { first, n }
                }
                Focus::Commands => {
                    let target = self.rng.below(self.targets.max(1) as u64) as u32;
                    let mode = *self.rng.pick(&[0u32, 0, 1, 2, 2]);
                    // unique values whose printed length keeps changing (1, 2, 3 ... digits): frames of
                    // different sizes end up pending together for one target
                    self.next_send += *self.rng.pick(&[1u64, 1, 1, 2, 7, 85, 900, 9_000]);
                    if self.rng.chance(1, 12) && self.next_send < 1_000_000_000_000_000 {
                        self.next_send = self.next_send * 10 + 1;
                    }
                    Act::Send { target, v: self.next_send, mode: self.handle_mode(mode) }
                }
                Focus::Persist => match self.rng.below(8) {
                    0 | 1 => {
                        let lane = self.value_lane().1;
                        Act::SetV { lane, v: self.val(source) }
                    }
                    2 | 3 => {
                        let lane = self.map_lane().1;
                        if r < 65 {
                            Act::Upd { lane, k, v: self.val(source) }
                        } else if r < 92 {
                            Act::Rem { lane, k }
                        } else {
                            Act::Clr { lane }
                        }
                    }
                    4 => Act::SetS { store: self.rng.below(2) as u32, v: self.val(source) },
                    5 | 6 => {
                        if r < 65 {
                            Act::UpdS { k, v: self.val(source) }
                        } else if r < 92 {
                            Act::RemS { k }
                        } else {
                            Act::ClrS
                        }
                    }
                    _ => {
                        let lane = self.value_lane().1;
                        Act::SetV { lane, v: self.val(source) }
                    }
                },
                Focus::Protocol | Focus::Links => {
                    if r < 50 {
                        let lane = self.value_lane().1;
                        Act::SetV { lane, v: self.val(source) }
                    } else if r < 85 {
                        let lane = self.map_lane().1;
                        Act::Upd { lane, k, v: self.val(source) }
                    } else {
                        let first = self.next_supply;
                        self.next_supply += 3;
                        Act::Sup { first, n: 3 }
                    }
                }
            };
            acts.push(a);
        }
        // One command in twelve ends with a failing handler: what it changed before must still be published.
        if matches!(focus, Focus::Value | Focus::Map | Focus::Sync | Focus::Protocol) && self.rng.chance(1, 12) {
            acts.push(Act::Fail);
        }
        acts
    }

    pub fn cmd_body(&mut self, acts: Vec<Act>) -> (u64, String) {
        let id = self.next_cmd;
        self.next_cmd += 1;
        let cmd = Cmd { id, acts };
        (id, format!("{}", print_recon_compact(&cmd)))
    }

    /// A lane-changing command appropriate to the focus, issued by remote `r`.
    fn change(&mut self, focus: Focus, cfg: &Config, r: usize) -> Step {
        let src = r + 1;
        let roll = self.rng.below(100);
        match focus {
            Focus::Value => {
                if roll < 55 {
                    let (lane, _) = self.value_lane();
                    Step::Command(r, lane.to_string(), self.val(src).to_string())
                } else {
                    let acts = self.acts(focus, cfg, 40 + r);
                    Step::Command(r, CMD.to_string(), self.cmd_body(acts).1)
                }
            }
            Focus::Map | Focus::Sync | Focus::Persist | Focus::Protocol | Focus::Links => {
                if roll < 30 {
                    let (lane, idx) = self.map_lane();
                    Step::Command(r, lane.to_string(), self.map_command(idx, cfg, src))
                } else if roll < 45 && focus != Focus::Map {
                    let (lane, _) = self.value_lane();
                    Step::Command(r, lane.to_string(), self.val(src).to_string())
                } else if roll < 52 && matches!(focus, Focus::Map) {
                    let (_, idx) = self.map_lane();
                    Step::TakeDrop { remote: r, lane: idx, take: self.rng.bool(), n: self.rng.below(cfg.keys as u64 + 2) }
                } else {
                    let acts = self.acts(focus, cfg, 40 + r);
                    Step::Command(r, CMD.to_string(), self.cmd_body(acts).1)
                }
            }
            Focus::Supply | Focus::Commands => {
                let acts = self.acts(focus, cfg, 40 + r);
                Step::Command(r, CMD.to_string(), self.cmd_body(acts).1)
            }
        }
    }

    /// Fault plan of one case: one or two of the four channel keys misbehave, the others never do
    /// (so that "other targets are unaffected" is judged in every case).
    pub fn fault_plan(&mut self) -> FaultPlan {
        let keys: Vec<String> = ["\"hosta\"", "\"hostb\"", "\"/t2\"", "\"/t4\""].iter().map(|s| s.to_string()).collect();
        let target_keys = vec![0, 0, 2, 1, 3];
        let retry = match self.rng.below(6) {
            0 => RetrySpec::None,
            1 | 2 => RetrySpec::Immediate(self.rng.range(1, 3) as usize),
            3 | 4 => RetrySpec::Interval(*self.rng.pick(&[5u64, 400, 3_000]), self.rng.range(1, 3) as usize),
            _ => RetrySpec::Interval(3_000, 1),
        };
        let mut answers: Vec<Vec<OpenAnswer>> = vec![vec![]; keys.len()];
        let faulty = self.rng.range(1, 2) as usize;
        for _ in 0..faulty {
            let k = self.rng.usize_below(keys.len());
            if !answers[k].is_empty() {
                continue;
            }
            let rounds = self.rng.range(1, 3);
            for _ in 0..rounds {
                match self.rng.below(10) {
                    // transient errors, then success (when within the retry budget) or exhaustion
                    0..=4 => {
                        let m = self.rng.range(1, retry.retries() as u64 + 1);
                        for _ in 0..m {
                            answers[k].push(OpenAnswer::Transient);
                        }
                        answers[k].push(OpenAnswer::Ok);
                    }
                    5 | 6 => answers[k].push(OpenAnswer::Fatal),
                    7 => answers[k].push(OpenAnswer::DropPromise),
                    _ => answers[k].push(OpenAnswer::Ok),
                }
            }
        }
        FaultPlan { keys, target_keys, answers, retry, timeout_ms: FAULT_TIMEOUT_MS }
    }

    /// One registered send in five goes through another `Commander` handle of the same target (created
    /// from an equivalent spelling of its address, see `agentdef::host_spelling`). Derived from the
    /// value about to be sent, not drawn, so that the rest of the script is what it was before.
    fn handle_mode(&self, mode: u32) -> u32 {
        if mode != 0 && self.next_send % 5 == 2 {
            mode + 2 * (1 + (self.next_send / 5 % 3) as u32)
        } else {
            mode
        }
    }

    /// A command (from remote `r`) whose handler sends `n` commands to one target.
    fn send_burst(&mut self, r: usize, target: u32, n: u64, mode: Option<u32>) -> Step {
        let mut acts = vec![];
        for _ in 0..n {
            self.next_send += *self.rng.pick(&[1u64, 1, 2, 7, 85, 900]);
            let mode = match mode {
                Some(m) => m,
                None => {
                    let m = *self.rng.pick(&[0u32, 1, 2, 2]);
                    self.handle_mode(m)
                }
            };
            acts.push(Act::Send { target, v: self.next_send, mode });
        }
        Step::Command(r, CMD.to_string(), self.cmd_body(acts).1)
    }

    /// Script of the fault part: a `Focus::Commands` conversation over five targets into which
    /// reader closures, idle periods and three directed scenarios are inserted.
    pub fn fault_script(&mut self, cfg: &Config, len: usize, plan: &FaultPlan) -> Vec<Step> {
        self.targets = plan.target_keys.len();
        let base = self.script(Focus::Commands, cfg, len);
        let nk = plan.keys.len();
        let mut steps = vec![];
        for (i, st) in base.into_iter().enumerate() {
            steps.push(st);
            if i == 0 {
                continue; // the first attach stays first
            }
            let roll = self.rng.below(1000);
            if roll < 50 {
                steps.push(Step::CloseTargetReader(self.rng.usize_below(nk)));
            } else if roll < 100 {
                let ms = match self.rng.below(20) {
                    0..=9 => plan.timeout_ms + 1_000,
                    10..=12 => plan.timeout_ms - 1_000,
                    13..=17 => 4_000,
                    _ => 2 * plan.timeout_ms,
                };
                steps.push(Step::Idle(ms));
            } else if roll < 140 {
                // directed: a burst queues up behind a stalled target, whose reader is then closed
                let target = self.rng.below(self.targets as u64) as u32;
                let key = plan.target_keys[target as usize];
                steps.push(self.send_burst(0, target, 1, None));
                steps.push(Step::Settle);
                steps.push(Step::StallTargets(true));
                let n = self.rng.range(2, 10);
                steps.push(self.send_burst(0, target, n, Some(2)));
                if self.rng.bool() {
                    steps.push(Step::Settle);
                }
                steps.push(Step::CloseTargetReader(key));
                if self.rng.bool() {
                    let n = self.rng.range(1, 4);
                    steps.push(self.send_burst(0, target, n, None));
                }
                steps.push(Step::StallTargets(false));
                steps.push(Step::Settle);
                let n = self.rng.range(1, 4);
                steps.push(self.send_burst(0, target, n, None));
                steps.push(Step::Settle);
                let n = self.rng.range(1, 4);
                steps.push(self.send_burst(0, target, n, None));
            } else if roll < 180 {
                // directed: use a target, leave it idle beyond the time-out, use it again
                let target = self.rng.below(self.targets as u64) as u32;
                let n = self.rng.range(1, 4);
                steps.push(self.send_burst(0, target, n, None));
                if self.rng.chance(1, 4) {
                    steps.push(Step::StallTargets(true));
                }
                steps.push(Step::Idle(plan.timeout_ms + *self.rng.pick(&[0u64, 1, 1_000, 30_000])));
                let n = self.rng.range(1, 6);
                steps.push(self.send_burst(0, target, n, None));
                steps.push(Step::StallTargets(false));
                steps.push(Step::Settle);
            } else if roll < 210 {
                // directed: commands pile up while the channel is (re)tried, some time passes
                let target = self.rng.below(self.targets as u64) as u32;
                let n = self.rng.range(1, 5);
                steps.push(self.send_burst(0, target, n, None));
                steps.push(Step::Idle(*self.rng.pick(&[1u64, 5, 400, 3_000, 7_000])));
                let n = self.rng.range(1, 5);
                steps.push(self.send_burst(0, target, n, None));
            }
        }
        steps
    }

    /// Select parts: the conversation of `script`, into which command-effect probes are inserted
    /// (about one step in fourteen; the generator of `script` itself is not touched, so the base
    /// conversations are drawn exactly like those of the derived agent's parts).
    pub fn script_with_effects(&mut self, focus: Focus, cfg: &Config, len: usize) -> Vec<Step> {
        let base = self.script(focus, cfg, len);
        let mut steps = vec![];
        for (i, st) in base.into_iter().enumerate() {
            let stop = matches!(st, Step::StopAgent);
            steps.push(st);
            if i == 0 || stop || !self.rng.chance(1, 14) {
                continue;
            }
            let r = self.rng.usize_below(cfg.remotes);
            let src = r + 1;
            let on_value = match focus {
                Focus::Value => self.rng.chance(4, 5),
                Focus::Map => self.rng.chance(1, 10),
                _ => self.rng.bool(),
            };
            if on_value {
                let (lane, _) = self.value_lane();
                steps.push(Step::Effect { remote: r, lane: lane.to_string(), body: self.val(src).to_string() });
            } else {
                let (lane, idx) = self.map_lane();
                steps.push(Step::Effect { remote: r, lane: lane.to_string(), body: self.map_command(idx, cfg, src) });
            }
        }
        steps
    }

    pub fn script(&mut self, focus: Focus, cfg: &Config, len: usize) -> Vec<Step> {
        let mut steps = vec![];
        let n = cfg.remotes;
        let mut attached = vec![false; n];
        let mut gone = vec![false; n];
        // First remote attaches (and usually links) up front so that there is an observer.
        steps.push(Step::Attach(0));
        attached[0] = true;
        if self.rng.chance(4, 5) {
            let lane = self.any_lane(focus);
            if self.rng.chance(1, 2) || focus == Focus::Sync {
                steps.push(Step::Sync(0, lane));
            } else {
                steps.push(Step::Link(0, lane));
            }
        }
        let mut stopped = false;
        for _ in 0..len {
            let r = self.rng.usize_below(n);
            if !attached[r] {
                steps.push(Step::Attach(r));
                attached[r] = true;
                continue;
            }
            if gone[r] {
                // a remote that went away may come back as a fresh attachment (same id)
                if self.rng.chance(1, 4) {
                    steps.push(Step::Attach(r));
                    gone[r] = false;
                }
                continue;
            }
            let roll = self.rng.below(1000);
            let (w_link, w_sync, w_unlink, w_stall, w_fault, w_settle) = match focus {
                Focus::Value => (60, 50, 25, 90, 8, 40),
                Focus::Map => (60, 70, 25, 90, 8, 40),
                Focus::Sync => (50, 220, 40, 100, 8, 30),
                Focus::Protocol => (150, 130, 120, 90, 40, 30),
                Focus::Supply => (90, 30, 60, 110, 8, 40),
                Focus::Links => (200, 120, 170, 50, 60, 60),
                Focus::Persist => (60, 60, 20, 60, 5, 40),
                Focus::Commands => (20, 10, 10, 20, 0, 120),
            };
            let mut acc = 0;
            let mut hit = |w: u64| {
                acc += w;
                roll < acc
            };
            if hit(w_link) {
                steps.push(Step::Link(r, self.any_lane(focus)));
            } else if hit(w_sync) {
                steps.push(Step::Sync(r, self.any_lane(focus)));
            } else if hit(w_unlink) {
                steps.push(Step::Unlink(r, self.any_lane(focus)));
            } else if hit(w_stall) {
                match self.rng.below(3) {
                    0 => steps.push(Step::Stall(r)),
                    1 => steps.push(Step::Unstall(r)),
                    _ => steps.push(Step::SetPace(
                        r,
                        Pace { chunk: *self.rng.pick(&[1usize, 2, 5, 64, 4096]), yields: *self.rng.pick(&[0u32, 1, 5, 30]) },
                    )),
                }
            } else if matches!(focus, Focus::Persist | Focus::Sync | Focus::Value) && hit(60) {
                // back-to-back changes of one value lane followed by a sync of the same remote: with a
                // small lane output buffer the lane answers the sync while a change is still unpublished
                let (lane, _) = self.value_lane();
                let src = r + 1;
                let a = self.val(src);
                let b = self.val(src);
                steps.push(Step::Command(r, lane.to_string(), a.to_string()));
                steps.push(Step::Command(r, lane.to_string(), b.to_string()));
                steps.push(Step::Sync(r, lane.to_string()));
            } else if hit(w_fault) {
                if self.rng.bool() {
                    steps.push(Step::DropReader(r));
                } else {
                    steps.push(Step::DropRemote(r));
                }
                gone[r] = true;
            } else if hit(w_settle) {
                steps.push(Step::Settle);
            } else if focus == Focus::Commands && hit(120) {
                steps.push(Step::StallTargets(self.rng.chance(3, 5)));
            } else if focus == Focus::Protocol && hit(6) {
                steps.push(Step::StopAgent);
                stopped = true;
                break;
            } else {
                let s = self.change(focus, cfg, r);
                steps.push(s);
            }
        }
        let _ = stopped;
        steps
    }
}
