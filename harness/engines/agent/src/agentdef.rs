//! The agent under observation: a derived `AgentLaneModel` with value, map, supply and command
//! lanes plus stores, whose lifecycle records the *true* history of every lane (ticketed with the
//! global clock) and executes scripted actions on behalf of the harness.

use std::collections::{BTreeMap, HashMap};
use std::sync::Arc;

use common::ticket;
use parking_lot::Mutex;
use swimos::agent::agent_lifecycle::HandlerContext;
use swimos::agent::commander::Commander;
use swimos::agent::event_handler::{BoxEventHandler, EventHandler, HandlerActionExt, Sequentially};
use swimos::agent::lanes::{CommandLane, MapLane, SupplyLane, ValueLane};
use swimos::agent::stores::{MapStore, ValueStore};
use swimos::agent::{lifecycle, projections, AgentLaneModel};
use swimos_form::Form;

/// Lane names as seen on the wire.
pub const V1: &str = "v1";
pub const V2: &str = "v2";
pub const M1: &str = "m1";
pub const M2: &str = "m2";
pub const M3: &str = "m3";
pub const S1: &str = "s1";
pub const CMD: &str = "cmd";

#[projections]
#[derive(AgentLaneModel)]
pub struct TestAgent {
    v1: ValueLane<u64>,
    #[item(transient)]
    v2: ValueLane<u64>,
    m1: MapLane<String, u64>,
    m2: MapLane<i32, u64, BTreeMap<i32, u64>>,
    #[item(transient)]
    m3: MapLane<i32, u64>,
    s1: SupplyLane<u64>,
    cmd: CommandLane<Cmd>,
    vs: ValueStore<u64>,
    ms: MapStore<String, u64>,
    #[item(transient)]
    vt: ValueStore<u64>,
}

/// One scripted action executed by the `cmd` lane's handler.
#[derive(Form, Clone, Debug, PartialEq, Eq)]
pub enum Act {
    /// Set a value lane (0 = v1, 1 = v2).
    #[form(tag = "setv")]
    SetV { lane: u32, v: u64 },
    /// Update a map lane (0 = m1 with key `k<k>`, 1 = m2, 2 = m3).
    #[form(tag = "upd")]
    Upd { lane: u32, k: i32, v: u64 },
    #[form(tag = "rem")]
    Rem { lane: u32, k: i32 },
    #[form(tag = "clr")]
    Clr { lane: u32 },
    /// Push `n` consecutive items starting at `first` to the supply lane.
    #[form(tag = "sup")]
    Sup { first: u64, n: u32 },
    /// Stores (0 = vs persistent, 1 = vt transient).
    #[form(tag = "sets")]
    SetS { store: u32, v: u64 },
    #[form(tag = "upds")]
    UpdS { k: i32, v: u64 },
    #[form(tag = "rems")]
    RemS { k: i32 },
    #[form(tag = "clrs")]
    ClrS,
    /// Send a command to another agent's lane (target index chosen by the script).
    /// mode 0: `send_command` (ad hoc, overwritable); 1: `Commander::send` (overwritable);
    /// 2: `Commander::send_queued` (never superseded). Modes 3.. use a further `Commander` handle of the
    /// same target, created from an equivalent spelling of its address (`send_handle`, `host_spelling`):
    /// 1 + 2h = `send` and 2 + 2h = `send_queued` through handle h (h = 1..3).
    #[form(tag = "send")]
    Send { target: u32, v: u64, mode: u32 },
    /// Record the state of the stores (observed after a restart).
    /// `transform_entry` on a map lane: insert or replace (`v` is the new value whatever was there).
    #[form(tag = "xf")]
    Xf { lane: u32, k: i32, v: u64 },
    /// `transform_entry` whose closure returns nothing: removes the entry if there is one.
    #[form(tag = "xfrem")]
    XfRem { lane: u32, k: i32 },
    /// The handler fails here (a non-fatal effect error: the runtime rejects the command frame).
    #[form(tag = "fail")]
    Fail,
    #[form(tag = "dump")]
    Dump,
    #[form(tag = "stop")]
    Stop,
}

#[derive(Form, Clone, Debug, PartialEq, Eq)]
#[form(tag = "cmd")]
pub struct Cmd {
    pub id: u64,
    pub acts: Vec<Act>,
}

pub fn m1_key(k: i32) -> String {
    format!("k{k}")
}

/// Number of `Commander` handles a target can have (handle 0 uses the address as given).
pub const SEND_HANDLES: u32 = 4;

/// The `Commander` handle an `Act::Send` mode goes through (None: ad hoc `send_command`).
pub fn send_handle(mode: u32) -> Option<u32> {
    if mode == 0 {
        None
    } else {
        Some(((mode - 1) / 2).min(SEND_HANDLES - 1))
    }
}

/// `send_queued` (never to be superseded)?
pub fn send_is_queued(mode: u32) -> bool {
    mode != 0 && mode % 2 == 0
}

/// The address text handle `h` of a target is created from, and what distinguishes it from the text of
/// handle 0. All spellings of one host parse to the same `SchemeHostPort` (`ws`, `warp` and `swimos` are
/// one scheme, a missing port is the scheme's default, 80), so they denote the same endpoint.
pub fn host_spelling(host: &Option<String>, h: u32) -> (Option<String>, &'static str) {
    let Some(text) = host else { return (None, "same-text") };
    let rest = text.strip_prefix("ws://").unwrap_or(text.as_str());
    match h {
        1 => (Some(format!("warp://{rest}")), "scheme-alias"),
        2 => match text.strip_suffix(":80") {
            Some(no_port) => (Some(no_port.to_string()), "default-port"),
            None => (Some(format!("swimos://{rest}")), "scheme-alias"),
        },
        _ => (Some(text.clone()), "same-text"),
    }
}

/// Map-lane change as seen by the lane's lifecycle callback.
#[derive(Clone, Debug, PartialEq, Eq)]
pub enum MapEv {
    Upd { k: i32, prev: Option<u64>, new: u64 },
    Rem { k: i32, prev: u64 },
    Clr { prev: BTreeMap<i32, u64> },
}

#[derive(Default, Debug, Clone)]
pub struct Rec {
    pub started: Option<u64>,
    pub stopped: Option<u64>,
    /// Per value lane (0 = v1, 1 = v2): (ticket, previous as reported, new).
    pub value_hist: [Vec<(u64, Option<u64>, u64)>; 2],
    /// `on_event` callbacks of the value lanes (ticket, value).
    pub value_events: [Vec<(u64, u64)>; 2],
    /// Per map lane (0 = m1, 1 = m2, 2 = m3).
    pub map_hist: [Vec<(u64, MapEv)>; 3],
    /// Size of the map passed to the callback after each change (consistency of the recorder).
    pub map_sizes: [Vec<usize>; 3],
    /// `on_command(cmd)` invocations: (ticket, command id).
    pub cmd_trace: Vec<(u64, u64)>,
    /// Items handed to the supply lane: (ticket, item).
    pub supplied: Vec<(u64, u64)>,
    /// Commands handed to the send handlers: (ticket, target, value, mode).
    pub sent: Vec<(u64, u32, u64, u32)>,
    /// Store dumps: (ticket, vs, vt, ms).
    pub dumps: Vec<(u64, u64, u64, BTreeMap<i32, u64>)>,
}

pub type SharedRec = Arc<Mutex<Rec>>;

pub(crate) fn key_of_m1(s: &str) -> i32 {
    s.strip_prefix('k').and_then(|r| r.parse().ok()).unwrap_or(i32::MIN)
}

/// The recording lifecycle, written once and instantiated for every agent type of the engine: the
/// derived `TestAgent` and the hand-written `SelectAgent` (module `selectdef`), which has the same
/// fields and `#[projections]`. `$m3k` is the key type of lane `m3` (i32 for the derived agent; u64
/// for the select agent, whose `m3` shares one decoder between keys and values).
/// Values (made by remote commands or handler acts, never the small ones `on_start` uses) whose `on_set`
/// handler on `v2` fails with a non-fatal error.
pub fn on_set_rejects(v: u64) -> bool {
    (v >> 32) != 0 && (v & 0x3f) == 0x2a
}

macro_rules! define_lifecycle {
    ($lc:ident, $agent:ident, $m3k:ty) => {
        #[derive(Clone)]
        pub struct $lc {
            pub rec: SharedRec,
            /// Addresses of the command targets (host, node, lane) for `Act::Send`.
            pub targets: Arc<Vec<(Option<String>, String, String)>>,
            pub commanders: Arc<Mutex<HashMap<u32, Commander<$agent>>>>,
            /// The commanders of the first `eager` targets are created in `on_start` (the others when first used).
            pub eager: u32,
        }

        impl $lc {
            fn act<'a>(&self, context: HandlerContext<$agent>, act: Act) -> BoxEventHandler<'a, $agent> {
                let rec = self.rec.clone();
                match act {
                    Act::SetV { lane: 0, v } => context.set_value($agent::V1, v).boxed(),
                    Act::SetV { v, .. } => context.set_value($agent::V2, v).boxed(),
                    Act::Upd { lane: 0, k, v } => context.update($agent::M1, m1_key(k), v).boxed(),
                    Act::Upd { lane: 1, k, v } => context.update($agent::M2, k, v).boxed(),
                    Act::Upd { k, v, .. } => context.update($agent::M3, k as $m3k, v).boxed(),
                    Act::Rem { lane: 0, k } => context.remove($agent::M1, m1_key(k)).boxed(),
                    Act::Rem { lane: 1, k } => context.remove($agent::M2, k).boxed(),
                    Act::Rem { k, .. } => context.remove($agent::M3, k as $m3k).boxed(),
                    Act::Xf { lane: 0, k, v } => context.transform_entry($agent::M1, m1_key(k), move |_| Some(v)).boxed(),
                    Act::Xf { lane: 1, k, v } => context.transform_entry($agent::M2, k, move |_| Some(v)).boxed(),
                    Act::Xf { k, v, .. } => context.transform_entry($agent::M3, k as $m3k, move |_| Some(v)).boxed(),
                    Act::XfRem { lane: 0, k } => context.transform_entry($agent::M1, m1_key(k), |_: Option<&u64>| None).boxed(),
                    Act::XfRem { lane: 1, k } => context.transform_entry($agent::M2, k, |_: Option<&u64>| None).boxed(),
                    Act::XfRem { k, .. } => context.transform_entry($agent::M3, k as $m3k, |_: Option<&u64>| None).boxed(),
                    Act::Fail => context.fail::<(), _>(std::io::Error::other("scripted handler failure")).boxed(),
                    Act::Clr { lane: 0 } => context.clear($agent::M1).boxed(),
                    Act::Clr { lane: 1 } => context.clear($agent::M2).boxed(),
                    Act::Clr { .. } => context.clear($agent::M3).boxed(),
                    Act::Sup { first, n } => {
                        let hs: Vec<BoxEventHandler<'a, $agent>> = (0..n as u64)
                            .map(|i| {
                                let rec = rec.clone();
                                let item = first + i;
                                context
                                    .effect(move || rec.lock().supplied.push((ticket(), item)))
                                    .followed_by(context.supply($agent::S1, item))
                                    .boxed()
                            })
                            .collect();
                        Sequentially::new(hs).boxed()
                    }
                    Act::SetS { store: 0, v } => context.set_value($agent::VS, v).boxed(),
                    Act::SetS { v, .. } => context.set_value($agent::VT, v).boxed(),
                    Act::UpdS { k, v } => context.update($agent::MS, m1_key(k), v).boxed(),
                    Act::RemS { k } => context.remove($agent::MS, m1_key(k)).boxed(),
                    Act::ClrS => context.clear($agent::MS).boxed(),
                    Act::Send { target, v, mode } => {
                        let (host, node, lane) = self.targets.get(target as usize).cloned().unwrap_or_else(|| (None, "/none".to_string(), "none".to_string()));
                        let record = context.effect(move || rec.lock().sent.push((ticket(), target, v, mode)));
                        match crate::agentdef::send_handle(mode) {
                            None => record.followed_by(context.send_command(host.as_deref(), node.as_str(), lane.as_str(), v)).boxed(),
                            Some(h) => {
                                let queued = crate::agentdef::send_is_queued(mode);
                                let slot = target * crate::agentdef::SEND_HANDLES + h;
                                let existing = self.commanders.lock().get(&slot).copied();
                                match existing {
                                    Some(c) => {
                                        if queued {
                                            record.followed_by(c.send_queued(v)).boxed()
                                        } else {
                                            record.followed_by(c.send(v)).boxed()
                                        }
                                    }
                                    None => {
                                        let commanders = self.commanders.clone();
                                        let (host, _) = crate::agentdef::host_spelling(&host, h);
                                        record
                                            .followed_by(context.create_commander(host.as_deref(), node.as_str(), lane.as_str()).and_then(move |c: Commander<$agent>| {
                                                commanders.lock().insert(slot, c);
                                                if queued {
                                                    c.send_queued(v)
                                                } else {
                                                    c.send(v)
                                                }
                                            }))
                                            .boxed()
                                    }
                                }
                            }
                        }
                    }
                    Act::Dump => context
                        .get_value($agent::VS)
                        .and_then(move |vs| {
                            context.get_value($agent::VT).and_then(move |vt| {
                                context.get_map($agent::MS).and_then(move |ms: HashMap<String, u64>| {
                                    context.effect(move || {
                                        let ms = ms.iter().map(|(k, v)| (key_of_m1(k), *v)).collect();
                                        rec.lock().dumps.push((ticket(), vs, vt, ms));
                                    })
                                })
                            })
                        })
                        .boxed(),
                    Act::Stop => context.stop().boxed(),
                }
            }
        }

        #[lifecycle($agent)]
        impl $lc {
            #[on_start]
            fn on_start(&self, context: HandlerContext<$agent>) -> impl EventHandler<$agent> {
                let rec = self.rec.clone();
                let mut hs: Vec<BoxEventHandler<'_, $agent>> = vec![context.effect(move || rec.lock().started = Some(ticket())).boxed()];
                for target in 0..self.eager.min(self.targets.len() as u32) {
                    let (host, node, lane) = self.targets[target as usize].clone();
                    // handle 0 always; for every other eager target also handle 1 (an equivalent spelling
                    // of the same address), before or after handle 0
                    let also_alias = (self.eager + target) % 2 == 1;
                    let handles: Vec<u32> = match (also_alias, self.eager % 3 == 0) {
                        (false, _) => vec![0],
                        (true, false) => vec![0, 1],
                        (true, true) => vec![1, 0],
                    };
                    for h in handles {
                        let commanders = self.commanders.clone();
                        let (host, _) = crate::agentdef::host_spelling(&host, h);
                        hs.push(
                            context
                                .create_commander(host.as_deref(), node.as_str(), lane.as_str())
                                .and_then(move |c: Commander<$agent>| {
                                    context.effect(move || {
                                        commanders.lock().insert(target * crate::agentdef::SEND_HANDLES + h, c);
                                    })
                                })
                                .boxed(),
                        );
                    }
                }
                Sequentially::new(hs)
            }

            #[on_stop]
            fn on_stop(&self, context: HandlerContext<$agent>) -> impl EventHandler<$agent> {
                let rec = self.rec.clone();
                context.effect(move || rec.lock().stopped = Some(ticket()))
            }

            #[on_command(cmd)]
            fn on_cmd<'a>(&'a self, context: HandlerContext<$agent>, value: &Cmd) -> impl EventHandler<$agent> + 'a {
                let rec = self.rec.clone();
                let id = value.id;
                let acts: Vec<BoxEventHandler<'a, $agent>> = value.acts.iter().cloned().map(|a| self.act(context, a)).collect();
                context.effect(move || rec.lock().cmd_trace.push((ticket(), id))).followed_by(Sequentially::new(acts))
            }

            #[on_event(v1)]
            fn v1_event(&self, context: HandlerContext<$agent>, value: &u64) -> impl EventHandler<$agent> {
                let (rec, v) = (self.rec.clone(), *value);
                context.effect(move || rec.lock().value_events[0].push((ticket(), v)))
            }

            #[on_set(v1)]
            fn v1_set(&self, context: HandlerContext<$agent>, value: &u64, prev: Option<u64>) -> impl EventHandler<$agent> {
                let (rec, v) = (self.rec.clone(), *value);
                context.effect(move || rec.lock().value_hist[0].push((ticket(), prev, v)))
            }

            #[on_event(v2)]
            fn v2_event(&self, context: HandlerContext<$agent>, value: &u64) -> impl EventHandler<$agent> {
                let (rec, v) = (self.rec.clone(), *value);
                context.effect(move || rec.lock().value_events[1].push((ticket(), v)))
            }

            #[on_set(v2)]
            fn v2_set(&self, context: HandlerContext<$agent>, value: &u64, prev: Option<u64>) -> impl EventHandler<$agent> {
                let (rec, v) = (self.rec.clone(), *value);
                // One command-made value in 64 is "rejected" by this handler with a non-fatal error after it has
                // been recorded: the lane holds the value all the same, so every remote must still be told.
                let fail = $crate::agentdef::on_set_rejects(v).then(|| context.fail::<(), _>(std::io::Error::other("scripted on_set failure")));
                context.effect(move || rec.lock().value_hist[1].push((ticket(), prev, v))).followed_by(fail).discard()
            }

            #[on_update(m1)]
            fn m1_update(&self, context: HandlerContext<$agent>, map: &HashMap<String, u64>, key: String, prev: Option<u64>, new: &u64) -> impl EventHandler<$agent> {
                let (rec, v, n) = (self.rec.clone(), *new, map.len());
                context.effect(move || {
                    let mut r = rec.lock();
                    r.map_hist[0].push((ticket(), MapEv::Upd { k: key_of_m1(&key), prev, new: v }));
                    r.map_sizes[0].push(n);
                })
            }

            #[on_remove(m1)]
            fn m1_remove(&self, context: HandlerContext<$agent>, map: &HashMap<String, u64>, key: String, prev: u64) -> impl EventHandler<$agent> {
                let (rec, n) = (self.rec.clone(), map.len());
                context.effect(move || {
                    let mut r = rec.lock();
                    r.map_hist[0].push((ticket(), MapEv::Rem { k: key_of_m1(&key), prev }));
                    r.map_sizes[0].push(n);
                })
            }

            #[on_clear(m1)]
            fn m1_clear(&self, context: HandlerContext<$agent>, prev: HashMap<String, u64>) -> impl EventHandler<$agent> {
                let rec = self.rec.clone();
                context.effect(move || {
                    let mut r = rec.lock();
                    let prev = prev.iter().map(|(k, v)| (key_of_m1(k), *v)).collect();
                    r.map_hist[0].push((ticket(), MapEv::Clr { prev }));
                    r.map_sizes[0].push(0);
                })
            }

            #[on_update(m2)]
            fn m2_update(&self, context: HandlerContext<$agent>, map: &BTreeMap<i32, u64>, key: i32, prev: Option<u64>, new: &u64) -> impl EventHandler<$agent> {
                let (rec, v, n) = (self.rec.clone(), *new, map.len());
                context.effect(move || {
                    let mut r = rec.lock();
                    r.map_hist[1].push((ticket(), MapEv::Upd { k: key, prev, new: v }));
                    r.map_sizes[1].push(n);
                })
            }

            #[on_remove(m2)]
            fn m2_remove(&self, context: HandlerContext<$agent>, map: &BTreeMap<i32, u64>, key: i32, prev: u64) -> impl EventHandler<$agent> {
                let (rec, n) = (self.rec.clone(), map.len());
                context.effect(move || {
                    let mut r = rec.lock();
                    r.map_hist[1].push((ticket(), MapEv::Rem { k: key, prev }));
                    r.map_sizes[1].push(n);
                })
            }

            #[on_clear(m2)]
            fn m2_clear(&self, context: HandlerContext<$agent>, prev: BTreeMap<i32, u64>) -> impl EventHandler<$agent> {
                let rec = self.rec.clone();
                context.effect(move || {
                    let mut r = rec.lock();
                    r.map_hist[1].push((ticket(), MapEv::Clr { prev }));
                    r.map_sizes[1].push(0);
                })
            }

            #[on_update(m3)]
            fn m3_update(&self, context: HandlerContext<$agent>, map: &HashMap<$m3k, u64>, key: $m3k, prev: Option<u64>, new: &u64) -> impl EventHandler<$agent> {
                let (rec, v, n) = (self.rec.clone(), *new, map.len());
                context.effect(move || {
                    let mut r = rec.lock();
                    r.map_hist[2].push((ticket(), MapEv::Upd { k: key as i32, prev, new: v }));
                    r.map_sizes[2].push(n);
                })
            }

            #[on_remove(m3)]
            fn m3_remove(&self, context: HandlerContext<$agent>, map: &HashMap<$m3k, u64>, key: $m3k, prev: u64) -> impl EventHandler<$agent> {
                let (rec, n) = (self.rec.clone(), map.len());
                context.effect(move || {
                    let mut r = rec.lock();
                    r.map_hist[2].push((ticket(), MapEv::Rem { k: key as i32, prev }));
                    r.map_sizes[2].push(n);
                })
            }

            #[on_clear(m3)]
            fn m3_clear(&self, context: HandlerContext<$agent>, prev: HashMap<$m3k, u64>) -> impl EventHandler<$agent> {
                let rec = self.rec.clone();
                context.effect(move || {
                    let mut r = rec.lock();
                    r.map_hist[2].push((ticket(), MapEv::Clr { prev: prev.into_iter().map(|(k, v)| (k as i32, v)).collect() }));
                    r.map_sizes[2].push(0);
                })
            }
        }
    };
}

define_lifecycle!(TestLifecycle, TestAgent, i32);
pub(crate) use define_lifecycle;
