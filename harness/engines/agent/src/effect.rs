//! Oracle of the command-effect probes (`Step::Effect`, select parts only).
//!
//! C01 and C02 speak of "updates arriving as commands": a command envelope to a value lane *is* a
//! set of the value it carries, one to a map lane *is* the update / remove / clear it spells
//! (`swimos_agent_protocol::MapMessage`); C02 says so explicitly for take / drop, which the existing
//! take/drop rule judges in the same way. The other rules of the engine compare what remotes see with
//! what the lane did, whatever that was; only this one notices a command handler that decodes or
//! dispatches an operation wrongly (the select family has its own decoder and its own dispatch).
//!
//! A probe is framed by two quiescent points (paused clock, nothing runnable), and the harness is the
//! only source of stimuli, so the lane's callback history between them is the effect of that one
//! command: nothing else can have changed the lane. Judged on the lane's state (fold of the
//! callbacks), not on which callbacks ran, so `remove` of an absent key or `clear` of an empty map may
//! or may not call back. Not judged: probes that could not be sent (remote gone), an agent that had
//! stopped, a stuck driver.

use std::collections::BTreeMap;

use common::{json, CaseOut};
use swimos_agent_protocol::MapMessage;
use swimos_recon::parser::parse_recognize;

use crate::agentdef::{MapEv, M1, M2, M3, V1, V2};
use crate::run::Obs;

fn fold(hist: &[(u64, MapEv)]) -> BTreeMap<i32, u64> {
    let mut cur = BTreeMap::new();
    for (_, ev) in hist {
        match ev {
            MapEv::Upd { k, new, .. } => {
                cur.insert(*k, *new);
            }
            MapEv::Rem { k, .. } => {
                cur.remove(k);
            }
            MapEv::Clr { .. } => cur.clear(),
        }
    }
    cur
}

enum Op {
    Upd(i32, u64),
    Rem(i32),
    Clr,
}

fn parse_op(lane: &str, body: &str) -> Option<Op> {
    if lane == M1 {
        let key = |s: String| s.strip_prefix('k').and_then(|r| r.parse::<i32>().ok());
        match parse_recognize::<MapMessage<String, u64>>(body, false).ok()? {
            MapMessage::Update { key: k, value } => Some(Op::Upd(key(k)?, value)),
            MapMessage::Remove { key: k } => Some(Op::Rem(key(k)?)),
            MapMessage::Clear => Some(Op::Clr),
            _ => None,
        }
    } else {
        match parse_recognize::<MapMessage<i32, u64>>(body, false).ok()? {
            MapMessage::Update { key, value } => Some(Op::Upd(key, value)),
            MapMessage::Remove { key } => Some(Op::Rem(key)),
            MapMessage::Clear => Some(Op::Clr),
            _ => None,
        }
    }
}

/// Returns the number of probes judged.
pub fn check_effects(obs: &Obs, out: &mut CaseOut) -> u64 {
    let mut judged = 0;
    if !obs.stuck.is_empty() {
        return 0;
    }
    for e in &obs.effects {
        let agent_alive = obs.rec.stopped.map_or(true, |st| st > e.t_after) && obs.agent_finished.map_or(true, |t| t > e.t_after);
        if !e.sent || !agent_alive {
            out.count("command-effect-not-judged");
            continue;
        }
        let value_lane = match e.lane.as_str() {
            V1 => Some(0),
            V2 => Some(1),
            _ => None,
        };
        if let Some(l) = value_lane {
            let Ok(v) = e.body.trim().parse::<u64>() else { continue };
            let hist = &obs.rec.value_hist[l];
            if e.hist_after > hist.len() || e.hist_before > e.hist_after {
                continue;
            }
            judged += 1;
            out.events += 1;
            let news: Vec<u64> = hist[e.hist_before..e.hist_after].iter().map(|x| x.2).collect();
            let class = match news.as_slice() {
                [x] if *x == v => None,
                [] => Some("no-change"),
                [_] => Some("other-value"),
                _ => Some("several-changes"),
            };
            if let Some(class) = class {
                out.violation(
                    "C01",
                    format!("command-effect/value/{class}"),
                    "between two quiescent points one command was sent to a value lane, but the lane's changes in between are not exactly one set of the value the command carries",
                    json!({"lane": e.lane, "command": e.body, "sets": news}),
                );
            }
        } else {
            let l = match e.lane.as_str() {
                M1 => 0,
                M2 => 1,
                M3 => 2,
                _ => continue,
            };
            let Some(op) = parse_op(&e.lane, &e.body) else { continue };
            let hist = &obs.rec.map_hist[l];
            if e.hist_after > hist.len() || e.hist_before > e.hist_after {
                continue;
            }
            judged += 1;
            out.events += 1;
            let before = fold(&hist[..e.hist_before]);
            let after = fold(&hist[..e.hist_after]);
            let mut expected = before.clone();
            let name = match op {
                Op::Upd(k, v) => {
                    expected.insert(k, v);
                    "update"
                }
                Op::Rem(k) => {
                    expected.remove(&k);
                    "remove"
                }
                Op::Clr => {
                    expected.clear();
                    "clear"
                }
            };
            if after != expected {
                let class = if after == before { "no-change" } else { "other-change" };
                out.violation(
                    "C02",
                    format!("command-effect/map/{name}/{class}/{}", ["m1-hash-text", "m2-btree-int", "m3-hash-int"][l]),
                    "between two quiescent points one command was sent to a map lane, but the lane's map afterwards is not the map before with exactly that operation applied",
                    json!({"lane": e.lane, "command": e.body, "before": format!("{before:?}"), "after": format!("{after:?}"), "expected": format!("{expected:?}"), "callbacks": format!("{:?}", &hist[e.hist_before..e.hist_after])}),
                );
            }
        }
    }
    judged
}
