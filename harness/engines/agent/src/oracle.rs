//! Oracles over one observed conversation (`Obs`): C01, C02, C03, C04, C14, C20.
//! Every rule cites the clause of the property statement it refutes. Rules only use what a peer
//! or a user can see: frames on the remote's channel, lifecycle callbacks, request tickets.

use std::collections::{BTreeMap, HashMap, HashSet};

use common::{json, CaseOut};
use swimos_agent_protocol::MapMessage;
use swimos_recon::parser::parse_recognize;

use crate::agentdef::{host_spelling, send_handle, send_is_queued, MapEv, M1, M2, M3, S1, V1, V2};
use crate::remote::{Frame, FrameKind, ReaderEnd, Req, ReqKind};
use crate::run::Obs;
use crate::script::UNKNOWN_LANES;

fn lane_kind(lane: &str) -> &'static str {
    match lane {
        V1 | V2 => "value",
        M1 | M2 | M3 => "map",
        S1 => "supply",
        "cmd" => "command",
        _ => "unknown",
    }
}

fn value_idx(lane: &str) -> Option<usize> {
    match lane {
        V1 => Some(0),
        V2 => Some(1),
        _ => None,
    }
}

fn map_idx(lane: &str) -> Option<usize> {
    match lane {
        M1 => Some(0),
        M2 => Some(1),
        M3 => Some(2),
        _ => None,
    }
}

fn kind_name(k: &FrameKind) -> &'static str {
    match k {
        FrameKind::Linked => "linked",
        FrameKind::Synced => "synced",
        FrameKind::Unlinked => "unlinked",
        FrameKind::Event => "event",
    }
}

fn body_str(f: &Frame) -> String {
    String::from_utf8_lossy(&f.body).chars().take(80).collect()
}

/// Map-lane event as a remote decodes it.
#[derive(Clone, Debug, PartialEq, Eq)]
enum MapOp {
    Upd(i32, u64),
    Rem(i32),
    Clr,
}

fn parse_map_event(lane: &str, body: &[u8]) -> Option<MapOp> {
    let text = std::str::from_utf8(body).ok()?;
    if lane == M1 {
        match parse_recognize::<MapMessage<String, u64>>(text, false).ok()? {
            MapMessage::Update { key, value } => Some(MapOp::Upd(key.strip_prefix('k')?.parse().ok()?, value)),
            MapMessage::Remove { key } => Some(MapOp::Rem(key.strip_prefix('k')?.parse().ok()?)),
            MapMessage::Clear => Some(MapOp::Clr),
            _ => None,
        }
    } else {
        match parse_recognize::<MapMessage<i32, u64>>(text, false).ok()? {
            MapMessage::Update { key, value } => Some(MapOp::Upd(key, value)),
            MapMessage::Remove { key } => Some(MapOp::Rem(key)),
            MapMessage::Clear => Some(MapOp::Clr),
            _ => None,
        }
    }
}

fn parse_u64(body: &[u8]) -> Option<u64> {
    std::str::from_utf8(body).ok()?.trim().parse().ok()
}

/// All u64 literals ≥ 2^32 in request bodies → ticket at which that request was started.
fn value_origin(obs: &Obs) -> HashMap<u64, u64> {
    let mut m = HashMap::new();
    for s in &obs.sessions {
        for r in &s.reqs {
            if r.kind != ReqKind::Command {
                continue;
            }
            let mut cur = String::new();
            for c in r.body.chars().chain(std::iter::once(' ')) {
                if c.is_ascii_digit() {
                    cur.push(c);
                } else {
                    if let Ok(v) = cur.parse::<u64>() {
                        if v >= 1 << 32 {
                            m.entry(v).or_insert(r.t0);
                        }
                    }
                    cur.clear();
                }
            }
        }
    }
    m
}

/// Compact transcript of one (session, lane): requests and frames merged by ticket (last 80).
fn transcript(lf: &LaneFrames) -> Vec<String> {
    let mut v: Vec<(u64, String)> = vec![];
    for r in &lf.reqs {
        v.push((r.t0, format!("{} -> {:?} {}", r.t0, r.kind, r.body.chars().take(60).collect::<String>())));
    }
    for f in &lf.frames {
        v.push((f.ticket, format!("{} <- {} {}", f.ticket, kind_name(&f.kind), body_str(f))));
    }
    v.sort();
    let n = v.len();
    v.into_iter().skip(n.saturating_sub(80)).map(|x| x.1).collect()
}

struct LaneFrames<'a> {
    frames: Vec<&'a Frame>,
    reqs: Vec<&'a Req>,
}

fn split_by_lane<'a>(frames: &'a [Frame], reqs: &'a [Req]) -> BTreeMap<String, LaneFrames<'a>> {
    let mut m: BTreeMap<String, LaneFrames<'a>> = BTreeMap::new();
    for f in frames {
        m.entry(f.lane.clone()).or_insert_with(|| LaneFrames { frames: vec![], reqs: vec![] }).frames.push(f);
    }
    for r in reqs {
        m.entry(r.lane.clone()).or_insert_with(|| LaneFrames { frames: vec![], reqs: vec![] }).reqs.push(r);
    }
    m
}

fn started_before(reqs: &[&Req], kind: ReqKind, t: u64) -> usize {
    reqs.iter().filter(|r| r.kind == kind && r.t0 < t).count()
}

/// Was this session's reader alive (never dropped by the harness) when the point `t` was reached?
fn reader_alive_at(end: &Option<ReaderEnd>, t: u64) -> bool {
    match end.clone() {
        None => true,
        Some(ReaderEnd::Closed(tc)) | Some(ReaderEnd::Dropped(tc)) | Some(ReaderEnd::DecodeError(tc, _)) => tc > t,
    }
}

pub struct Summary {
    pub frames: u64,
    pub coalesced_values: u64,
    pub synced_frames: u64,
    pub implicit_links: u64,
    pub map_replaced: u64,
    pub lane_not_found: u64,
    pub converged_links: u64,
    pub sync_windows: u64,
    pub supply_items: u64,
    pub supply_certain: u64,
    pub commands_traced: u64,
    pub take_drops: u64,
    pub snapshots_checked: u64,
}

pub fn check_all(obs: &Obs, out: &mut CaseOut) -> Summary {
    let mut sum = Summary {
        frames: 0,
        coalesced_values: 0,
        synced_frames: 0,
        implicit_links: 0,
        map_replaced: 0,
        lane_not_found: 0,
        converged_links: 0,
        sync_windows: 0,
        supply_items: 0,
        supply_certain: 0,
        commands_traced: 0,
        take_drops: 0,
        snapshots_checked: 0,
    };
    let origin = value_origin(obs);
    let quiescent_ok = obs.quiescent.is_some() && obs.stuck.is_empty();
    let agent_alive_at_q = match (obs.quiescent, obs.rec.stopped) {
        (Some(q), Some(st)) => st > q,
        (Some(_), None) => true,
        _ => false,
    };

    // ---- true timelines from the lifecycle callbacks
    // value lanes: H[i] = (on_event ticket, on_set ticket, value); H[0] = initial 0.
    let mut vh: [Vec<(u64, u64, u64)>; 2] = [vec![(0, 0, 0)], vec![(0, 0, 0)]];
    for l in 0..2 {
        let evs = &obs.rec.value_events[l];
        for (i, (t_set, prev, new)) in obs.rec.value_hist[l].iter().enumerate() {
            let t_ev = evs.get(i).map(|e| e.0).unwrap_or(*t_set);
            // C06-flavoured sanity that C01/C03 rely on: the previous value reported is the previous state.
            let expect_prev = vh[l].last().map(|x| x.2);
            if *prev != expect_prev {
                for p in ["C01", "C06"] {
                    out.violation(
                        p,
                        "history/on-set-previous-mismatch",
                        "on_set reported a previous value that is not the lane's previous state",
                        json!({"lane": l, "reported": prev, "expected": expect_prev}),
                    );
                }
            }
            vh[l].push((t_ev, *t_set, *new));
        }
    }
    let vindex: [HashMap<u64, usize>; 2] = [
        vh[0].iter().enumerate().map(|(i, x)| (x.2, i)).collect(),
        vh[1].iter().enumerate().map(|(i, x)| (x.2, i)).collect(),
    ];

    // map lanes: fold of the callbacks, per key timeline of (callback ticket of previous change in lane, ticket, state)
    #[derive(Clone, Debug, PartialEq)]
    enum KS {
        Absent,
        Val(u64),
    }
    struct MapTruth {
        /// per key: (lower bound ticket of the change, callback ticket, state)
        keys: BTreeMap<i32, Vec<(u64, u64, KS)>>,
        fin: BTreeMap<i32, u64>,
        /// value -> number of clears that preceded it
        epoch: HashMap<u64, u32>,
        first_change: Option<u64>,
        /// state after each history entry
        states: Vec<BTreeMap<i32, u64>>,
    }
    let mut mt: Vec<MapTruth> = vec![];
    for l in 0..3 {
        let mut keys: BTreeMap<i32, Vec<(u64, u64, KS)>> = BTreeMap::new();
        let mut cur: BTreeMap<i32, u64> = BTreeMap::new();
        let mut epoch = HashMap::new();
        let mut clears = 0u32;
        let mut prev_t = 0u64;
        let mut states = vec![];
        for (i, (t, ev)) in obs.rec.map_hist[l].iter().enumerate() {
            match ev {
                MapEv::Upd { k, prev, new } => {
                    if cur.get(k).copied() != *prev {
                        for p in ["C02", "C06"] {
                            out.violation(p, "history/on-update-previous-mismatch", "on_update reported a previous value that is not the entry's previous state", json!({"lane": l, "key": k, "reported": prev, "expected": cur.get(k)}));
                        }
                    }
                    cur.insert(*k, *new);
                    epoch.insert(*new, clears);
                    keys.entry(*k).or_default().push((prev_t, *t, KS::Val(*new)));
                }
                MapEv::Rem { k, prev } => {
                    if cur.get(k) != Some(prev) {
                        for p in ["C02", "C06"] {
                            out.violation(p, "history/on-remove-previous-mismatch", "on_remove reported a previous value that is not the entry's previous state", json!({"lane": l, "key": k, "reported": prev, "expected": cur.get(k)}));
                        }
                    }
                    cur.remove(k);
                    keys.entry(*k).or_default().push((prev_t, *t, KS::Absent));
                }
                MapEv::Clr { prev } => {
                    if *prev != cur {
                        for p in ["C02", "C06"] {
                            out.violation(p, "history/on-clear-previous-mismatch", "on_clear reported a previous map that is not the lane's previous state", json!({"lane": l}));
                        }
                    }
                    for k in cur.keys() {
                        keys.entry(*k).or_default().push((prev_t, *t, KS::Absent));
                    }
                    cur.clear();
                    clears += 1;
                }
            }
            if obs.rec.map_sizes[l].get(i).copied() != Some(cur.len()) {
                for p in ["C02", "C06"] {
                    out.violation(p, "history/map-size-mismatch", "the map handed to a lifecycle callback does not have the size the operations imply", json!({"lane": l, "at": i}));
                }
            }
            prev_t = *t;
            states.push(cur.clone());
        }
        mt.push(MapTruth { keys, fin: cur, epoch, first_change: obs.rec.map_hist[l].first().map(|x| x.0), states });
    }

    // ---- take / drop (C02 d): quiescent before and after, so the lane state is known on both sides.
    for td in &obs.take_drops {
        if !td.sent || !agent_alive_at_q {
            continue;
        }
        let l = td.lane as usize;
        let before: BTreeMap<i32, u64> = if td.hist_before == 0 { BTreeMap::new() } else { mt[l].states[td.hist_before - 1].clone() };
        let after: BTreeMap<i32, u64> = if td.hist_after == 0 { BTreeMap::new() } else { mt[l].states[td.hist_after - 1].clone() };
        // Documented order: Recon order of the keys. For m1 keys are texts "k<i>" (string order),
        // for m2/m3 they are i32 (numeric order).
        let mut ks: Vec<i32> = before.keys().copied().collect();
        if l == 0 {
            ks.sort_by_key(|k| format!("k{k}"));
        }
        let n = td.n as usize;
        let expect_keys: Vec<i32> = if td.take {
            ks.iter().take(n).copied().collect()
        } else {
            ks.iter().skip(n).copied().collect()
        };
        let expected: BTreeMap<i32, u64> = expect_keys.iter().map(|k| (*k, before[k])).collect();
        sum.take_drops += 1;
        out.events += 1;
        if expected != after {
            out.violation(
                "C02",
                format!("take-drop/wrong-entries/{}/{}", if td.take { "take" } else { "drop" }, ["m1-hash-text", "m2-btree-int", "m3-hash-int"][l]),
                "take/drop did not leave exactly the entries designated by the documented key order",
                json!({"before": format!("{before:?}"), "after": format!("{after:?}"), "expected": format!("{expected:?}"), "n": n}),
            );
        }
        // the removals must be individual on_remove callbacks in key order (each entry once)
        let removed: Vec<i32> = obs.rec.map_hist[l][td.hist_before..td.hist_after]
            .iter()
            .filter_map(|(_, e)| match e {
                MapEv::Rem { k, .. } => Some(*k),
                _ => None,
            })
            .collect();
        let uniq: HashSet<i32> = removed.iter().copied().collect();
        if uniq.len() != removed.len() {
            out.violation("C02", "take-drop/entry-removed-twice", "take/drop removed an entry more than once", json!({"removed": removed}));
        }
    }

    // ---- per session
    for (si, s) in obs.sessions.iter().enumerate() {
        let log = s.log.lock();
        let frames = &log.frames;
        sum.frames += frames.len() as u64;
        out.events += frames.len() as u64;
        let is_probe = obs.probe_session == Some(si);
        let by_lane = split_by_lane(frames, &s.reqs);
        let alive_at_q = obs.quiescent.map_or(false, |q| reader_alive_at(&log.end, q)) && s.attached_t1.is_some();
        let closed_by_runtime = matches!(log.end, Some(ReaderEnd::Closed(_)));

        for (lane, lf) in &by_lane {
            let kind = lane_kind(lane);
            let unknown = UNKNOWN_LANES.contains(&lane.as_str());
            let mut open = false;
            let mut open_since: Option<u64> = None;
            let mut linked_seen = 0usize;
            let mut explicit_used = 0usize;
            let mut synced_seen = 0usize;
            let mut lnf_seen = 0usize;
            let mut dup_budget_used = 0usize;
            let mut last_idx: Option<usize> = None;
            let mut last_val: Option<u64> = None;
            let mut synced_in_link = false;
            // map replica
            let mut replica: BTreeMap<i32, u64> = BTreeMap::new();
            let mut key_ptr: HashMap<i32, usize> = HashMap::new();
            let mut max_epoch: u32 = 0;
            let mut last_supply_idx: Option<usize> = None;
            let mut supply_seen: HashSet<u64> = HashSet::new();
            let supplied_index: HashMap<u64, usize> = if lane == S1 { obs.rec.supplied.iter().enumerate().map(|(i, x)| (x.1, i)).collect() } else { HashMap::new() };

            for (fi, f) in lf.frames.iter().enumerate() {
                let links_started = started_before(&lf.reqs, ReqKind::Link, f.ticket);
                let syncs_started = started_before(&lf.reqs, ReqKind::Sync, f.ticket);
                let unlinks_started = started_before(&lf.reqs, ReqKind::Unlink, f.ticket);
                let cmds_started = started_before(&lf.reqs, ReqKind::Command, f.ticket);
                let next_kind = lf.frames.get(fi + 1).map(|n| kind_name(&n.kind)).unwrap_or("none");
                if links_started + syncs_started + unlinks_started + cmds_started == 0 {
                    out.violation("C04", format!("frame-for-unaddressed-lane/{}", kind_name(&f.kind)), "a frame arrived for a lane name this remote never addressed", json!({"lane": lane, "frame": kind_name(&f.kind)}));
                }
                if f.node != crate::run::NODE {
                    out.violation("C04", "frame-with-wrong-node", "a frame carries a node uri other than the agent's", json!({"node": f.node}));
                }
                match f.kind {
                    FrameKind::Linked => {
                        linked_seen += 1;
                        if unknown {
                            out.violation("C04", "linked-for-unknown-lane", "linked received for a lane that does not exist", json!({"lane": lane}));
                        }
                        // A `linked` must answer something this remote asked for. While the link is
                        // open only an explicit (repeated) link request is answered by another
                        // `linked`. A `linked` that opens a link answers an explicit request or is the
                        // implicit link made for a sync; a sync whose answers straddle an unlink of
                        // the same remote legitimately re-links more than once (each targeted answer
                        // links an unlinked remote), so opening `linked`s are not counted against syncs.
                        let justified = if open {
                            if explicit_used < links_started {
                                explicit_used += 1;
                                true
                            } else {
                                false
                            }
                        } else if syncs_started > 0 {
                            true
                        } else if explicit_used < links_started {
                            explicit_used += 1;
                            true
                        } else {
                            false
                        };
                        if !justified {
                            out.violation(
                                "C04",
                                format!("linked-unmatched/{kind}/open={open}"),
                                "linked received that answers no link request and no sync request of this remote",
                                json!({"lane": lane, "linked_seen": linked_seen, "link_requests": links_started, "sync_requests": syncs_started}),
                            );
                        }
                        if !open {
                            last_val = None;
                            open = true;
                            open_since = Some(f.ticket);
                            synced_in_link = false;
                            replica.clear();
                            if links_started == 0 {
                                sum.implicit_links += 1;
                                out.count("implicit-link");
                            }
                        }
                    }
                    FrameKind::Synced => {
                        synced_seen += 1;
                        sum.synced_frames += 1;
                        if !open {
                            out.violation("C04", format!("synced-outside-link/{kind}"), "synced received while no link is open", json!({"lane": lane}));
                        }
                        if synced_seen > syncs_started {
                            out.violation("C04", format!("synced-unmatched/{kind}"), "synced received although this remote has no unanswered sync request", json!({"lane": lane, "synced_seen": synced_seen, "sync_requests": syncs_started}));
                        }
                        synced_in_link = true;
                        // C03: consistent snapshot. Window = [t0 of the oldest sync request not yet
                        // answered, receipt]. Merged answers only widen it (sound).
                        let sync_reqs: Vec<&&Req> = lf.reqs.iter().filter(|r| r.kind == ReqKind::Sync).collect();
                        let t_q = sync_reqs.get(synced_seen - 1).map(|r| r.t0);
                        // A remote that asks to unlink while its sync is outstanding has abandoned
                        // that session: the statement says nothing about what it then receives.
                        let interrupted = t_q.map_or(false, |tq| lf.reqs.iter().any(|r| r.kind == ReqKind::Unlink && r.t0 > tq && r.t0 < f.ticket));
                        if interrupted {
                            out.count("sync-interrupted-by-unlink");
                        }
                        if let (Some(t_q), false) = (t_q, interrupted) {
                            let t_s = f.ticket;
                            sum.sync_windows += 1;
                            if let Some(l) = value_idx(lane) {
                                match last_val {
                                    None => out.violation("C03", "synced-without-value/value", "synced received for a value lane although no value was ever delivered on this link", json!({"lane": lane})),
                                    Some(v) => {
                                        if let Some(&i) = vindex[l].get(&v) {
                                            // S_i held within (on_set ticket of S_{i-1}, on_event ticket of S_{i+1}].
                                            let lo = if i == 0 { 0 } else { vh[l][i - 1].1 };
                                            let hi = vh[l].get(i + 1).map(|x| x.0).unwrap_or(u64::MAX);
                                            if !(lo < t_s && hi >= t_q) {
                                                out.violation(
                                                    "C03",
                                                    format!("snapshot-outside-window/value/{}", if hi < t_q { "stale" } else { "future" }),
                                                    "at synced the remote's value is not a value the lane held between the sync request and that instant",
                                                    json!({"lane": lane, "value": v, "held": [lo, hi], "window": [t_q, t_s]}),
                                                );
                                            }
                                        }
                                    }
                                }
                            } else if let Some(l) = map_idx(lane) {
                                let mut all_keys: HashSet<i32> = mt[l].keys.keys().copied().collect();
                                all_keys.extend(replica.keys().copied());
                                for k in all_keys {
                                    let st = replica.get(&k).map(|v| KS::Val(*v)).unwrap_or(KS::Absent);
                                    let tl = mt[l].keys.get(&k).cloned().unwrap_or_default();
                                    // timeline: Absent from 0 until first change; entry j holds within (lower_j, ticket_{j+1}]
                                    let mut ok = false;
                                    let first_hi = tl.first().map(|x| x.1).unwrap_or(u64::MAX);
                                    if st == KS::Absent && first_hi >= t_q {
                                        ok = true;
                                    }
                                    for (j, (lo, _t, state)) in tl.iter().enumerate() {
                                        let hi = tl.get(j + 1).map(|x| x.1).unwrap_or(u64::MAX);
                                        if *state == st && *lo < t_s && hi >= t_q {
                                            ok = true;
                                        }
                                    }
                                    if !ok {
                                        let class = match &st {
                                            KS::Absent => "key-missing",
                                            KS::Val(_) => "key-stale",
                                        };
                                        // Did this remote hold a link when it sent the sync request? Decided on its own
                                        // requests (frames lag behind requests): an explicit link request is handled
                                        // before the sync request; an earlier sync request links the remote only when
                                        // its first answer is written, so unless `linked` had been received it is not
                                        // known whether the link existed ("pending-sync").
                                        let last_req = lf.reqs.iter().filter(|r| r.t0 < t_q && matches!(r.kind, ReqKind::Link | ReqKind::Sync | ReqKind::Unlink)).last();
                                        let open_by_frames = lf.frames.iter().filter(|x| x.ticket < t_q && matches!(x.kind, FrameKind::Linked | FrameKind::Unlinked)).last().map_or(false, |x| x.kind == FrameKind::Linked);
                                        let mut linked_at_request = match last_req.map(|r| &r.kind) {
                                            Some(&ReqKind::Link) => "true",
                                            Some(&ReqKind::Sync) if open_by_frames => "true",
                                            Some(&ReqKind::Sync) => "pending-sync",
                                            _ => "false",
                                        }
                                        .to_string();
                                        // An earlier sync of this remote that it abandoned by unlinking before `synced`
                                        // arrived: what is left of that answer is delivered into the link this sync opens.
                                        let abandoned = lf.reqs.iter().any(|r| {
                                            r.kind == ReqKind::Sync
                                                && r.t0 < t_q
                                                && lf.reqs.iter().any(|u| u.kind == ReqKind::Unlink && u.t0 > r.t0 && u.t0 < t_q && !lf.frames.iter().any(|x| x.kind == FrameKind::Synced && x.ticket > r.t0 && x.ticket < u.t0))
                                        });
                                        if abandoned && class == "key-stale" {
                                            linked_at_request.push_str("/after-abandoned-sync");
                                        }
                                        // A clear delivered inside the window: an older clear that was still queued as a
                                        // standard event when the sync's targeted entries were queued wipes them (the
                                        // component-level finding sync-window/key-missing/linked-observer/last-frame=clear).
                                        let clear_in_window = lf.frames.iter().any(|x| x.kind == FrameKind::Event && x.ticket > t_q && x.ticket < t_s && body_str(x).trim() == "@clear");
                                        if clear_in_window && class == "key-missing" {
                                            linked_at_request.push_str("/clear-in-window");
                                        }
                                        // The agent-level picture of the known `WriteQueues` ordering finding (uplinks engine,
                                        // `sync-window/key-not-removed|key-stale-value/linked-observer-with-history/last-frame=before-request`):
                                        // the lane changed the key BEFORE the sync request, the standard event for that change was
                                        // still queued for this linked remote when `synced` went out, and it (or an event that
                                        // supersedes it: a later operation on the key, a clear) arrives afterwards. `synced`
                                        // overtook an older standard event; nothing was lost. A stale entry that is never put
                                        // right, or whose state ended inside the window, does not get the facet.
                                        if class == "key-stale" && linked_at_request == "true" {
                                            let ended_before_request = tl.iter().enumerate().any(|(j, (_lo, _t, state))| *state == st && tl.get(j + 1).map_or(false, |x| x.1 < t_q));
                                            let put_right_after_synced = lf.frames.iter().any(|x| {
                                                x.kind == FrameKind::Event
                                                    && x.ticket > t_s
                                                    && match parse_map_event(lane, &x.body) {
                                                        Some(MapOp::Clr) => true,
                                                        Some(MapOp::Rem(kk)) | Some(MapOp::Upd(kk, _)) => kk == k,
                                                        None => false,
                                                    }
                                            });
                                            if ended_before_request && put_right_after_synced {
                                                linked_at_request.push_str("/standard-event-from-before-the-request-delivered-after-synced");
                                            }
                                        }
                                        out.violation(
                                            "C03",
                                            format!("snapshot-outside-window/map/{class}/linked-at-request={linked_at_request}"),
                                            "at synced a key of the remote's replica is not in a state the lane held between the sync request and that instant",
                                            json!({"lane": lane, "key": k, "replica": format!("{st:?}"), "timeline": format!("{tl:?}"), "window": [t_q, t_s], "transcript": transcript(lf), "history": format!("{:?}", obs.rec.map_hist[l].iter().filter(|x| x.0 + 400 > t_q && x.0 < t_s + 50).collect::<Vec<_>>())}),
                                        );
                                        break;
                                    }
                                }
                            }
                        }
                    }
                    FrameKind::Unlinked => {
                        let body = body_str(f);
                        let lnf = body == "@laneNotFound";
                        if open {
                            open = false;
                            open_since = None;
                            if lnf {
                                out.violation("C04", "lane-not-found-closes-open-link", "an open link was closed with lane-not-found", json!({"lane": lane}));
                            }
                        } else if lnf && unknown {
                            lnf_seen += 1;
                            sum.lane_not_found += 1;
                            if lnf_seen > links_started + syncs_started + unlinks_started {
                                out.violation("C04", "lane-not-found-unmatched", "more lane-not-found replies than requests for that lane", json!({"lane": lane, "seen": lnf_seen}));
                            }
                        } else {
                            out.violation(
                                "C04",
                                format!("unlinked-outside-link/{kind}/lane-not-found={lnf}"),
                                "unlinked received while no link is open (and not as a lane-not-found reply for an unknown lane)",
                                json!({"lane": lane, "body": body}),
                            );
                        }
                    }
                    FrameKind::Event => {
                        if !open {
                            out.violation("C04", format!("event-outside-link/{kind}"), "event received while no link is open", json!({"lane": lane, "body": body_str(f)}));
                        }
                        if f.body.is_empty() {
                            out.violation(
                                "C04",
                                format!("fabricated-event/empty-body/{kind}/next={next_kind}"),
                                "an event with an empty body was received: the lane never produced such a body",
                                json!({"lane": lane, "next": next_kind}),
                            );
                            if kind == "value" {
                                out.violation("C01", format!("invented-value/empty-body/next={next_kind}"), "a value-lane event carries no value at all", json!({"lane": lane}));
                            }
                            continue;
                        }
                        if let Some(l) = value_idx(lane) {
                            match parse_u64(&f.body) {
                                None => {
                                    out.violation("C04", "fabricated-event/unparseable-body/value", "event body is not a body the value lane produced", json!({"lane": lane, "body": body_str(f)}));
                                    out.violation("C01", "invented-value/unparseable", "a value-lane event does not carry a value of the lane's type", json!({"lane": lane, "body": body_str(f)}));
                                }
                                Some(v) => {
                                    match vindex[l].get(&v) {
                                        None => {
                                            let other = vindex[1 - l].contains_key(&v);
                                            out.violation("C01", format!("invented-value/not-in-history/other-lane={other}"), "a remote received a value the lane never held", json!({"lane": lane, "value": v}));
                                            if other {
                                                out.violation("C04", "event-body-from-other-lane/value", "an event carries a body produced by another lane", json!({"lane": lane, "value": v}));
                                            } else {
                                                out.violation("C04", "fabricated-event/unknown-value/value", "an event carries a body the lane never produced", json!({"lane": lane, "value": v}));
                                            }
                                        }
                                        Some(&i) => {
                                            if let Some(li) = last_idx {
                                                if i < li {
                                                    out.violation("C01", "reordered-value", "a remote received an older value after a newer one", json!({"lane": lane, "value": v, "index": i, "previous_index": li}));
                                                } else if i == li {
                                                    dup_budget_used += 1;
                                                    if dup_budget_used > syncs_started {
                                                        out.violation("C01", "duplicate-value-without-sync", "a remote received the same value again although it did not sync", json!({"lane": lane, "value": v}));
                                                    }
                                                } else if i > li + 1 {
                                                    sum.coalesced_values += (i - li - 1) as u64;
                                                    out.count("value-skipped");
                                                }
                                            }
                                            last_idx = Some(last_idx.map_or(i, |li| li.max(i)));
                                        }
                                    }
                                    last_val = Some(v);
                                }
                            }
                        } else if let Some(l) = map_idx(lane) {
                            match parse_map_event(lane, &f.body) {
                                None => out.violation("C04", "fabricated-event/unparseable-body/map", "event body is not a map operation the lane could have produced", json!({"lane": lane, "body": body_str(f)})),
                                Some(op) => {
                                    let mut touched: Vec<(i32, KS)> = vec![];
                                    match &op {
                                        MapOp::Upd(k, v) => {
                                            match mt[l].epoch.get(v) {
                                                None => {
                                                    out.violation("C02", "invented-entry/not-in-history", "a remote received a map update the lane never made", json!({"lane": lane, "key": k, "value": v}));
                                                    out.violation("C04", "fabricated-event/unknown-value/map", "an event carries a map entry the lane never produced", json!({"lane": lane, "key": k, "value": v}));
                                                }
                                                Some(e) => {
                                                    if *e < max_epoch {
                                                        out.violation("C02", "clear-overtaken-by-older-update", "an update made before a clear was received after an update made after it", json!({"lane": lane, "key": k, "value": v}));
                                                    }
                                                    max_epoch = max_epoch.max(*e);
                                                }
                                            }
                                            if replica.insert(*k, *v).is_some() {
                                                sum.map_replaced += 0;
                                            }
                                            touched.push((*k, KS::Val(*v)));
                                        }
                                        MapOp::Rem(k) => {
                                            replica.remove(k);
                                            touched.push((*k, KS::Absent));
                                        }
                                        MapOp::Clr => {
                                            for k in replica.keys() {
                                                touched.push((*k, KS::Absent));
                                            }
                                            replica.clear();
                                            out.count("map-clear-received");
                                        }
                                    }
                                    // C02 b: the *values* a remote sees for a key are an in-order
                                    // subsequence of the values the key held (duplicates allowed: a sync
                                    // re-sends current values). Removals are not ordered here: a targeted
                                    // sync event carries the key's current value and may legitimately
                                    // arrive before an older, still queued remove/clear, which the later
                                    // standard events then repair; lost removals are caught by the
                                    // convergence rule, stale ones by the snapshot rule.
                                    for (k, st) in touched {
                                        let KS::Val(v) = st else { continue };
                                        let tl = mt[l].keys.get(&k).cloned().unwrap_or_default();
                                        let pos = tl.iter().position(|x| x.2 == KS::Val(v));
                                        let p = key_ptr.get(&k).copied().unwrap_or(0);
                                        match pos {
                                            Some(pos) => {
                                                if pos < p {
                                                    out.violation(
                                                        "C02",
                                                        "per-key-order/older-value-after-newer",
                                                        "a remote received an older value of a key after a newer one",
                                                        json!({"lane": lane, "key": k, "value": v, "timeline": format!("{tl:?}"), "transcript": transcript(lf)}),
                                                    );
                                                } else if pos > p + 1 {
                                                    out.count("map-key-states-skipped");
                                                }
                                                key_ptr.insert(k, p.max(pos));
                                            }
                                            None => {} // reported as invented-entry above
                                        }
                                    }
                                }
                            }
                        } else if lane == S1 {
                            match parse_u64(&f.body) {
                                None => out.violation("C04", "fabricated-event/unparseable-body/supply", "event body is not a body the supply lane produced", json!({"body": body_str(f)})),
                                Some(item) => {
                                    sum.supply_items += 1;
                                    match supplied_index.get(&item) {
                                        None => out.violation("C14", "supply/invented-item", "a remote received a supply-lane item that was never pushed", json!({"item": item})),
                                        Some(&i) => {
                                            if !supply_seen.insert(item) {
                                                out.violation("C14", "supply/duplicate-item", "a supply-lane item was delivered twice to one remote", json!({"item": item}));
                                            } else if last_supply_idx.map_or(false, |li| i < li) {
                                                out.violation("C14", "supply/reordered-item", "supply-lane items were delivered out of push order", json!({"item": item}));
                                            }
                                            last_supply_idx = Some(last_supply_idx.map_or(i, |li| li.max(i)));
                                        }
                                    }
                                }
                            }
                        }
                    }
                }
            }

            // ---- end-of-conversation rules for this (session, lane)
            let unlink_after_open = open_since.map_or(false, |t| lf.reqs.iter().any(|r| r.kind == ReqKind::Unlink && r.t0 > 0 && r.t1.unwrap_or(u64::MAX) > t));
            let any_unlink = lf.reqs.iter().any(|r| r.kind == ReqKind::Unlink);
            let q = obs.quiescent.unwrap_or(0);
            // State of the link at the final quiescent point (frames with ticket < q).
            let mut open_at_q = false;
            let mut open_at_q_since = 0;
            let mut synced_at_q = false;
            let mut closed_at = 0u64;
            let mut opened_by = "link";
            for f in lf.frames.iter().filter(|f| f.ticket < q) {
                match f.kind {
                    FrameKind::Linked => {
                        if !open_at_q {
                            open_at_q = true;
                            open_at_q_since = f.ticket;
                            synced_at_q = false;
                            // opened by an explicit link request issued since the last close?
                            // which request came first since the last close: a sync or a link?
                            let first = lf.reqs.iter().find(|r| matches!(r.kind, ReqKind::Link | ReqKind::Sync) && r.t0 > closed_at && r.t0 < f.ticket);
                            opened_by = match first {
                                Some(r) if r.kind == ReqKind::Link => "link",
                                _ => "sync",
                            };
                        }
                    }
                    FrameKind::Unlinked => {
                        open_at_q = false;
                        closed_at = f.ticket;
                    }
                    FrameKind::Synced => synced_at_q = true,
                    _ => {}
                }
            }
            let unlink_req_after = lf.reqs.iter().any(|r| r.kind == ReqKind::Unlink && r.t1.unwrap_or(u64::MAX) > open_at_q_since);
            let stable = quiescent_ok && agent_alive_at_q && alive_at_q && open_at_q && !unlink_req_after && !is_probe;
            let _ = (unlink_after_open, any_unlink, synced_in_link);

            if stable {
                if let Some(l) = value_idx(lane) {
                    // C01 never-stale: linked before the last change was even requested.
                    let last = vh[l].last().unwrap();
                    if vh[l].len() > 1 {
                        let t_req = origin.get(&last.2).copied();
                        if let Some(t_req) = t_req {
                            if open_at_q_since < t_req {
                                sum.converged_links += 1;
                                let last_before_q = lf.frames.iter().filter(|f| f.ticket < q && f.kind == FrameKind::Event).last().and_then(|f| parse_u64(&f.body));
                                if last_before_q != Some(last.2) {
                                    out.violation(
                                        "C01",
                                        "stale-at-quiescence",
                                        "the agent is quiescent and the remote has drained its channel, but the last value it received is not the lane's current value",
                                        json!({"lane": lane, "last_received": last_before_q, "current": last.2}),
                                    );
                                }
                            }
                        }
                    }
                } else if let Some(l) = map_idx(lane) {
                    // C02 a: replica convergence for links that cover the whole history or synced.
                    let complete = synced_at_q || mt[l].first_change.map_or(true, |c| open_at_q_since < c);
                    if complete {
                        sum.converged_links += 1;
                        // replica at q
                        let mut rep: BTreeMap<i32, u64> = BTreeMap::new();
                        let mut is_open = false;
                        for f in lf.frames.iter().filter(|f| f.ticket < q) {
                            match f.kind {
                                FrameKind::Linked => {
                                    if !is_open {
                                        is_open = true;
                                        rep.clear();
                                    }
                                }
                                FrameKind::Unlinked => is_open = false,
                                FrameKind::Event => match parse_map_event(lane, &f.body) {
                                    Some(MapOp::Upd(k, v)) => {
                                        rep.insert(k, v);
                                    }
                                    Some(MapOp::Rem(k)) => {
                                        rep.remove(&k);
                                    }
                                    Some(MapOp::Clr) => rep.clear(),
                                    None => {}
                                },
                                _ => {}
                            }
                        }
                        // lane state at q = fold of callbacks with ticket < q
                        let n_before = obs.rec.map_hist[l].iter().filter(|x| x.0 < q).count();
                        let truth = if n_before == 0 { BTreeMap::new() } else { mt[l].states[n_before - 1].clone() };
                        if rep != truth {
                            let missing: Vec<&i32> = truth.keys().filter(|k| !rep.contains_key(k)).collect();
                            let extra: Vec<&i32> = rep.keys().filter(|k| !truth.contains_key(k)).collect();
                            let class = if !missing.is_empty() {
                                "missing-key"
                            } else if !extra.is_empty() {
                                "extra-key"
                            } else {
                                "stale-value"
                            };
                            out.violation(
                                "C02",
                                format!("replica-diverged/{class}/synced={synced_at_q}/opened-by={opened_by}"),
                                "the agent is quiescent and the remote has drained its channel, but applying the operations it received does not give the lane's map",
                                json!({"lane": lane, "replica": format!("{rep:?}"), "lane_map": format!("{truth:?}"), "transcript": transcript(lf)}),
                            );
                        }
                    }
                } else if lane == S1 {
                    // C14: every item pushed by a command requested after the link was established.
                    let mut certain = 0;
                    for (_t, item) in &obs.rec.supplied {
                        let _ = item;
                        certain += 0;
                    }
                    let _ = certain;
                    let cmd_t0: Vec<(u64, u64, u64)> = supply_ranges(obs);
                    for (t0, first, n) in cmd_t0 {
                        if t0 > open_at_q_since {
                            for item in first..first + n {
                                sum.supply_certain += 1;
                                if !supply_seen.contains(&item) && supplied_index.contains_key(&item) {
                                    out.violation("C14", "supply/item-lost", "an item pushed while the remote was certainly linked was never delivered to it", json!({"item": item}));
                                    break;
                                }
                            }
                        }
                    }
                }
            }

            // C03: every sync request on a link that stays up is eventually answered.
            if quiescent_ok && agent_alive_at_q && alive_at_q && !unknown && kind != "command" {
                if let Some(last_sync) = lf.reqs.iter().filter(|r| r.kind == ReqKind::Sync && r.t1.is_some()).last() {
                    let unlink_after = lf.reqs.iter().any(|r| r.kind == ReqKind::Unlink && r.t0 > last_sync.t0);
                    let answered = lf.frames.iter().any(|f| f.kind == FrameKind::Synced && f.ticket > last_sync.t0);
                    if !unlink_after && !answered {
                        out.violation("C03", format!("sync-never-completed/{kind}"), "a sync request was never answered with synced although the agent is quiescent and the remote drained its channel", json!({"lane": lane}));
                    }
                }
            }

            // C04: lane-not-found replies for unknown lanes.
            if unknown && quiescent_ok && agent_alive_at_q && alive_at_q {
                let must = lf.reqs.iter().filter(|r| r.t1.is_some() && matches!(r.kind, ReqKind::Link | ReqKind::Sync)).count();
                let seen_q = lf.frames.iter().filter(|f| f.ticket < q && f.kind == FrameKind::Unlinked && body_str(f) == "@laneNotFound").count();
                if seen_q < must {
                    out.violation("C04", "lane-not-found-missing", "a link or sync request for a lane that does not exist was not answered by unlinked/lane-not-found", json!({"lane": lane, "requests": must, "replies": seen_q}));
                }
            }

            // C04: at agent stop every open link of a remote that keeps reading is closed by unlinked.
            if obs.agent_finished.is_some() && closed_by_runtime && obs.stuck.is_empty() && open {
                out.violation("C04", format!("link-not-closed-at-stop/{kind}"), "the agent stopped and closed the remote's channel without sending unlinked for an open link", json!({"lane": lane}));
            }
            let _ = lnf_seen;
        }
    }

    // ---- C14: command lane: every command exactly once, per remote in send order.
    let mut trace_pos: HashMap<u64, Vec<usize>> = HashMap::new();
    for (i, (_t, id)) in obs.rec.cmd_trace.iter().enumerate() {
        trace_pos.entry(*id).or_default().push(i);
    }
    sum.commands_traced = obs.rec.cmd_trace.len() as u64;
    out.events += obs.rec.cmd_trace.len() as u64;
    for (id, ps) in &trace_pos {
        if ps.len() > 1 {
            out.violation("C14", "command-lane/handler-invoked-twice", "one command envelope invoked the command lane's handler more than once", json!({"id": id, "times": ps.len()}));
        }
    }
    for s in &obs.sessions {
        let mut last_pos: Option<usize> = None;
        for r in s.reqs.iter().filter(|r| r.kind == ReqKind::Command && r.lane == "cmd") {
            let id = cmd_id(&r.body);
            let Some(id) = id else { continue };
            match trace_pos.get(&id) {
                None => {
                    if r.t1.is_some() && quiescent_ok && agent_alive_at_q {
                        out.violation("C14", "command-lane/command-lost", "a command envelope delivered to the agent never invoked the command lane's handler", json!({"id": id}));
                    }
                }
                Some(ps) => {
                    if last_pos.map_or(false, |lp| ps[0] < lp) {
                        out.violation("C14", "command-lane/reordered", "commands of one remote were handled out of send order", json!({"id": id}));
                    }
                    last_pos = Some(ps[0]);
                }
            }
        }
    }
    // and the handler never runs for a command nobody sent
    let sent_ids: HashSet<u64> = obs.sessions.iter().flat_map(|s| s.reqs.iter()).filter(|r| r.lane == "cmd").filter_map(|r| cmd_id(&r.body)).collect();
    for id in trace_pos.keys() {
        if !sent_ids.contains(id) {
            out.violation("C14", "command-lane/invented-command", "the handler was invoked with a command nobody sent", json!({"id": id}));
        }
    }

    // ---- probe: the lane's real final state equals the fold of the recorded history.
    if let (Some(pi), true) = (obs.probe_session, agent_alive_at_q) {
        let s = &obs.sessions[pi];
        let log = s.log.lock();
        for l in 0..2 {
            let lane = [V1, V2][l];
            let got = log.frames.iter().filter(|f| f.lane == lane && f.kind == FrameKind::Event).last().and_then(|f| parse_u64(&f.body));
            let want = vh[l].last().map(|x| x.2);
            if got.is_some() && got != want {
                out.violation("C01", "lane-value-differs-from-history", "a fresh syncing remote received a value that is not the last value the lane's callbacks reported", json!({"lane": lane, "got": got, "want": want}));
            }
        }
        for l in 0..3 {
            let lane = [M1, M2, M3][l];
            let mut rep = BTreeMap::new();
            let mut synced = false;
            for f in log.frames.iter().filter(|f| f.lane == lane) {
                match f.kind {
                    FrameKind::Event => match parse_map_event(lane, &f.body) {
                        Some(MapOp::Upd(k, v)) => {
                            rep.insert(k, v);
                        }
                        Some(MapOp::Rem(k)) => {
                            rep.remove(&k);
                        }
                        Some(MapOp::Clr) => rep.clear(),
                        None => {}
                    },
                    FrameKind::Synced => synced = true,
                    _ => {}
                }
            }
            if synced && rep != mt[l].fin {
                out.violation("C02", "lane-map-differs-from-history", "a fresh syncing remote received a map that is not what the lane's callbacks imply", json!({"lane": lane, "got": format!("{rep:?}"), "want": format!("{:?}", mt[l].fin)}));
            }
        }
    }
    sum
}

fn cmd_id(body: &str) -> Option<u64> {
    let i = body.find("id:")?;
    let rest = &body[i + 3..];
    let end = rest.find(|c: char| !c.is_ascii_digit()).unwrap_or(rest.len());
    rest[..end].parse().ok()
}

/// (t0 of the carrying request, first item, count) for every `@sup` action that was sent.
fn supply_ranges(obs: &Obs) -> Vec<(u64, u64, u64)> {
    let mut v = vec![];
    for s in &obs.sessions {
        for r in s.reqs.iter().filter(|r| r.lane == "cmd" && r.t1.is_some()) {
            let mut rest = r.body.as_str();
            while let Some(i) = rest.find("@sup{first:") {
                let tail = &rest[i + 11..];
                let e1 = tail.find(',').unwrap_or(0);
                let first: Option<u64> = tail[..e1].parse().ok();
                let tail2 = &tail[e1..];
                let n: Option<u64> = tail2.strip_prefix(",n:").and_then(|t| {
                    let e = t.find('}').unwrap_or(0);
                    t[..e].parse().ok()
                });
                if let (Some(f), Some(n)) = (first, n) {
                    v.push((r.t0, f, n));
                }
                rest = tail;
            }
        }
    }
    v
}


/// C14, commands the agent itself sends: per target (node, lane) the decoded `RequestMessage`
/// stream on the channel the runtime opened must contain every non-overwritable command exactly
/// once, nothing twice, in send order; an overwritable command may be missing only if a later
/// command to the same target exists.
pub fn check_agent_commands(obs: &Obs, targets: &[(Option<String>, String, String)], out: &mut CaseOut) -> (u64, u64, u64) {
    let quiescent_ok = obs.quiescent.is_some() && obs.stuck.is_empty();
    let agent_alive_at_q = match (obs.quiescent, obs.rec.stopped) {
        (Some(q), Some(st)) => st > q,
        (Some(_), None) => true,
        _ => false,
    };
    let q = obs.quiescent.unwrap_or(u64::MAX);
    let mut received_total = 0u64;
    let mut superseded = 0u64;
    let mut batches_shared = 0u64;
    out.events += obs.target_frames.len() as u64;
    // A frame must be a command, addressed to a known target.
    for f in &obs.target_frames {
        if f.corrupt {
            out.violation("C14", "agent-command/corrupt-frame", "the byte stream the runtime wrote to a command channel is not a sequence of well-formed command frames", json!({"error": f.lane}));
            continue;
        }
        if !f.is_command {
            out.violation("C14", "agent-command/non-command-frame", "a frame other than a command was written to a command channel", json!({"lane": f.lane}));
        }
        if !targets.iter().any(|(_, n, l)| *n == f.node && *l == f.lane) {
            out.violation("C14", "agent-command/unknown-target", "a command was forwarded to an address the agent never sent to", json!({"node": f.node, "lane": f.lane}));
        }
    }
    for (ti, (host, node, lane)) in targets.iter().enumerate() {
        // what the agent sent to this target, in handler order
        let sent: Vec<(u64, u64, u32)> = obs.rec.sent.iter().filter(|s| s.1 as usize == ti).map(|s| (s.0, s.2, s.3)).collect();
        let index: HashMap<u64, usize> = sent.iter().enumerate().map(|(i, s)| (s.1, i)).collect();
        let recv: Vec<&crate::run::TargetFrame> = obs.target_frames.iter().filter(|f| f.node == *node && f.lane == *lane && f.ticket < q).collect();
        received_total += recv.len() as u64;
        let mut seen: HashSet<u64> = HashSet::new();
        // order is checked per sending path: ad hoc sends and every registered commander handle are
        // different channels into the runtime, only each of them is ordered
        let mut last_on_path: HashMap<Option<u32>, usize> = HashMap::new();
        // further `Commander` handles of this target, created from equivalent spellings of its address
        let mut handles: HashSet<u32> = HashSet::new();
        for (_, _, mode) in &sent {
            if let Some(h) = send_handle(*mode) {
                handles.insert(h);
                if h > 0 {
                    out.count(&format!("agent-commands-sent-through-a-further-handle/{}", host_spelling(host, h).1));
                }
            }
        }
        if handles.len() > 1 {
            out.count("targets-sent-to-through-several-commander-handles");
        }
        for f in &recv {
            let v = parse_u64(&f.body);
            let Some(v) = v else {
                out.violation("C14", "agent-command/body-corrupt", "a forwarded command does not carry the value the agent sent", json!({"body": String::from_utf8_lossy(&f.body).chars().take(60).collect::<String>()}));
                continue;
            };
            match index.get(&v) {
                None => out.violation("C14", "agent-command/misdelivered-or-invented", "a command arrived at a target it was not sent to", json!({"value": v, "target": ti})),
                Some(&i) => {
                    if !seen.insert(v) {
                        out.violation(
                            "C14",
                            format!("agent-command/duplicated/{}", if host.is_some() { "remote-host" } else { "local" }),
                            "a command the agent sent once was forwarded more than once",
                            json!({"value": v, "target": ti, "mode": sent[i].2}),
                        );
                        continue;
                    }
                    let last = last_on_path.entry(send_handle(sent[i].2)).or_insert(i);
                    if i < *last {
                        out.violation("C14", "agent-command/reordered", "commands to one target were forwarded out of send order", json!({"value": v, "target": ti}));
                    }
                    *last = (*last).max(i);
                }
            }
        }
        if quiescent_ok && agent_alive_at_q {
            for (i, (_t, v, mode)) in sent.iter().enumerate() {
                if seen.contains(v) {
                    continue;
                }
                let later_exists = sent.iter().skip(i + 1).next().is_some();
                // (commands through a further handle of the target, mode >= 3, get a facet of their own: the
                // signatures of the traffic that existed before stay what they were)
                let facet = match send_handle(*mode) {
                    Some(h) if h > 0 => format!("/handle={}", host_spelling(host, h).1),
                    _ => String::new(),
                };
                if send_is_queued(*mode) {
                    out.violation("C14", format!("agent-command/queued-command-lost{facet}"), "a command sent with send_queued (never to be superseded) was not forwarded", json!({"value": v, "target": ti, "mode": mode, "handles_of_target": handles.len()}));
                } else if !later_exists {
                    out.violation("C14", format!("agent-command/last-command-lost{facet}"), "an overwritable command was dropped although no later command to the same target superseded it", json!({"value": v, "target": ti, "mode": mode, "handles_of_target": handles.len()}));
                } else {
                    superseded += 1;
                }
            }
        }
    }
    // how often two targets shared one channel (remote host): the branch that batches several targets
    let mut per_channel: HashMap<usize, HashSet<(String, String)>> = HashMap::new();
    for f in &obs.target_frames {
        per_channel.entry(f.target).or_default().insert((f.node.clone(), f.lane.clone()));
    }
    for set in per_channel.values() {
        if set.len() > 1 {
            batches_shared += 1;
        }
    }
    (received_total, superseded, batches_shared)
}
