//! The second agent type of the engine: `SelectAgent`, a *hand-written* `AgentSpec` with the same
//! items (names, kinds, ordinals, transient flags) as the derived `TestAgent`, whose value and map
//! lanes are served by the `*Select*` handler family - the handlers swimos_connector's generic agent
//! uses for lanes found through a projection closure:
//!
//! * commands to `v1`/`v2`: `decode_and_select_set` (`DecodeAndSelectSet` -> `ValueLaneSelectSet`);
//! * commands to `m1` (text keys) and `m2` (BTreeMap backing): `decode_and_select_apply`
//!   (`DecodeMapMessage` -> `MapLaneSelectUpdate/Remove/Clear`, `MapLaneSelectDropOrTake`);
//! * commands to `m3`: `decode_shared_and_select_apply` (`DecodeMapMessageShared`: one decoder for
//!   keys and values, which is why the lane is `MapLane<u64, u64>` here; the scripts only use
//!   non-negative keys, which read and print the same as `i32`);
//! * sync requests: `ValueLaneSelectSync` / `MapLaneSelectSync`.
//!
//! The supply lane, the command lane and the stores are served as the derive macro would serve them
//! (they are not part of this family), so every script of the engine can run against this agent.
//! The lifecycle is the same recorder as the derived agent's (`define_lifecycle!`), so the oracles
//! see the same kind of ground truth. `on_*` calls are counted so that the evidence shows which
//! handlers were built.

use std::borrow::Cow;
use std::collections::{BTreeMap, HashMap};
use std::sync::atomic::{AtomicU64, Ordering};
use std::sync::Arc;

use bytes::BytesMut;
use common::ticket;
use parking_lot::Mutex;
use swimos::agent::agent_lifecycle::HandlerContext;
use swimos::agent::commander::Commander;
use swimos::agent::event_handler::{BoxEventHandler, EventHandler, HandlerActionExt, Sequentially, UnitHandler};
use swimos::agent::lanes::{CommandLane, MapLane, SupplyLane, ValueLane};
use swimos::agent::stores::{MapStore, ValueStore};
use swimos::agent::{lifecycle, projections};
use swimos_agent::agent_model::{
    AgentDescription, AgentSpec, ItemDescriptor, ItemFlags, ItemSpec, MapLaneInitializer, MapLikeInitializer, MapStoreInitializer, StoreKind,
    ValueLaneInitializer, ValueLikeInitializer, ValueStoreInitializer, WarpLaneKind, WriteResult,
};
use swimos_agent::lanes::command::{decode_and_command, DecodeAndCommand};
use swimos_agent::lanes::map::{
    decode_and_select_apply, decode_shared_and_select_apply, DecodeAndSelectApply, DecodeSharedAndSelectApply, MapLaneSelectSync,
};
use swimos_agent::lanes::supply::SupplyLaneSync;
use swimos_agent::lanes::value::{decode_and_select_set, DecodeAndSelectSet, ValueLaneSelectSync};
use swimos_agent::lanes::{LaneItem, Selector, SelectorFn};
use swimos_agent::reexport::coproduct::{CNil, Coproduct};
use swimos_agent::stores::StoreItem;
use swimos_agent::ReconDecoder;
use swimos_agent_protocol::MapMessage;
use swimos_api::agent::HttpLaneRequest;
use uuid::Uuid;

use crate::agentdef::{define_lifecycle, key_of_m1, m1_key, Act, Cmd, MapEv, SharedRec, CMD, M1, M2, M3, S1, V1, V2};

/// How often the agent model asked this agent for a handler of the select family.
#[derive(Default, Debug)]
pub struct SelCounters {
    pub value_set: AtomicU64,
    pub map_update: AtomicU64,
    pub map_remove: AtomicU64,
    pub map_clear: AtomicU64,
    pub map_take: AtomicU64,
    pub map_drop: AtomicU64,
    /// Of the map commands: those of `m3`, decoded with the shared decoder.
    pub map_shared_decoder: AtomicU64,
    pub value_sync: AtomicU64,
    pub map_sync: AtomicU64,
}

impl SelCounters {
    pub fn snapshot(&self) -> Vec<(&'static str, u64)> {
        let g = |a: &AtomicU64| a.load(Ordering::Relaxed);
        vec![
            ("select/value-command(decode_and_select_set)", g(&self.value_set)),
            ("select/map-command-update", g(&self.map_update)),
            ("select/map-command-remove", g(&self.map_remove)),
            ("select/map-command-clear", g(&self.map_clear)),
            ("select/map-command-take", g(&self.map_take)),
            ("select/map-command-drop", g(&self.map_drop)),
            ("select/map-command-shared-decoder", g(&self.map_shared_decoder)),
            ("select/value-sync(ValueLaneSelectSync)", g(&self.value_sync)),
            ("select/map-sync(MapLaneSelectSync)", g(&self.map_sync)),
        ]
    }
}

#[projections]
pub struct SelectAgent {
    v1: ValueLane<u64>,
    v2: ValueLane<u64>,
    m1: MapLane<String, u64>,
    m2: MapLane<i32, u64, BTreeMap<i32, u64>>,
    m3: MapLane<u64, u64>,
    s1: SupplyLane<u64>,
    cmd: CommandLane<Cmd>,
    vs: ValueStore<u64>,
    ms: MapStore<String, u64>,
    vt: ValueStore<u64>,
    counters: Arc<SelCounters>,
}

// Item ids: the ordinals the derive macro gives the fields of `TestAgent` (declaration order).
const ID_V1: u64 = 0;
const ID_V2: u64 = 1;
const ID_M1: u64 = 2;
const ID_M2: u64 = 3;
const ID_M3: u64 = 4;
const ID_S1: u64 = 5;
const ID_CMD: u64 = 6;
const ID_VS: u64 = 7;
const ID_MS: u64 = 8;
const ID_VT: u64 = 9;

const VS: &str = "vs";
const MS: &str = "ms";
const VT: &str = "vt";

impl SelectAgent {
    pub fn new(counters: Arc<SelCounters>) -> Self {
        SelectAgent {
            v1: ValueLane::new(ID_V1, Default::default()),
            v2: ValueLane::new(ID_V2, Default::default()),
            m1: MapLane::new(ID_M1, Default::default()),
            m2: MapLane::new(ID_M2, Default::default()),
            m3: MapLane::new(ID_M3, Default::default()),
            s1: SupplyLane::new(ID_S1),
            cmd: CommandLane::new(ID_CMD),
            vs: ValueStore::new(ID_VS, Default::default()),
            ms: MapStore::new(ID_MS, Default::default()),
            vt: ValueStore::new(ID_VT, Default::default()),
            counters,
        }
    }
}

impl AgentDescription for SelectAgent {
    fn item_name(&self, id: u64) -> Option<Cow<'_, str>> {
        let name = match id {
            ID_V1 => V1,
            ID_V2 => V2,
            ID_M1 => M1,
            ID_M2 => M2,
            ID_M3 => M3,
            ID_S1 => S1,
            ID_CMD => CMD,
            ID_VS => VS,
            ID_MS => MS,
            ID_VT => VT,
            _ => return None,
        };
        Some(Cow::Borrowed(name))
    }
}

/// A lane that may or may not be there (here it always is: the lanes are plain fields).
pub struct FieldSelector<'a, L> {
    lane: Option<&'a L>,
    name: &'static str,
}

impl<'a, L> Selector for FieldSelector<'a, L> {
    type Target = L;

    fn select(&self) -> Option<&L> {
        self.lane
    }

    fn name(&self) -> &str {
        self.name
    }
}

/// Selects `v1` (0) or `v2` (1).
#[derive(Debug, Clone, Copy)]
pub struct ValueSel(pub u8);

impl SelectorFn<SelectAgent> for ValueSel {
    type Target = ValueLane<u64>;

    fn name(&self) -> &str {
        if self.0 == 0 {
            V1
        } else {
            V2
        }
    }

    fn selector<'a>(&'a self, context: &'a SelectAgent) -> impl Selector<Target = Self::Target> + 'a {
        if self.0 == 0 {
            FieldSelector { lane: Some(&context.v1), name: V1 }
        } else {
            FieldSelector { lane: Some(&context.v2), name: V2 }
        }
    }
}

macro_rules! map_selector {
    ($name:ident, $field:ident, $lane:expr, $target:ty) => {
        #[derive(Debug, Clone, Copy)]
        pub struct $name;

        impl SelectorFn<SelectAgent> for $name {
            type Target = $target;

            fn name(&self) -> &str {
                $lane
            }

            fn selector<'a>(&'a self, context: &'a SelectAgent) -> impl Selector<Target = Self::Target> + 'a {
                FieldSelector { lane: Some(&context.$field), name: $lane }
            }
        }
    };
}

map_selector!(M1Sel, m1, M1, MapLane<String, u64>);
map_selector!(M2Sel, m2, M2, MapLane<i32, u64, BTreeMap<i32, u64>>);
map_selector!(M3Sel, m3, M3, MapLane<u64, u64>);

#[derive(Default)]
pub struct SelectDeserializers {
    value: ReconDecoder<u64>,
    cmd: ReconDecoder<Cmd>,
    m1_key: ReconDecoder<String>,
    m1_value: ReconDecoder<u64>,
    m2_key: ReconDecoder<i32>,
    m2_value: ReconDecoder<u64>,
    /// keys *and* values of `m3`
    m3_shared: ReconDecoder<u64>,
}

type ValCmd<'a> = Coproduct<DecodeAndSelectSet<'a, SelectAgent, u64, ValueSel>, Coproduct<DecodeAndCommand<'a, SelectAgent, Cmd>, CNil>>;
type MapCmd<'a> = Coproduct<
    DecodeAndSelectApply<'a, SelectAgent, String, u64, M1Sel>,
    Coproduct<DecodeAndSelectApply<'a, SelectAgent, i32, u64, M2Sel>, Coproduct<DecodeSharedAndSelectApply<'a, SelectAgent, u64, M3Sel>, CNil>>,
>;
type SyncH = Coproduct<
    ValueLaneSelectSync<SelectAgent, u64, ValueSel>,
    Coproduct<
        MapLaneSelectSync<SelectAgent, String, u64, M1Sel>,
        Coproduct<
            MapLaneSelectSync<SelectAgent, i32, u64, M2Sel>,
            Coproduct<MapLaneSelectSync<SelectAgent, u64, u64, M3Sel>, Coproduct<SupplyLaneSync<SelectAgent, u64>, Coproduct<UnitHandler, CNil>>>,
        >,
    >,
>;

fn inr<A, B>(b: B) -> Coproduct<A, B> {
    Coproduct::Inr(b)
}

impl AgentSpec for SelectAgent {
    type ValCommandHandler<'a> = ValCmd<'a>
    where
        Self: 'a;

    type MapCommandHandler<'a> = MapCmd<'a>
    where
        Self: 'a;

    type OnSyncHandler = SyncH;

    type HttpRequestHandler = UnitHandler;

    type Deserializers = SelectDeserializers;

    fn initialize_deserializers(&self) -> Self::Deserializers {
        SelectDeserializers::default()
    }

    fn item_specs() -> HashMap<&'static str, ItemSpec> {
        let lane = |kind, transient: bool| ItemDescriptor::WarpLane { kind, flags: if transient { ItemFlags::TRANSIENT } else { ItemFlags::empty() } };
        let store = |kind, transient: bool| ItemDescriptor::Store { kind, flags: if transient { ItemFlags::TRANSIENT } else { ItemFlags::empty() } };
        let mut items = HashMap::new();
        items.insert(V1, ItemSpec::new(ID_V1, V1, lane(WarpLaneKind::Value, false)));
        items.insert(V2, ItemSpec::new(ID_V2, V2, lane(WarpLaneKind::Value, true)));
        items.insert(M1, ItemSpec::new(ID_M1, M1, lane(WarpLaneKind::Map, false)));
        items.insert(M2, ItemSpec::new(ID_M2, M2, lane(WarpLaneKind::Map, false)));
        items.insert(M3, ItemSpec::new(ID_M3, M3, lane(WarpLaneKind::Map, true)));
        items.insert(S1, ItemSpec::new(ID_S1, S1, lane(WarpLaneKind::Supply, true)));
        items.insert(CMD, ItemSpec::new(ID_CMD, CMD, lane(WarpLaneKind::Command, true)));
        items.insert(VS, ItemSpec::new(ID_VS, VS, store(StoreKind::Value, false)));
        items.insert(MS, ItemSpec::new(ID_MS, MS, store(StoreKind::Map, false)));
        items.insert(VT, ItemSpec::new(ID_VT, VT, store(StoreKind::Value, true)));
        items
    }

    fn on_value_command<'a>(&self, deserializers: &'a mut Self::Deserializers, lane: &str, body: BytesMut) -> Option<Self::ValCommandHandler<'a>> {
        match lane {
            V1 | V2 => {
                self.counters.value_set.fetch_add(1, Ordering::Relaxed);
                let sel = ValueSel(if lane == V1 { 0 } else { 1 });
                Some(Coproduct::Inl(decode_and_select_set(&mut deserializers.value, body, sel)))
            }
            CMD => Some(inr(Coproduct::Inl(decode_and_command(&mut deserializers.cmd, body, |agent: &SelectAgent| &agent.cmd)))),
            _ => None,
        }
    }

    fn init_value_like_item(&self, item: &str) -> Option<ValueLikeInitializer<Self>>
    where
        Self: 'static,
    {
        // as derived: every stateful (non-transient) value-like item
        match item {
            V1 => Some(Box::new(ValueLaneInitializer::new(|agent: &SelectAgent| &agent.v1))),
            VS => Some(Box::new(ValueStoreInitializer::new(|agent: &SelectAgent| &agent.vs))),
            _ => None,
        }
    }

    fn init_map_like_item(&self, item: &str) -> Option<MapLikeInitializer<Self>>
    where
        Self: 'static,
    {
        match item {
            M1 => Some(Box::new(MapLaneInitializer::new(|agent: &SelectAgent| &agent.m1))),
            M2 => Some(Box::new(MapLaneInitializer::new(|agent: &SelectAgent| &agent.m2))),
            MS => Some(Box::new(MapStoreInitializer::new(|agent: &SelectAgent| &agent.ms))),
            _ => None,
        }
    }

    fn on_map_command<'a>(&self, deserializers: &'a mut Self::Deserializers, lane: &str, body: MapMessage<BytesMut, BytesMut>) -> Option<Self::MapCommandHandler<'a>> {
        if !matches!(lane, M1 | M2 | M3) {
            return None;
        }
        let c = &self.counters;
        let counter = match &body {
            MapMessage::Update { .. } => &c.map_update,
            MapMessage::Remove { .. } => &c.map_remove,
            MapMessage::Clear => &c.map_clear,
            MapMessage::Take(_) => &c.map_take,
            MapMessage::Drop(_) => &c.map_drop,
        };
        counter.fetch_add(1, Ordering::Relaxed);
        let SelectDeserializers { m1_key, m1_value, m2_key, m2_value, m3_shared, .. } = deserializers;
        match lane {
            M1 => Some(Coproduct::Inl(decode_and_select_apply(m1_key, m1_value, body, M1Sel))),
            M2 => Some(inr(Coproduct::Inl(decode_and_select_apply(m2_key, m2_value, body, M2Sel)))),
            _ => {
                c.map_shared_decoder.fetch_add(1, Ordering::Relaxed);
                Some(inr(inr(Coproduct::Inl(decode_shared_and_select_apply(m3_shared, body, M3Sel)))))
            }
        }
    }

    fn on_sync(&self, lane: &str, id: Uuid) -> Option<Self::OnSyncHandler> {
        let c = &self.counters;
        match lane {
            V1 | V2 => {
                c.value_sync.fetch_add(1, Ordering::Relaxed);
                Some(Coproduct::Inl(ValueLaneSelectSync::new(ValueSel(if lane == V1 { 0 } else { 1 }), id)))
            }
            M1 => {
                c.map_sync.fetch_add(1, Ordering::Relaxed);
                Some(inr(Coproduct::Inl(MapLaneSelectSync::new(M1Sel, id))))
            }
            M2 => {
                c.map_sync.fetch_add(1, Ordering::Relaxed);
                Some(inr(inr(Coproduct::Inl(MapLaneSelectSync::new(M2Sel, id)))))
            }
            M3 => {
                c.map_sync.fetch_add(1, Ordering::Relaxed);
                Some(inr(inr(inr(Coproduct::Inl(MapLaneSelectSync::new(M3Sel, id))))))
            }
            S1 => Some(inr(inr(inr(inr(Coproduct::Inl(SupplyLaneSync::new(|agent: &SelectAgent| &agent.s1, id))))))),
            CMD => Some(inr(inr(inr(inr(inr(Coproduct::Inl(UnitHandler::default()))))))),
            _ => None,
        }
    }

    fn on_http_request(&self, _lane: &str, request: HttpLaneRequest) -> Result<Self::HttpRequestHandler, HttpLaneRequest> {
        Err(request)
    }

    fn write_event(&self, lane: &str, buffer: &mut BytesMut) -> Option<WriteResult> {
        match lane {
            V1 => Some(LaneItem::write_to_buffer(&self.v1, buffer)),
            V2 => Some(LaneItem::write_to_buffer(&self.v2, buffer)),
            M1 => Some(LaneItem::write_to_buffer(&self.m1, buffer)),
            M2 => Some(LaneItem::write_to_buffer(&self.m2, buffer)),
            M3 => Some(LaneItem::write_to_buffer(&self.m3, buffer)),
            S1 => Some(LaneItem::write_to_buffer(&self.s1, buffer)),
            CMD => Some(LaneItem::write_to_buffer(&self.cmd, buffer)),
            VS => Some(StoreItem::write_to_buffer(&self.vs, buffer)),
            MS => Some(StoreItem::write_to_buffer(&self.ms, buffer)),
            VT => Some(StoreItem::write_to_buffer(&self.vt, buffer)),
            _ => None,
        }
    }
}

define_lifecycle!(SelectLifecycle, SelectAgent, u64);
