//! C20, small scope: the link registry `Links` with real `UplinkReporter`s against a reference set
//! of (lane, remote) pairs, and the lock-free counters under concurrent counting.
//!
//! Operations mirror how the runtime's write task uses the registry:
//!  * `register(l)`   – `register_reporter` for a lane without links (the runtime registers the
//!    reporter when the lane is created, before any link can exist);
//!  * `insert`, `remove`, `remove_remote`, `remove_lane`, `remove_all_links` (iterators consumed);
//!  * `count_broadcast(l)` – an event sent to every link of `l`: |links(l)| deliveries;
//!  * `count_single(l)`    – an event sent to one link of `l` (only generated while `l` has a link);
//!  * `targeted(l, r)`     – what `handle_event` does for a targeted response: implicit insert, then `count_single(l)`,
//!    then the implicit `insert(l, r)` if `r` is not linked: one delivery either way.
//!
//! After every operation every registered lane reader and the aggregate reader are snapshotted:
//! `link_count` must equal the model, and the running sum of `event_count` must equal the number
//! of deliveries the model computed; the three queries must agree with the model.

use std::collections::{BTreeMap, BTreeSet, HashSet};
use std::sync::atomic::{AtomicBool, Ordering};
use std::sync::Arc;

use common::{json, CaseOut, Rng, Session};
use swimos_runtime::agent::reporting::{UplinkReportReader, UplinkReporter};
use swimos_runtime::verif_hooks::Links;
use uuid::Uuid;

use crate::{depth, wanted, Shortest};

const P: &str = "C20";
const LANES: u8 = 3;
const REMOTES: u8 = 4;

#[derive(Clone, Copy, Debug, PartialEq, Eq, Hash)]
pub enum LOp {
    Register(u8),
    Insert(u8, u8),
    Remove(u8, u8),
    RemoveRemote(u8),
    RemoveLane(u8),
    RemoveAll,
    CountSingle(u8),
    CountBroadcast(u8),
    Targeted(u8, u8),
}

impl LOp {
    fn name(&self) -> &'static str {
        match self {
            LOp::Register(_) => "register_reporter",
            LOp::Insert(..) => "insert",
            LOp::Remove(..) => "remove",
            LOp::RemoveRemote(_) => "remove_remote",
            LOp::RemoveLane(_) => "remove_lane",
            LOp::RemoveAll => "remove_all_links",
            LOp::CountSingle(_) => "count_single",
            LOp::CountBroadcast(_) => "count_broadcast",
            LOp::Targeted(..) => "targeted",
        }
    }

    fn lane(&self) -> Option<u8> {
        match self {
            LOp::Register(l) | LOp::Insert(l, _) | LOp::Remove(l, _) | LOp::RemoveLane(l) | LOp::CountSingle(l) | LOp::CountBroadcast(l) | LOp::Targeted(l, _) => Some(*l),
            _ => None,
        }
    }

    fn remote(&self) -> Option<u8> {
        match self {
            LOp::Insert(_, r) | LOp::Remove(_, r) | LOp::RemoveRemote(r) | LOp::Targeted(_, r) => Some(*r),
            _ => None,
        }
    }
}

fn show(op: &LOp) -> String {
    match op {
        LOp::Register(l) => format!("register(l{l})"),
        LOp::Insert(l, r) => format!("insert(l{l},r{r})"),
        LOp::Remove(l, r) => format!("remove(l{l},r{r})"),
        LOp::RemoveRemote(r) => format!("remove_remote(r{r})"),
        LOp::RemoveLane(l) => format!("remove_lane(l{l})"),
        LOp::RemoveAll => "remove_all_links".to_string(),
        LOp::CountSingle(l) => format!("count_single(l{l})"),
        LOp::CountBroadcast(l) => format!("count_broadcast(l{l})"),
        LOp::Targeted(l, r) => format!("targeted(l{l},r{r})"),
    }
}

fn show_ops(ops: &[LOp]) -> String {
    ops.iter().map(show).collect::<Vec<_>>().join(" ")
}

fn lane_id(l: u8) -> u64 {
    // Not 0,1,2: ids are arbitrary to the registry.
    [7, 38, 999][l as usize]
}

fn remote_id(r: u8) -> Uuid {
    Uuid::from_u128([567u128, 97263, 111, 0xffff_0000_1234][r as usize])
}

/// Reference state: set of links and which lanes have a reporter (small enough to copy around).
#[derive(Clone, Copy, Default, PartialEq, Eq)]
struct Model {
    links: u16,
    registered: u8,
}

impl Model {
    fn bit(l: u8, r: u8) -> u16 {
        1 << (l * REMOTES + r)
    }
    fn has(&self, l: u8, r: u8) -> bool {
        self.links & Self::bit(l, r) != 0
    }
    fn lane_mask(l: u8) -> u16 {
        ((1u16 << REMOTES) - 1) << (l * REMOTES)
    }
    fn lane_count(&self, l: u8) -> u64 {
        (self.links & Self::lane_mask(l)).count_ones() as u64
    }
    fn remote_mask(r: u8) -> u16 {
        (0..LANES).fold(0, |m, l| m | Self::bit(l, r))
    }
    fn remote_count(&self, r: u8) -> u64 {
        (self.links & Self::remote_mask(r)).count_ones() as u64
    }
    fn total(&self) -> u64 {
        self.links.count_ones() as u64
    }
    fn is_registered(&self, l: u8) -> bool {
        self.registered & (1 << l) != 0
    }

    /// Is the operation one the runtime can issue in this state?
    fn valid(&self, op: LOp) -> bool {
        match op {
            LOp::Register(l) => !self.is_registered(l) && self.lane_count(l) == 0,
            LOp::CountSingle(l) => self.lane_count(l) > 0,
            _ => true,
        }
    }

    /// Apply; returns the number of (event, link) deliveries of the operation.
    fn apply(&mut self, op: LOp) -> u64 {
        match op {
            LOp::Register(l) => {
                self.registered |= 1 << l;
                0
            }
            LOp::Insert(l, r) => {
                self.links |= Self::bit(l, r);
                0
            }
            LOp::Remove(l, r) => {
                self.links &= !Self::bit(l, r);
                0
            }
            LOp::RemoveRemote(r) => {
                self.links &= !Self::remote_mask(r);
                0
            }
            LOp::RemoveLane(l) => {
                // The lane is gone and its reporter with it (documented by `removing_lane_drops_reporter`).
                self.links &= !Self::lane_mask(l);
                self.registered &= !(1 << l);
                0
            }
            LOp::RemoveAll => {
                self.links = 0;
                0
            }
            LOp::CountSingle(_) => 1,
            LOp::CountBroadcast(l) => self.lane_count(l),
            LOp::Targeted(l, r) => {
                self.links |= Self::bit(l, r);
                1
            }
        }
    }
}

/// Why the registry may hold no entry for a lane (label for signatures only, never a verdict).
#[derive(Clone, Copy, PartialEq, Eq)]
enum Entry {
    NeverCreated,
    Present,
    AfterRemoveRemote,
}

impl Entry {
    fn label(&self) -> &'static str {
        match self {
            Entry::NeverCreated => "never-created",
            Entry::Present => "present",
            Entry::AfterRemoveRemote => "deleted-by-remove_remote",
        }
    }
}

struct Exec {
    links: Links,
    model: Model,
    has_aggregate: bool,
    agg_reader: UplinkReportReader,
    lane_readers: [Option<UplinkReportReader>; LANES as usize],
    /// The lane's reporter was found dropped although the lane was never removed: reported once,
    /// then the lane's reader is left alone.
    reporter_lost: [bool; LANES as usize],
    entry: [Entry; LANES as usize],
    lane_expected: [u64; LANES as usize],
    lane_seen: [u64; LANES as usize],
    agg_expected: u64,
    agg_seen: u64,
    snapshots: u64,
    deliveries: u64,
    found: Vec<(String, String)>,
}

impl Exec {
    fn new(with_aggregate: bool) -> Exec {
        let agg = UplinkReporter::default();
        let agg_reader = agg.reader();
        Exec {
            links: Links::new(if with_aggregate { Some(agg) } else { None }),
            model: Model::default(),
            has_aggregate: with_aggregate,
            agg_reader,
            lane_readers: [None, None, None],
            reporter_lost: [false; LANES as usize],
            entry: [Entry::NeverCreated; LANES as usize],
            lane_expected: [0; LANES as usize],
            lane_seen: [0; LANES as usize],
            agg_expected: 0,
            agg_seen: 0,
            snapshots: 0,
            deliveries: 0,
            found: Vec::new(),
        }
    }

    fn fail(&mut self, sig: String, what: String) {
        if !self.found.iter().any(|(s, _)| *s == sig) {
            self.found.push((sig, what));
        }
    }

    fn step(&mut self, op: LOp) {
        let before = self.model;
        // Label of the lane's entry before the operation (what count_single finds).
        let entry_before = op.lane().map(|l| self.entry[l as usize]);
        let mut after = self.model;
        let delivered = after.apply(op);
        // Qualifier: did the operation take away the last link of some lane?
        let emptied_a_lane = (0..LANES).any(|l| before.lane_count(l) > 0 && after.lane_count(l) == 0);
        match op {
            LOp::Register(l) => {
                let rep = UplinkReporter::default();
                self.lane_readers[l as usize] = Some(rep.reader());
                self.reporter_lost[l as usize] = false;
                self.lane_expected[l as usize] = 0;
                self.lane_seen[l as usize] = 0;
                self.links.register_reporter(lane_id(l), rep);
                self.entry[l as usize] = Entry::Present;
            }
            LOp::Insert(l, r) => {
                self.links.insert(lane_id(l), remote_id(r));
                self.entry[l as usize] = Entry::Present;
            }
            LOp::Remove(l, r) => {
                let t = self.links.remove(lane_id(l), remote_id(r));
                // Prune is due exactly when this took the remote's last link away.
                let expect_prune = before.has(l, r) && after.remote_count(r) == 0;
                if t.remote_id != remote_id(r) || t.schedule_prune != expect_prune {
                    self.fail(
                        format!("trigger-unlink/remove/schedule_prune={}-expected-{}", t.schedule_prune, expect_prune),
                        format!("remove(l{l}, r{r}) returned {t:?}; the remote has {} links left and was {}linked to the lane", after.remote_count(r), if before.has(l, r) { "" } else { "not " }),
                    );
                }
            }
            LOp::RemoveRemote(r) => {
                self.links.remove_remote(remote_id(r));
                for l in 0..LANES {
                    if before.lane_count(l) > 0 && after.lane_count(l) == 0 {
                        self.entry[l as usize] = Entry::AfterRemoveRemote;
                    }
                }
            }
            LOp::RemoveLane(l) => {
                let got: Vec<_> = self.links.remove_lane(lane_id(l)).collect();
                let got_ids: BTreeSet<Uuid> = got.iter().map(|t| t.remote_id).collect();
                let want: BTreeSet<Uuid> = (0..REMOTES).filter(|r| before.has(l, *r)).map(remote_id).collect();
                if got_ids != want || got.len() != want.len() {
                    self.fail("trigger-unlink/remove_lane/wrong-remotes".into(), format!("remove_lane(l{l}) named {} remotes, {} were linked", got.len(), want.len()));
                } else {
                    for t in &got {
                        let r = (0..REMOTES).find(|r| remote_id(*r) == t.remote_id).unwrap_or(0);
                        let expect_prune = after.remote_count(r) == 0;
                        if t.schedule_prune != expect_prune {
                            self.fail(
                                format!("trigger-unlink/remove_lane/schedule_prune={}-expected-{}", t.schedule_prune, expect_prune),
                                format!("remove_lane(l{l}) returned {t:?}; r{r} has {} links left", after.remote_count(r)),
                            );
                        }
                    }
                }
                self.lane_readers[l as usize] = None;
                // The lane is gone; if the id is used again it is a new lane without a reporter.
                self.entry[l as usize] = Entry::NeverCreated;
            }
            LOp::RemoveAll => {
                let got: BTreeSet<(u64, Uuid)> = self.links.remove_all_links().collect();
                let want: BTreeSet<(u64, Uuid)> = (0..LANES).flat_map(|l| (0..REMOTES).map(move |r| (l, r))).filter(|(l, r)| before.has(*l, *r)).map(|(l, r)| (lane_id(l), remote_id(r))).collect();
                if got != want {
                    self.fail("remove-all-links/wrong-pairs".into(), format!("remove_all_links yielded {} pairs, {} links existed", got.len(), want.len()));
                }
            }
            LOp::CountSingle(l) => self.links.count_single(lane_id(l)),
            LOp::CountBroadcast(l) => self.links.count_broadcast(lane_id(l)),
            LOp::Targeted(l, r) => {
                // As `WriteTaskState::handle_event` for a targeted response: the implicit link is
                // made first, then the response is counted.
                if !self.links.is_linked(remote_id(r), lane_id(l)) {
                    self.links.insert(lane_id(l), remote_id(r));
                }
                self.links.count_single(lane_id(l));
                self.entry[l as usize] = Entry::Present;
            }
        }
        self.model = after;
        self.deliveries += delivered;
        if delivered > 0 {
            if let Some(l) = op.lane() {
                if self.model.is_registered(l) {
                    self.lane_expected[l as usize] += delivered;
                }
            }
            self.agg_expected += delivered;
        }
        let ctx = Ctx { op, emptied_a_lane, entry_before: entry_before.map(|e| e.label()).unwrap_or("n/a"), implicit: matches!(op, LOp::Targeted(l, r) if !before.has(l, r)) };
        self.check(&ctx);
    }

    fn check(&mut self, c: &Ctx) {
        let after = c.op.name();
        let qual = if c.emptied_a_lane { "/took-last-link-of-a-lane" } else { "" };
        for l in 0..LANES {
            let lu = l as usize;
            if !self.model.is_registered(l) || self.reporter_lost[lu] {
                continue;
            }
            let snap = self.lane_readers[lu].as_ref().and_then(|r| r.snapshot());
            self.snapshots += 1;
            match snap {
                None => {
                    self.reporter_lost[lu] = true;
                    self.fail(
                        format!("lane-reporter-dropped/after={after}{qual}"),
                        format!("the reporter registered for l{l} was dropped by {} although the lane was not removed: its links and events are no longer reported", show(&c.op)),
                    );
                }
                Some(s) => {
                    let want = self.model.lane_count(l);
                    if s.link_count != want {
                        let dir = if s.link_count < want { "under" } else { "over" };
                        self.fail(format!("link-count/lane/{dir}/after={after}{qual}"), format!("after {} the reader of l{l} reports {} links, {} remotes are linked", show(&c.op), s.link_count, want));
                    }
                    if self.has_aggregate {
                        self.lane_seen[lu] += s.event_count;
                        if self.lane_seen[lu] != self.lane_expected[lu] {
                            let dir = if self.lane_seen[lu] < self.lane_expected[lu] { "lost" } else { "excess" };
                            self.fail(
                                format!("event-count/lane/{dir}/after={after}/lane-entry={}", c.entry_before),
                                format!("after {} the snapshots of l{l} sum to {} events, {} deliveries were made", show(&c.op), self.lane_seen[lu], self.lane_expected[lu]),
                            );
                            self.lane_seen[lu] = self.lane_expected[lu];
                        }
                    }
                }
            }
        }
        if self.has_aggregate {
            self.snapshots += 1;
            match self.agg_reader.snapshot() {
                None => self.fail("aggregate-reporter-dropped".into(), "the aggregate reporter was dropped by the registry".into()),
                Some(s) => {
                    let want = self.model.total();
                    if s.link_count != want {
                        let dir = if s.link_count < want { "under" } else { "over" };
                        self.fail(format!("link-count/aggregate/{dir}/after={after}{qual}"), format!("after {} the aggregate reader reports {} links, {} exist", show(&c.op), s.link_count, want));
                    }
                    self.agg_seen += s.event_count;
                    if self.agg_seen != self.agg_expected {
                        let dir = if self.agg_seen < self.agg_expected { "lost" } else { "excess" };
                        let imp = if c.implicit { "/before-implicit-link" } else { "" };
                        self.fail(
                            format!("event-count/aggregate/{dir}/after={after}{imp}/lane-entry={}", c.entry_before),
                            format!("after {} the aggregate snapshots sum to {} events, {} deliveries were made", show(&c.op), self.agg_seen, self.agg_expected),
                        );
                        self.agg_seen = self.agg_expected;
                    }
                }
            }
        }
        // Queries.
        for l in 0..LANES {
            let want: HashSet<Uuid> = (0..REMOTES).filter(|r| self.model.has(l, *r)).map(remote_id).collect();
            let got = self.links.linked_from(lane_id(l)).cloned().unwrap_or_default();
            let none_ok = self.links.linked_from(lane_id(l)).is_some() == !want.is_empty();
            if got != want || !none_ok {
                self.fail(format!("query/linked_from/after={after}{qual}"), format!("after {} linked_from(l{l}) has {} remotes, the model {}", show(&c.op), got.len(), want.len()));
            }
            for r in 0..REMOTES {
                if self.links.is_linked(remote_id(r), lane_id(l)) != self.model.has(l, r) {
                    self.fail(format!("query/is_linked/after={after}{qual}"), format!("after {} is_linked(r{r}, l{l}) = {}", show(&c.op), !self.model.has(l, r)));
                }
            }
        }
        for r in 0..REMOTES {
            let want: HashSet<u64> = (0..LANES).filter(|l| self.model.has(*l, r)).map(lane_id).collect();
            let got = self.links.linked_to(remote_id(r)).cloned().unwrap_or_default();
            // A remote without links must read as `None`: `remove_remote_if_idle` relies on it.
            let none_ok = self.links.linked_to(remote_id(r)).is_some() == !want.is_empty();
            if got != want || !none_ok {
                self.fail(format!("query/linked_to/after={after}{qual}"), format!("after {} linked_to(r{r}) = {:?}, the model has {} lanes", show(&c.op), self.links.linked_to(remote_id(r)), want.len()));
            }
        }
    }
}

struct Ctx {
    op: LOp,
    emptied_a_lane: bool,
    entry_before: &'static str,
    implicit: bool,
}

#[derive(Default)]
struct Acc {
    sequences: u64,
    snapshots: u64,
    deliveries: u64,
    found: BTreeMap<String, (Vec<LOp>, String, u64)>,
}

fn run_one(ops: &[LOp], with_aggregate: bool, acc: &mut Acc) {
    let mut ex = Exec::new(with_aggregate);
    for (i, op) in ops.iter().enumerate() {
        let n = ex.found.len();
        ex.step(*op);
        // A witness is the sequence up to the operation that showed the violation.
        for (sig, what) in ex.found[n..].iter() {
            let e = acc.found.entry(sig.clone()).or_insert_with(|| (ops[..=i].to_vec(), what.clone(), 0));
            e.2 += 1;
            if i + 1 < e.0.len() {
                e.0 = ops[..=i].to_vec();
                e.1 = what.clone();
            }
        }
    }
    acc.sequences += 1;
    acc.snapshots += ex.snapshots;
    acc.deliveries += ex.deliveries;
}

fn report(out: &mut CaseOut, acc: Acc, with_aggregate: bool) {
    out.events += acc.snapshots;
    out.add("sequences", acc.sequences);
    out.add("snapshots", acc.snapshots);
    out.add("deliveries-counted", acc.deliveries);
    for (sig, (ops, what, count)) in acc.found {
        out.violation(P, sig, format!("{what} [sequence: {}]", show_ops(&ops)), json!({"sequence": show_ops(&ops), "aggregate_reporter": with_aggregate, "sequences_with_this_signature_in_case": count}));
    }
}

/// Operations enabled in a state, up to renaming: a lane / remote index may be used only if all
/// smaller indices were used before (ids are opaque to the registry, so renamings are the same
/// execution).
fn enabled(m: &Model, max_lane: i8, max_remote: i8) -> Vec<LOp> {
    let nl = ((max_lane + 2) as u8).min(LANES);
    let nr = ((max_remote + 2) as u8).min(REMOTES);
    let mut a = Vec::new();
    for l in 0..nl {
        a.push(LOp::Register(l));
        a.push(LOp::RemoveLane(l));
        a.push(LOp::CountSingle(l));
        a.push(LOp::CountBroadcast(l));
        for r in 0..nr {
            a.push(LOp::Insert(l, r));
            a.push(LOp::Remove(l, r));
            a.push(LOp::Targeted(l, r));
        }
    }
    for r in 0..nr {
        a.push(LOp::RemoveRemote(r));
    }
    a.push(LOp::RemoveAll);
    a.retain(|op| m.valid(*op));
    a
}

/// Only maximal sequences are run: every reader and query is checked after every operation, so
/// a shorter sequence is judged in full as a prefix (there is no end-of-run obligation).
fn explore(seq: &mut Vec<LOp>, m: Model, ml: i8, mr: i8, d: usize, acc: &mut Acc) {
    if seq.len() == d {
        run_one(seq, true, acc);
        return;
    }
    for op in enabled(&m, ml, mr) {
        let mut m2 = m;
        m2.apply(op);
        seq.push(op);
        explore(seq, m2, ml.max(op.lane().map_or(-1, |l| l as i8)), mr.max(op.remote().map_or(-1, |r| r as i8)), d, acc);
        seq.pop();
    }
}

pub fn run(s: &mut Session) {
    if wanted(s, "links-exhaustive") {
        let d = depth(s, 5, 6);
        let plen = 2.min(d);
        let mut prefixes: Vec<(Vec<LOp>, Model, i8, i8)> = vec![(vec![], Model::default(), -1, -1)];
        for _ in 0..plen {
            prefixes = prefixes
                .iter()
                .flat_map(|(p, m, ml, mr)| {
                    enabled(m, *ml, *mr).into_iter().map(move |op| {
                        let mut q = p.clone();
                        q.push(op);
                        let mut m2 = *m;
                        m2.apply(op);
                        (q, m2, (*ml).max(op.lane().map_or(-1, |l| l as i8)), (*mr).max(op.remote().map_or(-1, |r| r as i8)))
                    })
                })
                .collect();
        }
        let rule = format!(
            "every sequence of length {d} of register/insert/remove/remove_remote/remove_lane/remove_all_links/count_single/count_broadcast/targeted over 3 lanes x 4 remotes on a fresh Links with an aggregate reporter, up to renaming of lanes and remotes (an index is usable once all smaller ones were used); register only for a lane without links, count_single only for a lane with a link; all readers snapshotted and all queries compared after every operation; shorter sequences are prefixes; one case per valid prefix of length {plen}; non-trivial when events were counted in the subtree; distinct by prefix"
        );
        let shortest = Shortest::default();
        s.part("links-exhaustive", &rule, true, prefixes.len() as u64, |i, _rng, out| {
            let (p, m, ml, mr) = &prefixes[i as usize];
            let mut acc = Acc::default();
            let mut seq = p.clone();
            explore(&mut seq, *m, *ml, *mr, d, &mut acc);
            for (sig, (ops, _, _)) in &acc.found {
                shortest.offer(sig, ops.len(), &show_ops(ops));
            }
            out.sig(&show_ops(p));
            out.nontrivial = acc.deliveries > 0;
            if i < 3 {
                out.set_sample(json!({"prefix": show_ops(p), "sequences": acc.sequences, "snapshots": acc.snapshots}));
            }
            report(out, acc, true);
        });
        shortest.into_notes(s, "links-exhaustive");
    }

    if wanted(s, "links-random") {
        let cases = s.args.budget(20_000, 400_000);
        s.part(
            "links-random",
            "seeded sequences of 200 operations over 3 lanes x 4 remotes; lane reporters registered at a random point each (while the lane has no link) or never; 1 case in 8 without an aggregate reporter (then only link counts and queries are judged: the registry counts no events at all without an aggregate, a configuration the runtime never builds); operation mix drawn per case; non-trivial when links were removed by at least three different paths and events were counted; distinct by hash of the sequence",
            false,
            cases,
            |i, rng, out| random_case(i, rng, out),
        );
    }

    if wanted(s, "counters-threads") {
        let cases = s.args.budget(40, 4_000);
        let small = s.args.scale < 0.2;
        s.part(
            "counters-threads",
            "2-4 OS threads call count_events/count_commands on clones of one UplinkReporter (amounts 0-3, a seeded number of calls each) and one thread set_uplinks with increasing values while another thread takes snapshots through the reader; at the end one more snapshot: the sum of all snapshots' event/command counts equals the sum of all increments exactly, and the link counts read never decrease; non-trivial when at least two snapshots saw a non-zero count; distinct by case",
            false,
            cases,
            |_i, rng, out| threads_case(rng, out, small),
        );
    }
}

fn random_case(i: u64, rng: &mut Rng, out: &mut CaseOut) {
    let with_aggregate = i % 8 != 7;
    let len = 200;
    // Registration point per lane: an operation index, or never.
    let reg_at: Vec<Option<usize>> = (0..LANES).map(|_| if rng.chance(1, 6) { None } else if rng.chance(1, 2) { Some(0) } else { Some(rng.usize_below(len / 2)) }).collect();
    let w_insert = *rng.pick(&[3u64, 5, 8]);
    let w_remove = *rng.pick(&[1u64, 3, 5]);
    let w_big = *rng.pick(&[1u64, 2, 4]);
    let w_count = *rng.pick(&[2u64, 5]);
    let mut m = Model::default();
    let mut ops: Vec<LOp> = Vec::with_capacity(len);
    let mut paths: BTreeSet<&'static str> = BTreeSet::new();
    while ops.len() < len {
        // Due registrations first (only possible while the lane has no link).
        let mut registered_now = false;
        for l in 0..LANES {
            if let Some(at) = reg_at[l as usize] {
                if ops.len() >= at && m.valid(LOp::Register(l)) && !m.is_registered(l) && rng.chance(1, 2) {
                    ops.push(LOp::Register(l));
                    m.apply(LOp::Register(l));
                    registered_now = true;
                    break;
                }
            }
        }
        if registered_now {
            continue;
        }
        let l = rng.below(LANES as u64) as u8;
        let r = rng.below(REMOTES as u64) as u8;
        let total = w_insert + w_remove + w_big + w_count * 3;
        let x = rng.below(total);
        let op = if x < w_insert {
            LOp::Insert(l, r)
        } else if x < w_insert + w_remove {
            LOp::Remove(l, r)
        } else if x < w_insert + w_remove + w_big {
            match rng.below(7) {
                0..=2 => LOp::RemoveRemote(r),
                3 | 4 => LOp::RemoveLane(l),
                _ => LOp::RemoveAll,
            }
        } else {
            match rng.below(3) {
                0 => LOp::CountSingle(l),
                1 => LOp::CountBroadcast(l),
                _ => LOp::Targeted(l, r),
            }
        };
        if !m.valid(op) {
            continue;
        }
        let before = m;
        m.apply(op);
        if before.total() > m.total() {
            paths.insert(op.name());
        }
        ops.push(op);
    }
    out.sig(&ops);
    out.sig(&with_aggregate);
    let mut acc = Acc::default();
    run_one(&ops, with_aggregate, &mut acc);
    out.nontrivial = paths.len() >= 3 && acc.deliveries > 0;
    if !with_aggregate {
        out.count("cases-without-aggregate-reporter");
    }
    out.set_sample(json!({"aggregate": with_aggregate, "registered_at": reg_at, "head": show_ops(&ops[..10])}));
    report(out, acc, with_aggregate);
}

fn threads_case(rng: &mut Rng, out: &mut CaseOut, small: bool) {
    let n_threads = rng.range(2, 4) as usize;
    let calls = if small { rng.range(200, 600) } else { rng.range(2_000, 20_000) };
    // Reduced runs (sanitizers, Miri) yield after every call so that the snapshots interleave.
    let yield_every = if small { 1 } else { 16 };
    let reporter = UplinkReporter::default();
    let reader = reporter.reader();
    let stop = Arc::new(AtomicBool::new(false));
    // Per thread: a seeded list of amounts (pure function of the case rng).
    let plans: Vec<Vec<(bool, u64)>> = (0..n_threads).map(|_| (0..calls).map(|_| (rng.bool(), rng.below(4))).collect()).collect();
    let want_events: u64 = plans.iter().flatten().filter(|(e, _)| *e).map(|(_, n)| *n).sum();
    let want_commands: u64 = plans.iter().flatten().filter(|(e, _)| !*e).map(|(_, n)| *n).sum();
    let link_steps = calls;
    let (mut got_events, mut got_commands) = (0u64, 0u64);
    let mut snapshots = 0u64;
    let mut nonzero = 0u64;
    let mut link_regress: Option<(u64, u64)> = None;
    let mut reader_inactive = false;
    // All threads start together.
    let barrier = std::sync::Barrier::new(n_threads + 2);
    let barrier = &barrier;
    std::thread::scope(|scope| {
        let mut handles = Vec::new();
        for plan in &plans {
            let rep = reporter.clone();
            handles.push(scope.spawn(move || {
                barrier.wait();
                for (i, (is_event, n)) in plan.iter().enumerate() {
                    if *is_event {
                        rep.count_events(*n);
                    } else {
                        rep.count_commands(*n);
                    }
                    if i % yield_every == 0 {
                        std::thread::yield_now();
                    }
                    if small && i % 8 == 0 {
                        std::thread::sleep(std::time::Duration::from_micros(20));
                    }
                }
            }));
        }
        {
            let rep = reporter.clone();
            handles.push(scope.spawn(move || {
                barrier.wait();
                for i in 1..=link_steps {
                    rep.set_uplinks(i);
                    if i % 16 == 0 {
                        std::thread::yield_now();
                    }
                }
            }));
        }
        let stop2 = stop.clone();
        let reader2 = reader.clone();
        let snapper = scope.spawn(move || {
            let (mut e, mut c, mut n, mut nz) = (0u64, 0u64, 0u64, 0u64);
            let mut last_links = 0u64;
            let mut regress = None;
            let mut inactive = false;
            barrier.wait();
            loop {
                let done = stop2.load(Ordering::Acquire);
                match reader2.snapshot() {
                    Some(s) => {
                        n += 1;
                        e += s.event_count;
                        c += s.command_count;
                        if s.event_count > 0 || s.command_count > 0 {
                            nz += 1;
                        }
                        if s.link_count < last_links && regress.is_none() {
                            regress = Some((last_links, s.link_count));
                        }
                        last_links = s.link_count;
                    }
                    None => {
                        inactive = true;
                        break;
                    }
                }
                if done {
                    break;
                }
                std::thread::yield_now();
            }
            (e, c, n, nz, regress, inactive)
        });
        for h in handles {
            let _ = h.join();
        }
        stop.store(true, Ordering::Release);
        if let Ok((e, c, n, nz, regress, inactive)) = snapper.join() {
            got_events = e;
            got_commands = c;
            snapshots = n;
            nonzero = nz;
            link_regress = regress;
            reader_inactive = inactive;
        }
    });
    // Final snapshot after every counting thread has been joined.
    match reader.snapshot() {
        Some(s) => {
            got_events += s.event_count;
            got_commands += s.command_count;
            snapshots += 1;
            if s.link_count != link_steps {
                out.violation(P, "threads/link-count/final-value-wrong", format!("after all threads joined the reader reports {} links, the last set_uplinks gave {link_steps}", s.link_count), json!({}));
            }
        }
        None => reader_inactive = true,
    }
    out.events += snapshots;
    out.add("snapshots", snapshots);
    out.add("snapshots-with-counts", nonzero);
    out.add("increments", (n_threads as u64) * calls);
    out.nontrivial = nonzero >= 2;
    out.set_sample(json!({"threads": n_threads, "calls_per_thread": calls, "snapshots": snapshots}));
    if reader_inactive {
        out.violation(P, "threads/reader-inactive", "snapshot() returned None while the reporter is alive", json!({}));
    }
    if got_events != want_events {
        let dir = if got_events < want_events { "lost" } else { "excess" };
        out.violation(P, format!("threads/event-count/{dir}"), format!("snapshots sum to {got_events} events, {want_events} were counted by {n_threads} threads"), json!({"snapshots": snapshots}));
    }
    if got_commands != want_commands {
        let dir = if got_commands < want_commands { "lost" } else { "excess" };
        out.violation(P, format!("threads/command-count/{dir}"), format!("snapshots sum to {got_commands} commands, {want_commands} were counted by {n_threads} threads"), json!({"snapshots": snapshots}));
    }
    if let Some((a, b)) = link_regress {
        out.violation(P, "threads/link-count/went-back", format!("one reader thread saw the link count go from {a} back to {b} while the writer only increased it"), json!({}));
    }
}
