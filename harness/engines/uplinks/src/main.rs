//! Engine `uplinks`: small-scope (component level) parts of C02, C03, C04 and C20, run on the real
//! objects of swim-rust reached through the `verif_hooks` re-exports.
//!
//!  * C02 `queues-exhaustive`, `queues-random`, `drop-or-take` – the three coalescing map queues
//!    (`MapOperationQueue`, `EventQueue`, `WriteQueues`) against a reference map.
//!  * C03 `write-queues-exhaustive`, `write-queues-random` – `WriteQueues` with sync requests.
//!  * C04 `uplinks-exhaustive`, `uplinks-random` – the per-remote `Uplinks` queue; the frames a
//!    popped `WriteTask` really sends are decoded from a real byte channel.
//!  * C20 `links-exhaustive`, `links-random`, `counters-threads` – the `Links` registry with real
//!    `UplinkReporter`s, and the lock-free counters under concurrent counting.
//!
//! Extra arguments: `--only <part name or prefix>`, `--depth N` (overrides the exhaustive depth).

mod c02;
mod c03;
mod c04;
mod c20;

use std::collections::BTreeMap;
use std::sync::Mutex;

use common::Session;

/// Shortest witness seen per signature in an exhaustive part (reported as notes: the runner keeps
/// the first three violations per signature, not the shortest ones).
#[derive(Default)]
pub struct Shortest(Mutex<BTreeMap<String, (usize, String)>>);

impl Shortest {
    pub fn offer(&self, sig: &str, len: usize, witness: &str) {
        let mut m = self.0.lock().unwrap();
        match m.get(sig) {
            Some((l, w)) if *l < len || (*l == len && w.as_str() <= witness) => {}
            _ => {
                m.insert(sig.to_string(), (len, witness.to_string()));
            }
        }
    }

    pub fn into_notes(self, s: &mut Session, part: &str) {
        for (sig, (len, w)) in self.0.into_inner().unwrap() {
            s.note(format!("{part}: shortest witness of {sig} (length {len}): {w}"));
        }
    }
}

/// Should the part with this name run (`--only` gives a name or a prefix)?
pub fn wanted(s: &Session, name: &str) -> bool {
    s.args.extra.get("only").map_or(true, |o| name.starts_with(o.as_str()))
}

/// Depth of an exhaustive part: `--depth` or the tier default, reduced when `--scale` is small so
/// that sanitizer passes stay tiny.
pub fn depth(s: &Session, quick: usize, thorough: usize) -> usize {
    if let Some(d) = s.args.extra_u64("depth") {
        return d as usize;
    }
    let d = if s.args.thorough() { thorough } else { quick };
    if s.args.scale < 0.02 {
        d.saturating_sub(3).max(2)
    } else if s.args.scale < 0.2 {
        d.saturating_sub(2).max(2)
    } else {
        d
    }
}

fn main() {
    let mut s = Session::new("uplinks");
    match s.prop().to_string().as_str() {
        "C02" => c02::run(&mut s),
        "C03" => c03::run(&mut s),
        "C04" => c04::run(&mut s),
        "C20" => c20::run(&mut s),
        other => s.note(format!("engine uplinks serves C02, C03, C04 and C20 (asked for {other})")),
    }
    s.finish()
}
