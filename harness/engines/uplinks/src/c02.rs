//! C02, small scope: the three coalescing map queues against a reference map.
//!
//! Queues under test (real code):
//!  * `MapOperationQueue` (runtime, per remote, keyed by Recon-equality of the key *text*),
//!  * `EventQueue<K, V>` (agent, keyed by the typed key),
//!  * `WriteQueues<K>` without sync requests (its events carry no value: the value is read from
//!    the lane's map when the entry is popped, as `MapEventQueue::pop` does).
//!
//! The oracle (`Stream`) is the property, restated for one producer/consumer pair:
//!  * whenever nothing is pending the replica built from the popped operations equals the
//!    reference map (convergence at every quiescent point, in particular after the final drain);
//!  * per key, what is popped is an in-order subsequence of what was pushed (values are unique);
//!  * a pushed clear is popped exactly once, before anything pushed after it and after nothing
//!    that was pushed before it (nothing from before a clear is popped after it);
//!  * the queue holds exactly one entry per pending key and one for a pending clear: `pop` gives
//!    `None` iff nothing is pending, never gives a key or a clear that is not pending.

use std::collections::{BTreeMap, HashMap, VecDeque};
use std::fmt::Debug;
use std::hash::Hash;

use bytes::BytesMut;
use common::{json, CaseOut, Json, Rng, Session};
use swimos_agent::verif_hooks::{drop_or_take, DropOrTake, EventQueue, MapOps, ToWrite, WriteQueues};
use swimos_agent_protocol::MapOperation;
use swimos_form::write::StructuralWritable;
use swimos_model::Value;
use swimos_recon::parser::parse_recognize;
use swimos_runtime::verif_hooks::MapOperationQueue;

use crate::{depth, wanted, Shortest};

const P: &str = "C02";

// ------------------------------------------------------------------------------------------------
// Operations and the key pool.

#[derive(Clone, Copy, Debug, PartialEq, Eq, Hash)]
pub enum QOp {
    Upd(u8),
    Rem(u8),
    Clear,
    Pop,
}

pub fn show_ops(ops: &[QOp]) -> String {
    ops.iter()
        .map(|o| match o {
            QOp::Upd(k) => format!("upd(k{k})"),
            QOp::Rem(k) => format!("rem(k{k})"),
            QOp::Clear => "clear".to_string(),
            QOp::Pop => "pop".to_string(),
        })
        .collect::<Vec<_>>()
        .join(" ")
}

/// Spellings of the logical keys as Recon text. Every row is one key: all its spellings parse to
/// the same `Value` and different rows parse to different values (checked at start-up with the
/// Recon parser, independently of `ReconKey`).
const SPELLINGS: &[&[&str]] = &[
    &["1", "1 ", " 1"],
    &["a", "\"a\"", "a "],
    &["@x", "@x{}", "@x {}"],
    &["\"b c\"", "\"b c\" "],
    &["{1,2}", "{ 1, 2 }", "{1;2}"],
    &["1.0", "1e0"],
    &["", " "],
    &["0", "-0"],
];

pub struct KeyPool {
    /// spelling text -> logical key
    by_text: HashMap<&'static str, u8>,
}

impl KeyPool {
    pub fn build(notes: &mut Vec<String>) -> KeyPool {
        let mut by_text = HashMap::new();
        let mut firsts: Vec<Value> = Vec::new();
        for (k, row) in SPELLINGS.iter().enumerate() {
            let first = parse_recognize::<Value>(row[0], false).ok();
            for s in row.iter() {
                match (parse_recognize::<Value>(*s, false).ok(), &first) {
                    (Some(v), Some(f)) if &v == f => {
                        by_text.insert(*s, k as u8);
                    }
                    _ => notes.push(format!("key pool: spelling {s:?} of key {k} is not Recon-equal to {:?}; the harness would be wrong to use it", row[0])),
                }
            }
            if let Some(f) = first {
                if firsts.contains(&f) {
                    notes.push(format!("key pool: key {k} ({:?}) is equal to an earlier key", row[0]));
                }
                firsts.push(f);
            }
        }
        KeyPool { by_text }
    }

    pub fn spelling(k: u8, variant: usize) -> &'static str {
        let row = SPELLINGS[k as usize];
        row[variant % row.len()]
    }

    pub fn logical(&self, text: &str) -> Option<u8> {
        self.by_text.get(text).copied()
    }
}

/// Value text for the runtime queue: unique number plus padding of varying length (the queue
/// re-uses the old buffer when the new value fits, a branch of its own).
pub fn value_text(v: u64) -> String {
    format!("{v}{}", "_".repeat(((v * 7) % 5) as usize * 3))
}

pub fn value_of_text(t: &[u8]) -> Option<u64> {
    let s = std::str::from_utf8(t).ok()?;
    s.trim_end_matches('_').parse().ok()
}

// ------------------------------------------------------------------------------------------------
// What a queue gives back, in the oracle's terms.

#[derive(Clone, Debug, PartialEq, Eq)]
pub enum Popped {
    /// Update carrying its value.
    Upd(u8, u64),
    /// Update whose value is read from the lane's map at pop time (`WriteQueues`).
    UpdUnresolved(u8),
    Rem(u8),
    Clear,
    /// Something the harness cannot map back to what it pushed.
    Alien(String),
}

/// A queue under test, driven in the oracle's vocabulary.
pub trait Sut {
    fn push(&mut self, op: QOp, value: u64, pos: usize);
    fn pop(&mut self) -> Option<Popped>;
    fn is_empty(&self) -> bool;
}

pub struct RuntimeQueue<'a> {
    q: MapOperationQueue,
    pool: &'a KeyPool,
    /// Which spelling of a key is used at sequence position `pos`: `(pos + salt) % n`.
    salt: usize,
    /// Text of the key as last pushed, per logical key (to count popped keys spelled differently).
    last_spelling: [Option<&'static str>; 8],
    pub spelling_kept_from_older_push: u64,
    pub push_errors: u64,
}

impl<'a> RuntimeQueue<'a> {
    pub fn new(pool: &'a KeyPool, epoch: usize, salt: usize) -> Self {
        let mut q = MapOperationQueue::default();
        q.verif_set_head_epoch(epoch);
        RuntimeQueue { q, pool, salt, last_spelling: [None; 8], spelling_kept_from_older_push: 0, push_errors: 0 }
    }
}

fn bm(s: &str) -> BytesMut {
    BytesMut::from(s.as_bytes())
}

impl Sut for RuntimeQueue<'_> {
    fn push(&mut self, op: QOp, value: u64, pos: usize) {
        let raw = match op {
            QOp::Upd(k) => {
                let sp = KeyPool::spelling(k, pos + self.salt);
                self.last_spelling[k as usize] = Some(sp);
                MapOperation::Update { key: bm(sp), value: bm(&value_text(value)) }
            }
            QOp::Rem(k) => {
                let sp = KeyPool::spelling(k, pos + self.salt);
                self.last_spelling[k as usize] = Some(sp);
                MapOperation::Remove { key: bm(sp) }
            }
            QOp::Clear => MapOperation::Clear,
            QOp::Pop => return,
        };
        if self.q.push(raw).is_err() {
            self.push_errors += 1;
        }
    }

    fn pop(&mut self) -> Option<Popped> {
        let op = self.q.pop()?;
        Some(match op {
            MapOperation::Update { key, value } => match std::str::from_utf8(&key).ok().and_then(|t| self.pool.logical(t).map(|k| (k, t))) {
                Some((k, t)) => {
                    if self.last_spelling[k as usize] != Some(t) {
                        self.spelling_kept_from_older_push += 1;
                    }
                    match value_of_text(&value) {
                        Some(v) => Popped::Upd(k, v),
                        None => Popped::Alien(format!("update value {:?}", value)),
                    }
                }
                None => Popped::Alien(format!("update key {:?}", key)),
            },
            MapOperation::Remove { key } => match std::str::from_utf8(&key).ok().and_then(|t| self.pool.logical(t)) {
                Some(k) => Popped::Rem(k),
                None => Popped::Alien(format!("remove key {:?}", key)),
            },
            MapOperation::Clear => Popped::Clear,
        })
    }

    fn is_empty(&self) -> bool {
        self.q.is_empty()
    }
}

/// The agent's typed queue with values carried inside the queue.
pub struct TypedQueue<K> {
    q: EventQueue<K, u64>,
    key: fn(u8) -> K,
    back: fn(&K) -> Option<u8>,
}

impl<K: Clone + Eq + Hash> TypedQueue<K> {
    pub fn new(epoch: usize, key: fn(u8) -> K, back: fn(&K) -> Option<u8>) -> Self {
        let mut q = EventQueue::default();
        q.verif_set_head_epoch(epoch);
        TypedQueue { q, key, back }
    }
}

impl<K: Clone + Eq + Hash + Debug> Sut for TypedQueue<K> {
    fn push(&mut self, op: QOp, value: u64, _pos: usize) {
        match op {
            QOp::Upd(k) => self.q.push(MapOperation::Update { key: (self.key)(k), value }),
            QOp::Rem(k) => self.q.push(MapOperation::Remove { key: (self.key)(k) }),
            QOp::Clear => self.q.push(MapOperation::Clear),
            QOp::Pop => {}
        }
    }

    fn pop(&mut self) -> Option<Popped> {
        let op = self.q.pop()?;
        Some(match op {
            MapOperation::Update { key, value } => match (self.back)(&key) {
                Some(k) => Popped::Upd(k, value),
                None => Popped::Alien(format!("update key {key:?}")),
            },
            MapOperation::Remove { key } => match (self.back)(&key) {
                Some(k) => Popped::Rem(k),
                None => Popped::Alien(format!("remove key {key:?}")),
            },
            MapOperation::Clear => Popped::Clear,
        })
    }

    fn is_empty(&self) -> bool {
        self.q.is_empty()
    }
}

/// The lane's queue, no sync requests: only the event path.
pub struct LaneQueue {
    q: WriteQueues<u8>,
}

impl LaneQueue {
    pub fn new() -> Self {
        LaneQueue { q: WriteQueues::default() }
    }
}

impl Sut for LaneQueue {
    fn push(&mut self, op: QOp, _value: u64, _pos: usize) {
        match op {
            QOp::Upd(k) => self.q.push_operation(MapOperation::Update { key: k, value: () }),
            QOp::Rem(k) => self.q.push_operation(MapOperation::Remove { key: k }),
            QOp::Clear => self.q.push_operation(MapOperation::Clear),
            QOp::Pop => {}
        }
    }

    fn pop(&mut self) -> Option<Popped> {
        Some(match self.q.pop()? {
            ToWrite::Event(MapOperation::Update { key, .. }) => Popped::UpdUnresolved(key),
            ToWrite::Event(MapOperation::Remove { key }) => Popped::Rem(key),
            ToWrite::Event(MapOperation::Clear) => Popped::Clear,
            ToWrite::SyncEvent(id, k) => Popped::Alien(format!("sync event for {id} key {k} without any sync request")),
            ToWrite::Synced(id) => Popped::Alien(format!("synced for {id} without any sync request")),
        })
    }

    fn is_empty(&self) -> bool {
        self.q.is_empty()
    }
}

// ------------------------------------------------------------------------------------------------
// The oracle.

pub struct Stream {
    n_keys: usize,
    /// The lane's map.
    reference: Vec<Option<u64>>,
    /// What the consumer holds after applying everything popped so far.
    replica: Vec<Option<u64>>,
    /// Per key: (global push index, state pushed) – `Some(v)` for an update, `None` for a remove.
    history: Vec<Vec<(u64, Option<u64>)>>,
    clears: Vec<u64>,
    /// Per key: global index of the push matched by the last pop for this key.
    last_match: Vec<u64>,
    /// Global index of the pushed clear matched by the last popped clear.
    last_clear: u64,
    pending_key: Vec<bool>,
    pending_clear: bool,
    next_index: u64,
    pub pops: u64,
    pub coalesced: u64,
    pub quiescent_checks: u64,
    /// First violation only: the state after a divergence means nothing.
    pub broken: Option<(String, String)>,
}

impl Stream {
    pub fn new(n_keys: usize) -> Stream {
        Stream {
            n_keys,
            reference: vec![None; n_keys],
            replica: vec![None; n_keys],
            history: vec![Vec::new(); n_keys],
            clears: Vec::new(),
            last_match: vec![0; n_keys],
            last_clear: 0,
            pending_key: vec![false; n_keys],
            pending_clear: false,
            next_index: 0,
            pops: 0,
            coalesced: 0,
            quiescent_checks: 0,
            broken: None,
        }
    }

    fn fail(&mut self, sig: String, what: String) {
        if self.broken.is_none() {
            self.broken = Some((sig, what));
        }
    }

    pub fn nothing_pending(&self) -> bool {
        !self.pending_clear && !self.pending_key.iter().any(|p| *p)
    }

    /// Record a push (the caller hands the same operation to the queue).
    pub fn pushed(&mut self, op: QOp, value: u64) {
        self.next_index += 1;
        let i = self.next_index;
        match op {
            QOp::Upd(k) => {
                let k = k as usize;
                self.reference[k] = Some(value);
                self.history[k].push((i, Some(value)));
                if self.pending_key[k] {
                    self.coalesced += 1;
                }
                self.pending_key[k] = true;
            }
            QOp::Rem(k) => {
                let k = k as usize;
                self.reference[k] = None;
                self.history[k].push((i, None));
                if self.pending_key[k] {
                    self.coalesced += 1;
                }
                self.pending_key[k] = true;
            }
            QOp::Clear => {
                for r in self.reference.iter_mut() {
                    *r = None;
                }
                self.clears.push(i);
                self.coalesced += self.pending_key.iter().filter(|p| **p).count() as u64 + self.pending_clear as u64;
                for p in self.pending_key.iter_mut() {
                    *p = false;
                }
                self.pending_clear = true;
            }
            QOp::Pop => {}
        }
    }

    /// Judge the result of one `pop`. `q` names the queue in signatures.
    pub fn popped(&mut self, q: &str, got: Option<Popped>) {
        if self.broken.is_some() {
            return;
        }
        self.pops += 1;
        match got {
            None => {
                if !self.nothing_pending() {
                    let what = if self.pending_clear { "clear" } else { "key" };
                    self.fail(format!("pop-none-while-pending/{q}/pending={what}"), format!("pop returned None while a {what} operation pushed earlier was never popped"));
                    return;
                }
            }
            Some(Popped::Alien(what)) => {
                self.fail(format!("popped-not-pushed/{q}"), format!("the queue produced something that was never pushed: {what}"));
                return;
            }
            Some(Popped::Clear) => {
                if !self.pending_clear {
                    self.fail(format!("clear-not-pending/{q}"), "a clear was popped although no pushed clear is outstanding (duplicated or invented)".into());
                    return;
                }
                self.pending_clear = false;
                // Pushing a clear empties the queue, so an outstanding clear is the latest one.
                self.last_clear = *self.clears.last().unwrap_or(&0);
                for r in self.replica.iter_mut() {
                    *r = None;
                }
            }
            Some(Popped::Upd(k, _)) | Some(Popped::UpdUnresolved(k)) | Some(Popped::Rem(k)) if k as usize >= self.n_keys => {
                self.fail(format!("popped-not-pushed/{q}"), format!("key k{k} was never used"));
                return;
            }
            Some(Popped::Upd(k, v)) => {
                if !self.entry_ok(q, k, "update") {
                    return;
                }
                self.match_update(q, k, v);
            }
            Some(Popped::UpdUnresolved(k)) => {
                if !self.entry_ok(q, k, "update") {
                    return;
                }
                // The lane reads the value when the entry is popped; a key that is gone is skipped.
                match self.reference[k as usize] {
                    Some(v) => self.match_update(q, k, v),
                    None => self.pending_key[k as usize] = false,
                }
            }
            Some(Popped::Rem(k)) => {
                if !self.entry_ok(q, k, "remove") {
                    return;
                }
                let ku = k as usize;
                let bound = self.last_match[ku].max(self.last_clear);
                // Removes are not unique: greedy earliest match is complete for subsequence embedding.
                match self.history[ku].iter().find(|(i, s)| *i > bound && s.is_none()) {
                    Some((i, _)) => {
                        self.last_match[ku] = *i;
                        self.replica[ku] = None;
                        self.pending_key[ku] = false;
                    }
                    None => {
                        let before_clear = self.history[ku].iter().any(|(i, s)| *i > self.last_match[ku] && s.is_none());
                        let class = if before_clear { "pushed-before-popped-clear" } else { "never-pushed" };
                        self.fail(format!("remove-out-of-order/{q}/{class}"), format!("remove of k{k} popped, but no remove of k{k} was pushed after what was already popped for it"));
                        return;
                    }
                }
            }
        }
        if self.broken.is_none() && self.nothing_pending() {
            self.check_converged(q, "quiescent");
        }
    }

    fn entry_ok(&mut self, q: &str, k: u8, kind: &str) -> bool {
        if self.pending_clear {
            self.fail(format!("entry-overtakes-clear/{q}/{kind}"), format!("{kind} of k{k} popped while a clear pushed before it is still queued (the clear will wipe a newer entry)"));
            return false;
        }
        if !self.pending_key[k as usize] {
            self.fail(format!("entry-not-pending/{q}/{kind}"), format!("{kind} of k{k} popped although nothing is outstanding for k{k}: the queue held two entries for one key or an entry from before a clear"));
            return false;
        }
        true
    }

    fn match_update(&mut self, q: &str, k: u8, v: u64) {
        let ku = k as usize;
        match self.history[ku].iter().find(|(_, s)| *s == Some(v)) {
            None => self.fail(format!("invented-value/{q}"), format!("update of k{k} carries value {v}, never pushed for that key")),
            Some((i, _)) => {
                if *i <= self.last_clear {
                    self.fail(format!("value-from-before-clear/{q}"), format!("update of k{k} with value {v} pushed before a clear is popped after that clear"));
                } else if *i <= self.last_match[ku] {
                    self.fail(format!("value-out-of-order/{q}"), format!("update of k{k} with value {v} is older than what was already popped for k{k}"));
                } else {
                    self.last_match[ku] = *i;
                    self.replica[ku] = Some(v);
                    self.pending_key[ku] = false;
                }
            }
        }
    }

    pub fn check_converged(&mut self, q: &str, when: &str) {
        self.quiescent_checks += 1;
        for k in 0..self.n_keys {
            if self.replica[k] != self.reference[k] {
                let class = match (self.replica[k], self.reference[k]) {
                    (None, Some(_)) => "key-missing",
                    (Some(_), None) => "key-not-removed",
                    _ => "stale-value",
                };
                self.fail(
                    format!("not-converged/{q}/{when}/{class}"),
                    format!("nothing is queued, replica holds k{k} = {:?} but the map holds {:?}", self.replica[k], self.reference[k]),
                );
                return;
            }
        }
    }
}

/// Run one operation sequence on one queue. Returns the oracle for its counters.
pub fn run_sequence<S: Sut>(q: &str, sut: &mut S, ops: &[QOp], n_keys: usize) -> Stream {
    let mut st = Stream::new(n_keys);
    let mut value = 0u64;
    for (pos, op) in ops.iter().enumerate() {
        match op {
            QOp::Pop => {
                let got = sut.pop();
                st.popped(q, got);
            }
            _ => {
                value += 1;
                sut.push(*op, value, pos);
                st.pushed(*op, value);
            }
        }
        if st.broken.is_some() {
            return st;
        }
        if sut.is_empty() != st.nothing_pending() {
            let class = if sut.is_empty() { "empty-while-pending" } else { "non-empty-while-nothing-pending" };
            st.fail(format!("is-empty-wrong/{q}/{class}"), format!("is_empty() = {} but the model has pending = {}", sut.is_empty(), !st.nothing_pending()));
            return st;
        }
    }
    // Final drain: bounded by what can be pending, plus one pop that must give None.
    let bound = n_keys + 2;
    for _ in 0..bound {
        let got = sut.pop();
        let done = got.is_none();
        st.popped(q, got);
        if done || st.broken.is_some() {
            break;
        }
    }
    if st.broken.is_none() {
        if !st.nothing_pending() || !sut.is_empty() {
            st.fail(format!("drain-not-finished/{q}"), format!("after {bound} pops the queue is still not empty"));
        } else {
            st.check_converged(q, "after-drain");
        }
    }
    st
}

// ------------------------------------------------------------------------------------------------
// Parts.

pub const WRAP_A: usize = usize::MAX - 3;
pub const WRAP_B: usize = usize::MAX - 1;

fn epoch_class(e: usize) -> &'static str {
    if e == 0 {
        "epoch-0"
    } else {
        "epoch-wrap"
    }
}

#[derive(Default)]
struct Acc {
    sequences: u64,
    runs: u64,
    pops: u64,
    coalesced: u64,
    quiescent_checks: u64,
    spelling_kept: u64,
    found: BTreeMap<String, (Vec<QOp>, String, u64)>,
}

impl Acc {
    fn take(&mut self, ops: &[QOp], st: Stream, suffix: &str) {
        self.runs += 1;
        self.pops += st.pops;
        self.coalesced += st.coalesced;
        self.quiescent_checks += st.quiescent_checks;
        if let Some((sig, what)) = st.broken {
            let e = self.found.entry(format!("{sig}/{suffix}")).or_insert_with(|| (ops.to_vec(), what.clone(), 0));
            e.2 += 1;
            if ops.len() < e.0.len() {
                e.0 = ops.to_vec();
                e.1 = what;
            }
        }
    }
}

fn key_u8(k: u8) -> u8 {
    k
}
fn back_u8(k: &u8) -> Option<u8> {
    Some(*k)
}
fn key_string(k: u8) -> String {
    format!("key-{k}")
}
fn back_string(k: &String) -> Option<u8> {
    k.strip_prefix("key-").and_then(|s| s.parse().ok())
}

/// All queue variants on one sequence.
fn eval_all(pool: &KeyPool, ops: &[QOp], n_keys: usize, acc: &mut Acc) {
    acc.sequences += 1;
    for epoch in [0usize, WRAP_A, WRAP_B] {
        let mut rq = RuntimeQueue::new(pool, epoch, 0);
        let st = run_sequence("map-operation-queue", &mut rq, ops, n_keys);
        acc.spelling_kept += rq.spelling_kept_from_older_push;
        let push_errors = rq.push_errors;
        acc.take(ops, st, epoch_class(epoch));
        if push_errors > 0 {
            let e = acc.found.entry("push-rejected/map-operation-queue".into()).or_insert_with(|| (ops.to_vec(), "push of a valid UTF-8 key was rejected".into(), 0));
            e.2 += 1;
        }
        let mut tq = TypedQueue::new(epoch, key_u8, back_u8);
        let st = run_sequence("event-queue", &mut tq, ops, n_keys);
        acc.take(ops, st, epoch_class(epoch));
    }
    let mut lq = LaneQueue::new();
    let st = run_sequence("write-queues", &mut lq, ops, n_keys);
    acc.take(ops, st, "epoch-0");
}

fn alphabet(n_keys: u8) -> Vec<QOp> {
    let mut a = Vec::new();
    for k in 0..n_keys {
        a.push(QOp::Upd(k));
    }
    for k in 0..n_keys {
        a.push(QOp::Rem(k));
    }
    a.push(QOp::Clear);
    a.push(QOp::Pop);
    a
}

/// Every sequence extending `seq` up to length `depth` is run, `seq` itself included: each run
/// ends with its own drain, so every length up to the bound is judged as a complete history.
fn explore(pool: &KeyPool, alpha: &[QOp], seq: &mut Vec<QOp>, depth: usize, n_keys: usize, acc: &mut Acc) {
    if !seq.is_empty() {
        eval_all(pool, seq, n_keys, acc);
    }
    if seq.len() >= depth {
        return;
    }
    for op in alpha {
        seq.push(*op);
        explore(pool, alpha, seq, depth, n_keys, acc);
        seq.pop();
    }
}

fn report(out: &mut CaseOut, acc: Acc, extra: Json) {
    out.events += acc.pops;
    out.add("sequences", acc.sequences);
    out.add("queue-runs", acc.runs);
    out.add("entries-coalesced", acc.coalesced);
    out.add("quiescent-convergence-checks", acc.quiescent_checks);
    out.add("popped-key-spelled-as-in-older-push", acc.spelling_kept);
    for (sig, (ops, what, count)) in acc.found {
        out.violation(P, sig, format!("{what} [sequence: {}, then drain]", show_ops(&ops)), json!({"sequence": show_ops(&ops), "sequences_with_this_signature_in_case": count, "context": extra}));
    }
}

pub fn run(s: &mut Session) {
    let mut notes = Vec::new();
    let pool = KeyPool::build(&mut notes);
    for n in notes {
        s.note(n);
    }

    if wanted(s, "queues-exhaustive") {
        let d = depth(s, 7, 8);
        let n_keys = 3u8;
        let alpha = alphabet(n_keys);
        let plen = 3.min(d);
        let mut prefixes: Vec<Vec<QOp>> = vec![vec![]];
        for _ in 0..plen {
            prefixes = prefixes.iter().flat_map(|p| alpha.iter().map(move |o| { let mut q = p.clone(); q.push(*o); q })).collect();
        }
        let rule = format!(
            "every sequence of length 1..={d} over update k (fresh value) / remove k (k in 3 keys) / clear / pop, each followed by a drain, on MapOperationQueue (keys spelled in Recon-equal variants chosen by position) and EventQueue with head_epoch preset to 0, usize::MAX-3 and usize::MAX-1, and on WriteQueues; one case per prefix of length {plen} (its whole subtree; case 0 also runs the sequences shorter than the prefix length); non-trivial when entries were coalesced in the subtree; distinct by prefix"
        );
        let shortest = Shortest::default();
        s.part("queues-exhaustive", &rule, true, prefixes.len() as u64, |i, _rng, out| {
            let p = &prefixes[i as usize];
            let mut acc = Acc::default();
            let mut seq = p.clone();
            explore(&pool, &alpha, &mut seq, d, n_keys as usize, &mut acc);
            if i == 0 && plen > 1 {
                explore(&pool, &alpha, &mut Vec::new(), plen - 1, n_keys as usize, &mut acc);
            }
            for (sig, (ops, _, _)) in &acc.found {
                shortest.offer(sig, ops.len(), &show_ops(ops));
            }
            out.sig(&show_ops(p));
            out.nontrivial = acc.coalesced > 0;
            if i < 3 {
                out.set_sample(json!({"prefix": show_ops(p), "sequences": acc.sequences, "pops": acc.pops}));
            }
            report(out, acc, json!({"depth": d}));
        });
        shortest.into_notes(s, "queues-exhaustive");
    }

    if wanted(s, "queues-random") {
        let cases = s.args.budget(3_000, 100_000);
        s.part(
            "queues-random",
            "seeded sequences of 20-200 operations over 2-8 keys (Recon-equal spellings chosen at random positions for the runtime queue, String keys for the agent queue), pop rate drawn per case, head_epoch preset drawn from {0, MAX-3, MAX-1, MAX, MAX/2, random}; all three queues on the same sequence; non-trivial when entries were coalesced and a clear was popped or the epoch wrapped; distinct by hash of the sequence",
            false,
            cases,
            |_i, rng, out| random_case(&pool, rng, out),
        );
    }

    if wanted(s, "drop-or-take") {
        let cases = s.args.budget(2_000, 50_000);
        s.part(
            "drop-or-take",
            "drop_or_take(kind, n) on a HashMap and a BTreeMap holding the same 0-12 keys of a key type whose Ord is the Value order of its Recon structure (i32, i64, u32, u64, String): both backings designate the same keys in the same order, and those are the first n (drop) / all but the first n (take) of the keys sorted by key.structure() with Value's order; n from 0 to len+2; extra sub-case Option<i32> (Ord of the type differs from the Value order of its structure) under its own signature; distinct by hash of keys",
            false,
            cases,
            |i, rng, out| dot_case(i, rng, out),
        );
    }
}

fn random_case(pool: &KeyPool, rng: &mut Rng, out: &mut CaseOut) {
    let n_keys = rng.range(2, SPELLINGS.len() as u64) as u8;
    let len = rng.range(20, 200) as usize;
    let pop_pct = *rng.pick(&[15u64, 30, 45, 60]);
    let clear_pct = *rng.pick(&[1u64, 4, 10]);
    let mut ops = Vec::with_capacity(len);
    for _ in 0..len {
        let r = rng.below(100);
        ops.push(if r < pop_pct {
            QOp::Pop
        } else if r < pop_pct + clear_pct {
            QOp::Clear
        } else if rng.chance(1, 4) {
            QOp::Rem(rng.below(n_keys as u64) as u8)
        } else {
            QOp::Upd(rng.below(n_keys as u64) as u8)
        });
    }
    let epoch = match rng.below(6) {
        0 => 0,
        1 => WRAP_A,
        2 => WRAP_B,
        3 => usize::MAX,
        4 => usize::MAX / 2,
        _ => rng.next_u64() as usize,
    };
    let salt = rng.usize_below(7);
    out.sig(&ops);
    out.sig(&epoch);
    let mut acc = Acc::default();
    acc.sequences = 1;
    let mut rq = RuntimeQueue::new(pool, epoch, salt);
    let st = run_sequence("map-operation-queue", &mut rq, &ops, n_keys as usize);
    let popped_clear = st.last_clear > 0;
    let coalesced = st.coalesced;
    acc.spelling_kept += rq.spelling_kept_from_older_push;
    acc.take(&ops, st, epoch_class(epoch));
    let mut tq = TypedQueue::new(epoch, key_string, back_string);
    let st = run_sequence("event-queue", &mut tq, &ops, n_keys as usize);
    acc.take(&ops, st, epoch_class(epoch));
    let mut lq = LaneQueue::new();
    let st = run_sequence("write-queues", &mut lq, &ops, n_keys as usize);
    acc.take(&ops, st, "epoch-0");
    let pops = ops.iter().filter(|o| **o == QOp::Pop).count();
    let wrapped = epoch != 0 && epoch.checked_add(pops + n_keys as usize).is_none();
    if wrapped {
        out.count("epoch-wrapped");
    }
    if popped_clear {
        out.count("clear-popped");
    }
    out.nontrivial = coalesced > 0 && (popped_clear || wrapped);
    out.set_sample(json!({"keys": n_keys, "len": len, "epoch": format!("{epoch:#x}"), "head": show_ops(&ops[..ops.len().min(12)])}));
    report(out, acc, json!({"keys": n_keys, "epoch": format!("{epoch:#x}"), "spelling_salt": salt}));
}

// ------------------------------------------------------------------------------------------------
// drop_or_take: HashMap vs BTreeMap backings.

fn dot_check<K>(ty: &str, keys: Vec<K>, rng: &mut Rng, out: &mut CaseOut)
where
    K: StructuralWritable + Clone + Eq + Hash + Ord + Debug,
{
    let hm: HashMap<K, u32> = keys.iter().cloned().map(|k| (k, 0)).collect();
    let bt: BTreeMap<K, u32> = keys.iter().cloned().map(|k| (k, 0)).collect();
    // Expected: keys sorted by the Value order of their structure (the documented order).
    let mut by_value: Vec<(Value, K)> = MapOps::keys(&hm).map(|k| (k.structure(), k.clone())).collect();
    by_value.sort_by(|a, b| a.0.cmp(&b.0));
    let sorted: Vec<K> = by_value.into_iter().map(|(_, k)| k).collect();
    let len = sorted.len();
    for kind in [DropOrTake::Drop, DropOrTake::Take] {
        let n = rng.usize_below(len + 3);
        let kname = match kind {
            DropOrTake::Drop => "drop",
            DropOrTake::Take => "take",
        };
        let from_hash: VecDeque<K> = drop_or_take(&hm, kind, n);
        let from_btree: VecDeque<K> = drop_or_take(&bt, kind, n);
        let expected: Vec<K> = match kind {
            DropOrTake::Drop => sorted.iter().take(n).cloned().collect(),
            DropOrTake::Take => sorted.iter().skip(n).cloned().collect(),
        };
        out.events += 2;
        if n > 0 && n < len {
            out.count("proper-subset-designated");
        }
        // The property speaks about *which* entries go: compare as sets (both lists are put in
        // the type's own order); a mere difference in the order of removal is only counted.
        let mut fh: Vec<K> = from_hash.into_iter().collect();
        let mut fb: Vec<K> = from_btree.into_iter().collect();
        let mut expected = expected;
        if fh != fb {
            out.count("same-keys-designated-in-different-order-or-different-keys");
        }
        fh.sort();
        fb.sort();
        expected.sort();
        if fh != fb {
            out.violation(
                P,
                format!("drop-or-take/backings-differ/{ty}/{kname}"),
                format!("{kname}({n}) designates different keys on a HashMap and on a BTreeMap holding the same keys"),
                json!({"keys": format!("{sorted:?}"), "n": n, "hashmap": format!("{fh:?}"), "btreemap": format!("{fb:?}")}),
            );
        }
        if fh != expected {
            out.violation(
                P,
                format!("drop-or-take/hashmap-not-in-value-order/{ty}/{kname}"),
                format!("{kname}({n}) on a HashMap does not designate the keys given by the Value order of key.structure()"),
                json!({"sorted": format!("{sorted:?}"), "n": n, "hashmap": format!("{fh:?}")}),
            );
        } else if fb != expected && fh == fb {
            out.violation(
                P,
                format!("drop-or-take/btreemap-not-in-value-order/{ty}/{kname}"),
                format!("{kname}({n}) on a BTreeMap does not designate the keys given by the Value order of key.structure()"),
                json!({"sorted": format!("{sorted:?}"), "n": n, "btreemap": format!("{fb:?}")}),
            );
        }
    }
}

fn some_i64(rng: &mut Rng) -> i64 {
    match rng.below(4) {
        0 => rng.range_i64(-4, 4),
        1 => *rng.pick(&[i64::MIN, i64::MAX, i32::MIN as i64, i32::MAX as i64, u32::MAX as i64, -1, 0]),
        2 => rng.range_i64(-1000, 1000),
        _ => rng.next_u64() as i64,
    }
}

fn dot_case(i: u64, rng: &mut Rng, out: &mut CaseOut) {
    let len = rng.usize_below(13);
    out.nontrivial = len >= 2;
    let ty = i % 6;
    out.sig(&ty);
    match ty {
        0 => {
            let keys: Vec<i32> = (0..len).map(|_| some_i64(rng) as i32).collect();
            out.sig(&keys);
            dot_check("i32", keys, rng, out);
        }
        1 => {
            let keys: Vec<i64> = (0..len).map(|_| some_i64(rng)).collect();
            out.sig(&keys);
            dot_check("i64", keys, rng, out);
        }
        2 => {
            let keys: Vec<u32> = (0..len).map(|_| some_i64(rng) as u32).collect();
            out.sig(&keys);
            dot_check("u32", keys, rng, out);
        }
        3 => {
            let keys: Vec<u64> = (0..len).map(|_| some_i64(rng) as u64).collect();
            out.sig(&keys);
            dot_check("u64", keys, rng, out);
        }
        4 => {
            let alphabet = ['a', 'b', 'B', '0', '9', ' ', '_', 'é', '\u{10000}', '~', 'z'];
            let keys: Vec<String> = (0..len)
                .map(|_| {
                    let l = rng.usize_below(4);
                    (0..l).map(|_| *rng.pick(&alphabet)).collect()
                })
                .collect();
            out.sig(&keys);
            dot_check("String", keys, rng, out);
        }
        _ => {
            let keys: Vec<Option<i32>> = (0..len).map(|_| if rng.chance(1, 4) { None } else { Some(some_i64(rng) as i32) }).collect();
            out.sig(&keys);
            out.count("option-key-cases");
            dot_check("Option<i32>", keys, rng, out);
        }
    }
}
