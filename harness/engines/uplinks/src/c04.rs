//! C04, small scope: the per-remote queue `Uplinks` as an object.
//!
//! The harness plays the write task: it pushes lane responses and special actions, and hands the
//! writer back (`replace_and_pop`) at enumerated points. What a popped `WriteTask` *sends* is not
//! inferred from its fields: its future is run against a real byte channel and the frames are
//! decoded with `RawResponseMessageDecoder`. A task's content is fixed when it is popped (it owns
//! its buffer and, for a map sync, the whole drained queue), so the future is run at that moment
//! and the oracle sees the frames with the pushes made up to then; the sender and buffer are kept
//! aside until the sequence says the write completed.
//!
//! Contract on the frame stream (per lane, two lanes named `lane0`/`lane1`, plus the unknown lane
//! `ghost`):
//!  * specials (linked / unlinked / lane-not-found) emerge first-in-first-out, and no event or
//!    synced frame is produced while a special is queued;
//!  * value lane: an event carries the latest body pushed and not yet sent (older ones may be
//!    skipped, never re-sent); supply lane: the bodies pushed, in order, each once; map lane: per
//!    key the latest operation pushed, a clear before everything pushed after it; map bodies are
//!    peeled as `@update(key:K) V` / `@remove(key:K)` / `@clear` and compared as (key, value);
//!  * synced only if a Synced was pushed and not yet answered (a queued flag: one frame answers
//!    all pushes made before it was popped) and, for value and map lanes, only when nothing pushed
//!    before that Synced is still unsent (for supply lanes an overtaken body is only counted: no
//!    property speaks about sync on stateless lanes);
//!  * when an `unlinked` frame for a lane emerges, everything pushed for that lane before that
//!    Unlinked was pushed is cancelled and must not emerge afterwards;
//!  * nothing else: in particular no event with an empty body unless the latest pushed body is empty.
//!  * after the final drain everything pushed and not cancelled has been sent.

use std::collections::{BTreeMap, VecDeque};
use std::future::Future;
use std::num::NonZeroUsize;
use std::pin::Pin;
use std::task::{Context, Poll};

use bytes::{Bytes, BytesMut};
use common::{json, CaseOut, Rng, Session};
use futures::task::noop_waker_ref;
use futures::Stream as _;
use swimos_agent_protocol::MapOperation;
use swimos_api::agent::UplinkKind;
use swimos_messages::protocol::{Notification, RawResponseMessageDecoder};
use swimos_model::Text;
use swimos_runtime::agent::DisconnectionReason;
use swimos_runtime::verif_hooks::{LaneRegistry, RemoteSender, SpecialAction, UplinkResponse, Uplinks, WriteTask};
use swimos_utilities::byte_channel::{byte_channel, ByteReader};
use swimos_utilities::trigger::promise;
use tokio_util::codec::FramedRead;
use uuid::Uuid;

use crate::c02::{value_of_text, value_text, KeyPool};
use crate::{depth, wanted, Shortest};

const P: &str = "C04";
const NODE: &str = "/node";
const GHOST: &str = "ghost";
const LANE_NAMES: [&str; 2] = ["lane0", "lane1"];
const IDENTITY: Uuid = Uuid::from_u128(0xabc0_0001);
const REMOTE: Uuid = Uuid::from_u128(0xabc0_0002);

#[derive(Clone, Copy, Debug, PartialEq, Eq, Hash, PartialOrd, Ord)]
pub enum Kind {
    Value,
    Supply,
    Map,
}

impl Kind {
    fn name(&self) -> &'static str {
        match self {
            Kind::Value => "value",
            Kind::Supply => "supply",
            Kind::Map => "map",
        }
    }
    fn uplink(&self) -> UplinkKind {
        match self {
            Kind::Value => UplinkKind::Value,
            Kind::Supply => UplinkKind::Supply,
            Kind::Map => UplinkKind::Map,
        }
    }
}

#[derive(Clone, Copy, Debug, PartialEq, Eq, Hash)]
pub enum UOp {
    /// Value / supply lane: a fresh, non-empty body.
    Data(u8),
    /// Value / supply lane: an empty body (a lane may well produce one, e.g. Extant).
    DataEmpty(u8),
    MapUpd(u8, u8),
    MapRem(u8, u8),
    MapClear(u8),
    Synced(u8),
    Linked(u8),
    Unlinked(u8),
    LaneNotFound,
    /// The outstanding write completed: the writer comes home (`replace_and_pop`).
    Complete,
}

fn show(op: &UOp) -> String {
    match op {
        UOp::Data(l) => format!("data(lane{l})"),
        UOp::DataEmpty(l) => format!("empty-data(lane{l})"),
        UOp::MapUpd(l, k) => format!("update(lane{l},k{k})"),
        UOp::MapRem(l, k) => format!("remove(lane{l},k{k})"),
        UOp::MapClear(l) => format!("clear(lane{l})"),
        UOp::Synced(l) => format!("synced(lane{l})"),
        UOp::Linked(l) => format!("linked(lane{l})"),
        UOp::Unlinked(l) => format!("unlinked(lane{l})"),
        UOp::LaneNotFound => "lane-not-found".to_string(),
        UOp::Complete => "write-done".to_string(),
    }
}

fn show_ops(ops: &[UOp]) -> String {
    ops.iter().map(show).collect::<Vec<_>>().join(" ")
}

// ------------------------------------------------------------------------------------------------
// Frames.

#[derive(Clone, Debug, PartialEq, Eq)]
enum FrameKind {
    Linked,
    Synced,
    Unlinked,
    Event,
}

impl FrameKind {
    fn name(&self) -> &'static str {
        match self {
            FrameKind::Linked => "linked",
            FrameKind::Synced => "synced",
            FrameKind::Unlinked => "unlinked",
            FrameKind::Event => "event",
        }
    }
}

#[derive(Clone, Debug)]
struct Frame {
    kind: FrameKind,
    lane: String,
    node: String,
    origin: Uuid,
    body: Bytes,
}

// ------------------------------------------------------------------------------------------------
// Oracle.

#[derive(Clone, Debug, PartialEq, Eq)]
enum Special {
    Linked(u8),
    Unlinked(u8, String),
    NotFound,
}

#[derive(Clone, Debug, PartialEq, Eq)]
enum MapPending {
    Upd { spelling: &'static str, value: u64, idx: u64 },
    Rem { idx: u64 },
}

impl MapPending {
    fn idx(&self) -> u64 {
        match self {
            MapPending::Upd { idx, .. } | MapPending::Rem { idx } => *idx,
        }
    }
}

struct LaneState {
    kind: Kind,
    /// value: the latest body pushed and not sent.
    value_pending: Option<(Vec<u8>, u64)>,
    /// every body ever pushed (value/supply), for classification of a wrong frame only.
    bodies_pushed: Vec<Vec<u8>>,
    supply_queue: VecDeque<(Vec<u8>, u64)>,
    map_pending: [Option<MapPending>; 2],
    map_clear_pending: Option<u64>,
    map_values_pushed: Vec<u64>,
    /// push indices of Synced pushes not answered yet.
    synced_pushes: Vec<u64>,
}

pub struct Oracle {
    lanes: Vec<LaneState>,
    specials: VecDeque<(Special, u64)>,
    idx: u64,
    pub frames: u64,
    pub found: Vec<(String, String)>,
    /// A fabricated event waits for the next frame so that the signature can name it.
    awaiting_next: Option<(String, String)>,
    pub value_skipped: u64,
    pub map_coalesced: u64,
    pub synced_coalesced: u64,
    pub special_overtook_data: u64,
    pub cancelled_by_unlinked: u64,
    pub supply_synced_overtook_data: u64,
    pub map_key_spelling_of_older_push: u64,
    pub synced_alone_while_busy: u64,
    pub empty_bodies_sent: u64,
}

impl Oracle {
    fn new(kinds: [Kind; 2]) -> Oracle {
        Oracle {
            lanes: kinds
                .iter()
                .map(|k| LaneState {
                    kind: *k,
                    value_pending: None,
                    bodies_pushed: Vec::new(),
                    supply_queue: VecDeque::new(),
                    map_pending: [None, None],
                    map_clear_pending: None,
                    map_values_pushed: Vec::new(),
                    synced_pushes: Vec::new(),
                })
                .collect(),
            specials: VecDeque::new(),
            idx: 0,
            frames: 0,
            found: Vec::new(),
            awaiting_next: None,
            value_skipped: 0,
            map_coalesced: 0,
            synced_coalesced: 0,
            special_overtook_data: 0,
            cancelled_by_unlinked: 0,
            supply_synced_overtook_data: 0,
            map_key_spelling_of_older_push: 0,
            synced_alone_while_busy: 0,
            empty_bodies_sent: 0,
        }
    }

    fn fail(&mut self, sig: impl Into<String>, what: impl Into<String>) {
        let sig = sig.into();
        if !self.found.iter().any(|(s, _)| *s == sig) {
            self.found.push((sig, what.into()));
        }
    }

    fn anything_pending(&self, l: usize) -> bool {
        let s = &self.lanes[l];
        s.value_pending.is_some() || !s.supply_queue.is_empty() || s.map_pending.iter().any(|p| p.is_some()) || s.map_clear_pending.is_some()
    }

    fn data_pending_anywhere(&self) -> bool {
        (0..self.lanes.len()).any(|l| self.anything_pending(l) || !self.lanes[l].synced_pushes.is_empty())
    }

    /// Record a push. `busy`: the writer is lent out (for coverage counters only).
    fn pushed(&mut self, op: UOp, pos: usize, busy: bool) -> u64 {
        self.idx += 1;
        let idx = self.idx;
        match op {
            UOp::Data(l) | UOp::DataEmpty(l) => {
                let body = if matches!(op, UOp::Data(_)) { format!("d{idx}").into_bytes() } else { Vec::new() };
                let s = &mut self.lanes[l as usize];
                s.bodies_pushed.push(body.clone());
                match s.kind {
                    Kind::Value => {
                        if s.value_pending.is_some() {
                            self.value_skipped += 1;
                        }
                        s.value_pending = Some((body, idx));
                    }
                    _ => s.supply_queue.push_back((body, idx)),
                }
            }
            UOp::MapUpd(l, k) => {
                let s = &mut self.lanes[l as usize];
                if s.map_pending[k as usize].is_some() {
                    self.map_coalesced += 1;
                }
                s.map_values_pushed.push(idx);
                s.map_pending[k as usize] = Some(MapPending::Upd { spelling: KeyPool::spelling(k, pos), value: idx, idx });
            }
            UOp::MapRem(l, k) => {
                let s = &mut self.lanes[l as usize];
                if s.map_pending[k as usize].is_some() {
                    self.map_coalesced += 1;
                }
                s.map_pending[k as usize] = Some(MapPending::Rem { idx });
            }
            UOp::MapClear(l) => {
                let s = &mut self.lanes[l as usize];
                self.map_coalesced += s.map_pending.iter().filter(|p| p.is_some()).count() as u64 + s.map_clear_pending.is_some() as u64;
                s.map_pending = [None, None];
                s.map_clear_pending = Some(idx);
            }
            UOp::Synced(l) => {
                if busy && !self.anything_pending(l as usize) {
                    self.synced_alone_while_busy += 1;
                }
                let s = &mut self.lanes[l as usize];
                if !s.synced_pushes.is_empty() {
                    self.synced_coalesced += 1;
                }
                s.synced_pushes.push(idx);
            }
            UOp::Linked(l) => {
                if busy && self.data_pending_anywhere() {
                    self.special_overtook_data += 1;
                }
                self.specials.push_back((Special::Linked(l), idx));
            }
            UOp::Unlinked(l) => {
                if busy && self.data_pending_anywhere() {
                    self.special_overtook_data += 1;
                }
                self.specials.push_back((Special::Unlinked(l, format!("gone-{idx}")), idx));
            }
            UOp::LaneNotFound => {
                if busy && self.data_pending_anywhere() {
                    self.special_overtook_data += 1;
                }
                self.specials.push_back((Special::NotFound, idx));
            }
            UOp::Complete => {}
        }
        idx
    }

    fn frame(&mut self, f: &Frame) {
        self.frames += 1;
        if let Some((sig, what)) = self.awaiting_next.take() {
            self.fail(format!("{sig}/next={}", f.kind.name()), what);
        }
        if f.node != NODE || f.origin != IDENTITY {
            self.fail(format!("frame-wrong-address/{}", f.kind.name()), format!("frame addressed from node {:?} origin {}", f.node, f.origin));
        }
        let lane = LANE_NAMES.iter().position(|n| *n == f.lane);
        match f.kind {
            FrameKind::Linked | FrameKind::Unlinked => self.special_frame(f, lane),
            FrameKind::Event | FrameKind::Synced => {
                let Some(l) = lane else {
                    self.fail(format!("frame-for-unknown-lane/{}", f.kind.name()), format!("{} frame for lane {:?}, which is not a lane of this agent", f.kind.name(), f.lane));
                    return;
                };
                if let Some((sp, _)) = self.specials.front() {
                    let sp = format!("{sp:?}");
                    self.fail(format!("data-overtakes-special/{}", f.kind.name()), format!("{} frame for {} produced while the special action {sp} is still queued", f.kind.name(), f.lane));
                }
                if f.kind == FrameKind::Event {
                    self.event_frame(f, l);
                } else {
                    self.synced_frame(f, l);
                }
            }
        }
    }

    fn special_frame(&mut self, f: &Frame, lane: Option<usize>) {
        let body = String::from_utf8_lossy(&f.body).to_string();
        let Some((head, idx)) = self.specials.front().cloned() else {
            self.fail(format!("special-not-pushed/{}", f.kind.name()), format!("{} frame for lane {:?} (body {body:?}) although no special action is queued", f.kind.name(), f.lane));
            return;
        };
        let matches = match (&head, &f.kind) {
            (Special::Linked(l), FrameKind::Linked) => lane == Some(*l as usize) && f.body.is_empty(),
            (Special::Unlinked(l, msg), FrameKind::Unlinked) => lane == Some(*l as usize) && body == *msg,
            (Special::NotFound, FrameKind::Unlinked) => f.lane == GHOST && body == "@laneNotFound",
            _ => false,
        };
        if !matches {
            let later = self.specials.iter().any(|(s, _)| match (s, &f.kind) {
                (Special::Linked(l), FrameKind::Linked) => lane == Some(*l as usize),
                (Special::Unlinked(l, msg), FrameKind::Unlinked) => lane == Some(*l as usize) && body == *msg,
                (Special::NotFound, FrameKind::Unlinked) => f.lane == GHOST,
                _ => false,
            });
            let class = if later { "out-of-order" } else { "not-pushed" };
            self.fail(format!("special-{class}/{}", f.kind.name()), format!("{} frame for lane {:?} (body {body:?}) but the oldest queued special action is {head:?}", f.kind.name(), f.lane));
            return;
        }
        self.specials.pop_front();
        if let Special::Unlinked(l, _) = head {
            // Everything pushed for the lane before this Unlinked was pushed is void from here on.
            let s = &mut self.lanes[l as usize];
            let mut n = 0;
            if s.value_pending.as_ref().map_or(false, |(_, i)| *i < idx) {
                s.value_pending = None;
                n += 1;
            }
            let before = s.supply_queue.len();
            s.supply_queue.retain(|(_, i)| *i > idx);
            n += before - s.supply_queue.len();
            for p in s.map_pending.iter_mut() {
                if p.as_ref().map_or(false, |p| p.idx() < idx) {
                    *p = None;
                    n += 1;
                }
            }
            if s.map_clear_pending.map_or(false, |i| i < idx) {
                s.map_clear_pending = None;
                n += 1;
            }
            let before = s.synced_pushes.len();
            s.synced_pushes.retain(|i| *i > idx);
            n += before - s.synced_pushes.len();
            self.cancelled_by_unlinked += n as u64;
        }
    }

    fn event_frame(&mut self, f: &Frame, l: usize) {
        let kind = self.lanes[l].kind;
        let body = f.body.to_vec();
        let shown = String::from_utf8_lossy(&body).to_string();
        match kind {
            Kind::Value => {
                let s = &mut self.lanes[l];
                if s.value_pending.as_ref().map_or(false, |(b, _)| *b == body) {
                    s.value_pending = None;
                    if body.is_empty() {
                        self.empty_bodies_sent += 1;
                    }
                } else {
                    self.wrong_body(l, &body, &shown);
                }
            }
            Kind::Supply => {
                let s = &mut self.lanes[l];
                if s.supply_queue.front().map_or(false, |(b, _)| *b == body) {
                    s.supply_queue.pop_front();
                    if body.is_empty() {
                        self.empty_bodies_sent += 1;
                    }
                } else if !body.is_empty() && s.supply_queue.iter().any(|(b, _)| *b == body) {
                    self.fail("supply-out-of-order", format!("supply event {shown:?} for lane{l} sent before a body pushed earlier"));
                    self.lanes[l].supply_queue.retain(|(b, _)| *b != body);
                } else {
                    self.wrong_body(l, &body, &shown);
                }
            }
            Kind::Map => self.map_event(l, &shown),
        }
    }

    /// An event body that is not what the lane has outstanding: say what it is instead.
    fn wrong_body(&mut self, l: usize, body: &[u8], shown: &str) {
        let kind = self.lanes[l].kind.name();
        if body.is_empty() {
            // Named like the end-to-end engine names it: the next frame is part of the signature.
            self.awaiting_next = Some((
                format!("fabricated-event/empty-body/{kind}"),
                format!("event with an empty body for lane{l} ({kind}) although no body is outstanding for that lane: no lane produced it"),
            ));
        } else if self.lanes[l].bodies_pushed.iter().any(|b| b == body) {
            self.fail(format!("event-resent-or-stale/{kind}"), format!("event {shown:?} for lane{l} ({kind}) was pushed once, but is not outstanding now (already sent, superseded or cancelled by unlinked)"));
        } else if self.lanes.iter().any(|s| s.bodies_pushed.iter().any(|b| b == body)) {
            self.fail(format!("event-of-another-lane/{kind}"), format!("event {shown:?} sent for lane{l} was pushed for the other lane"));
        } else {
            self.fail(format!("fabricated-event/unknown-body/{kind}"), format!("event {shown:?} for lane{l} ({kind}) was never pushed"));
        }
    }

    fn map_event(&mut self, l: usize, shown: &str) {
        // Peel the envelope the runtime wraps around (key text, value text).
        enum M<'a> {
            Upd(&'a str, &'a str),
            Rem(&'a str),
            Clear,
        }
        let parsed = if shown == "@clear" {
            Some(M::Clear)
        } else if let Some(rest) = shown.strip_prefix("@update(key:") {
            rest.find(") ").map(|i| M::Upd(&rest[..i], &rest[i + 2..]))
        } else if let Some(rest) = shown.strip_prefix("@remove(key:") {
            rest.strip_suffix(')').map(M::Rem)
        } else {
            None
        };
        let pool = key_pool();
        let Some(parsed) = parsed else {
            if shown.is_empty() {
                self.awaiting_next = Some(("fabricated-event/empty-body/map".into(), format!("event with an empty body for lane{l} (map): not a map operation, no lane produced it")));
            } else {
                self.fail("fabricated-event/not-a-map-operation/map", format!("event {shown:?} for lane{l} is not a map operation envelope"));
            }
            return;
        };
        if let (Some(c), false) = (self.lanes[l].map_clear_pending, matches!(parsed, M::Clear)) {
            self.fail("entry-overtakes-clear/map", format!("map event {shown:?} for lane{l} sent while the clear pushed before it (push {c}) is still queued"));
            return;
        }
        match parsed {
            M::Clear => {
                if self.lanes[l].map_clear_pending.take().is_none() {
                    self.fail("event-resent-or-stale/map/clear", format!("clear for lane{l} sent although no clear is outstanding"));
                }
            }
            M::Upd(kt, vt) => {
                let Some(k) = pool.logical(kt).filter(|k| *k < 2) else {
                    self.fail("fabricated-event/unknown-key/map", format!("update for key text {kt:?}, never pushed for lane{l}"));
                    return;
                };
                let v = value_of_text(vt.as_bytes());
                match self.lanes[l].map_pending[k as usize].clone() {
                    Some(MapPending::Upd { spelling, value, .. }) if Some(value) == v && vt == value_text(value) => {
                        self.lanes[l].map_pending[k as usize] = None;
                        if spelling != kt {
                            // Same key as Recon, but the text is the one of an older push whose entry
                            // was re-used: byte-for-byte this body was never produced by the lane.
                            self.map_key_spelling_of_older_push += 1;
                            self.fail(
                                "body-not-produced/map/key-text-of-older-push",
                                format!("update for lane{l} carries value {vt:?} pushed with key text {spelling:?} but is sent with key text {kt:?} (Recon-equal, kept from an older queued update of that key)"),
                            );
                        }
                    }
                    _ => {
                        let known = v.map_or(false, |v| self.lanes[l].map_values_pushed.contains(&v));
                        if known {
                            self.fail("event-resent-or-stale/map/update", format!("update {shown:?} for lane{l}: that value was pushed but is not the outstanding operation for its key"));
                        } else {
                            self.fail("fabricated-event/unknown-body/map", format!("update {shown:?} for lane{l}: value never pushed for this lane"));
                        }
                    }
                }
            }
            M::Rem(kt) => {
                let Some(k) = pool.logical(kt).filter(|k| *k < 2) else {
                    self.fail("fabricated-event/unknown-key/map", format!("remove for key text {kt:?}, never pushed for lane{l}"));
                    return;
                };
                match self.lanes[l].map_pending[k as usize] {
                    Some(MapPending::Rem { .. }) => self.lanes[l].map_pending[k as usize] = None,
                    _ => self.fail("event-resent-or-stale/map/remove", format!("remove of k{k} for lane{l} sent although no remove is outstanding for that key")),
                }
            }
        }
    }

    fn synced_frame(&mut self, f: &Frame, l: usize) {
        if !f.body.is_empty() {
            self.fail("synced-with-body", "synced frame with a body");
        }
        let kind = self.lanes[l].kind;
        let Some(latest) = self.lanes[l].synced_pushes.iter().copied().max() else {
            self.fail(format!("synced-not-pushed/{}", kind.name()), format!("synced for lane{l} although no Synced is outstanding for it (never pushed, already answered or cancelled by unlinked)"));
            return;
        };
        self.lanes[l].synced_pushes.clear();
        let s = &self.lanes[l];
        let overtaken = match kind {
            Kind::Value => s.value_pending.as_ref().map_or(false, |(_, i)| *i < latest),
            Kind::Supply => s.supply_queue.iter().any(|(_, i)| *i < latest),
            Kind::Map => s.map_pending.iter().flatten().any(|p| p.idx() < latest) || s.map_clear_pending.map_or(false, |i| i < latest),
        };
        if overtaken {
            if kind == Kind::Supply {
                self.supply_synced_overtook_data += 1;
            } else {
                self.fail(format!("synced-overtakes-data/{}", kind.name()), format!("synced for lane{l} sent while data pushed before that Synced is still unsent"));
            }
        }
    }

    /// After the final drain: everything pushed and not cancelled must have been sent.
    fn finish(&mut self) {
        if let Some((sig, what)) = self.awaiting_next.take() {
            self.fail(format!("{sig}/next=none"), what);
        }
        if let Some((sp, _)) = self.specials.front().cloned() {
            let name = match sp {
                Special::Linked(_) => "linked",
                Special::Unlinked(..) => "unlinked",
                Special::NotFound => "lane-not-found",
            };
            self.fail(format!("undelivered/special/{name}"), format!("the writer is home but the special action {sp:?} was never sent"));
        }
        for l in 0..self.lanes.len() {
            let kind = self.lanes[l].kind.name();
            if self.anything_pending(l) {
                self.fail(format!("undelivered/data/{kind}"), format!("the writer is home but data pushed for lane{l} ({kind}) and not cancelled was never sent"));
            }
            if !self.lanes[l].synced_pushes.is_empty() {
                self.fail(format!("undelivered/synced/{kind}"), format!("the writer is home but the Synced pushed for lane{l} ({kind}) was never sent"));
            }
        }
    }
}

fn key_pool() -> &'static KeyPool {
    static POOL: std::sync::OnceLock<KeyPool> = std::sync::OnceLock::new();
    POOL.get_or_init(|| KeyPool::build(&mut Vec::new()))
}

// ------------------------------------------------------------------------------------------------
// Driving the real object.

pub struct Fixture {
    registry: LaneRegistry,
    ids: [u64; 2],
}

impl Fixture {
    pub fn new() -> Fixture {
        let mut registry = LaneRegistry::default();
        // Ids that are not 0 and 1 (a burnt one first).
        let _ = registry.add_endpoint(Text::new("unused"));
        let a = registry.add_endpoint(Text::new(LANE_NAMES[0]));
        let b = registry.add_endpoint(Text::new(LANE_NAMES[1]));
        Fixture { registry, ids: [a, b] }
    }
}

enum Outcome {
    Done,
    /// `write-done` while no write is outstanding: not a sequence the write task can produce.
    Invalid,
    Inconclusive(String),
}

struct Run<'a> {
    fx: &'a Fixture,
    kinds: [Kind; 2],
    uplinks: Uplinks,
    reader: FramedRead<ByteReader, RawResponseMessageDecoder>,
    lent: Option<(RemoteSender, BytesMut)>,
    oracle: Oracle,
    tasks: u64,
}

impl<'a> Run<'a> {
    fn new(fx: &'a Fixture, kinds: [Kind; 2]) -> Run<'a> {
        let (tx, rx) = byte_channel(NonZeroUsize::new(4096).unwrap());
        let (done_tx, _done_rx) = promise::promise::<DisconnectionReason>();
        let uplinks = Uplinks::new(Text::new(NODE), IDENTITY, REMOTE, tx, done_tx);
        Run { fx, kinds, uplinks, reader: FramedRead::new(rx, RawResponseMessageDecoder), lent: None, oracle: Oracle::new(kinds), tasks: 0 }
    }

    fn read_frames(&mut self) -> Result<(), String> {
        let mut cx = Context::from_waker(noop_waker_ref());
        let mut pending_streak = 0;
        for _ in 0..10_000 {
            let polled = Pin::new(&mut self.reader).poll_next(&mut cx);
            if polled.is_ready() {
                pending_streak = 0;
            }
            match polled {
                Poll::Ready(Some(Ok(msg))) => {
                    let (kind, body) = match msg.envelope {
                        Notification::Linked => (FrameKind::Linked, Bytes::new()),
                        Notification::Synced => (FrameKind::Synced, Bytes::new()),
                        Notification::Unlinked(b) => (FrameKind::Unlinked, b.unwrap_or_default()),
                        Notification::Event(b) => (FrameKind::Event, b),
                    };
                    let f = Frame { kind, lane: msg.path.lane.as_str().to_string(), node: msg.path.node.as_str().to_string(), origin: msg.origin, body };
                    self.oracle.frame(&f);
                }
                Poll::Ready(Some(Err(e))) => {
                    self.oracle.fail("frame-undecodable", format!("the bytes written by a WriteTask do not decode as a response frame: {e}"));
                    return Ok(());
                }
                Poll::Ready(None) => return Ok(()),
                // One Pending may be the byte channel's cooperative budget (it wakes itself and
                // resets): poll once more before concluding that nothing is left.
                Poll::Pending => {
                    pending_streak += 1;
                    if pending_streak >= 2 {
                        return Ok(());
                    }
                    continue;
                }
            }
        }
        Err("frame reader did not settle in 10000 polls".into())
    }

    /// Run the write now (its content is fixed), keep the writer aside until `write-done`.
    fn launch(&mut self, task: WriteTask) -> Result<(), String> {
        self.tasks += 1;
        let mut fut = Box::pin(task.into_future());
        let mut cx = Context::from_waker(noop_waker_ref());
        for _ in 0..10_000 {
            match fut.as_mut().poll(&mut cx) {
                Poll::Ready((sender, buffer, result)) => {
                    if let Err(e) = result {
                        self.oracle.fail("write-failed", format!("a WriteTask failed on an open channel with room: {e}"));
                    }
                    self.read_frames()?;
                    self.lent = Some((sender, buffer));
                    return Ok(());
                }
                Poll::Pending => self.read_frames()?,
            }
        }
        Err("write future did not complete in 10000 polls".into())
    }

    fn step(&mut self, op: UOp, pos: usize) -> Outcome {
        let busy = self.lent.is_some();
        let result: Option<WriteTask> = match op {
            UOp::Complete => {
                let Some((sender, buffer)) = self.lent.take() else {
                    return Outcome::Invalid;
                };
                self.uplinks.replace_and_pop(sender, buffer, &self.fx.registry)
            }
            UOp::Linked(l) => {
                self.oracle.pushed(op, pos, busy);
                self.uplinks.push_special(SpecialAction::Linked(self.fx.ids[l as usize]), &self.fx.registry)
            }
            UOp::Unlinked(l) => {
                let idx = self.oracle.pushed(op, pos, busy);
                self.uplinks.push_special(SpecialAction::unlinked(self.fx.ids[l as usize], Text::new(&format!("gone-{idx}"))), &self.fx.registry)
            }
            UOp::LaneNotFound => {
                self.oracle.pushed(op, pos, busy);
                self.uplinks.push_special(SpecialAction::lane_not_found(Text::new(GHOST)), &self.fx.registry)
            }
            UOp::Data(l) | UOp::DataEmpty(l) | UOp::MapUpd(l, _) | UOp::MapRem(l, _) | UOp::MapClear(l) | UOp::Synced(l) => {
                let idx = self.oracle.pushed(op, pos, busy);
                let kind = self.kinds[l as usize];
                let resp = match op {
                    UOp::Data(_) | UOp::DataEmpty(_) => {
                        let body = if matches!(op, UOp::Data(_)) { Bytes::from(format!("d{idx}").into_bytes()) } else { Bytes::new() };
                        if kind == Kind::Value {
                            UplinkResponse::Value(body)
                        } else {
                            UplinkResponse::Supply(body)
                        }
                    }
                    UOp::MapUpd(_, k) => UplinkResponse::Map(MapOperation::Update { key: BytesMut::from(KeyPool::spelling(k, pos).as_bytes()), value: BytesMut::from(value_text(idx).as_bytes()) }),
                    UOp::MapRem(_, k) => UplinkResponse::Map(MapOperation::Remove { key: BytesMut::from(KeyPool::spelling(k, pos).as_bytes()) }),
                    UOp::MapClear(_) => UplinkResponse::Map(MapOperation::Clear),
                    _ => UplinkResponse::Synced(kind.uplink()),
                };
                match self.uplinks.push(self.fx.ids[l as usize], resp, &self.fx.registry) {
                    Ok(t) => t,
                    Err(e) => {
                        self.oracle.fail("push-rejected", format!("push of {} was rejected: {e}", show(&op)));
                        None
                    }
                }
            }
        };
        match result {
            Some(task) => {
                if busy && op != UOp::Complete {
                    self.oracle.fail("second-writer", format!("{} returned a write task while the writer is lent out", show(&op)));
                }
                if let Err(e) = self.launch(task) {
                    return Outcome::Inconclusive(e);
                }
            }
            None => {
                if !busy {
                    self.oracle.fail("writer-not-used", format!("{} returned no write task although the writer was home", show(&op)));
                }
            }
        }
        Outcome::Done
    }

    fn drain(&mut self) -> Outcome {
        for _ in 0..64 {
            if self.lent.is_none() {
                self.oracle.finish();
                return Outcome::Done;
            }
            if let Outcome::Inconclusive(e) = self.step(UOp::Complete, 0) {
                return Outcome::Inconclusive(e);
            }
        }
        self.oracle.fail("drain-not-finished", "the queue still pops write tasks after 64 completed writes with no new input");
        Outcome::Done
    }
}

#[derive(Default)]
struct Acc {
    sequences: u64,
    invalid: u64,
    inconclusive: Option<String>,
    frames: u64,
    tasks: u64,
    counters: BTreeMap<&'static str, u64>,
    found: BTreeMap<String, (Vec<UOp>, String, u64)>,
}

fn run_one(fx: &Fixture, kinds: [Kind; 2], ops: &[UOp], acc: &mut Acc) {
    let mut run = Run::new(fx, kinds);
    for (pos, op) in ops.iter().enumerate() {
        match run.step(*op, pos) {
            Outcome::Done => {}
            Outcome::Invalid => {
                acc.invalid += 1;
                return;
            }
            Outcome::Inconclusive(e) => {
                acc.inconclusive = Some(e);
                return;
            }
        }
    }
    if let Outcome::Inconclusive(e) = run.drain() {
        acc.inconclusive = Some(e);
        return;
    }
    acc.sequences += 1;
    acc.frames += run.oracle.frames;
    acc.tasks += run.tasks;
    let o = &run.oracle;
    for (k, v) in [
        ("value-skipped", o.value_skipped),
        ("map-op-replaced-in-queue", o.map_coalesced),
        ("synced-pushes-coalesced", o.synced_coalesced),
        ("special-queued-ahead-of-data", o.special_overtook_data),
        ("pushes-cancelled-by-unlinked", o.cancelled_by_unlinked),
        ("supply-synced-overtook-queued-body", o.supply_synced_overtook_data),
        ("synced-queued-alone-while-writer-busy", o.synced_alone_while_busy),
        ("empty-bodies-pushed-and-sent", o.empty_bodies_sent),
    ] {
        *acc.counters.entry(k).or_insert(0) += v;
    }
    for (sig, what) in &run.oracle.found {
        let e = acc.found.entry(sig.clone()).or_insert_with(|| (ops.to_vec(), what.clone(), 0));
        e.2 += 1;
        if ops.len() < e.0.len() {
            *e = (ops.to_vec(), what.clone(), e.2);
        }
    }
}

fn report(out: &mut CaseOut, acc: Acc, kinds: [Kind; 2]) {
    out.events += acc.frames;
    out.add("sequences", acc.sequences);
    out.add("sequences-skipped-write-done-without-write", acc.invalid);
    out.add("write-tasks-run", acc.tasks);
    for (k, v) in &acc.counters {
        out.add(k, *v);
    }
    if let Some(e) = acc.inconclusive {
        out.inconclusive(e);
    }
    for (sig, (ops, what, count)) in acc.found {
        out.violation(
            P,
            sig,
            format!("{what} [lanes: lane0 {}, lane1 {}; sequence: {}, then every write completes]", kinds[0].name(), kinds[1].name(), show_ops(&ops)),
            json!({"lane_kinds": [kinds[0].name(), kinds[1].name()], "sequence": show_ops(&ops), "sequences_with_this_signature_in_case": count}),
        );
    }
}

fn alphabet(kinds: [Kind; 2]) -> Vec<UOp> {
    let mut a = Vec::new();
    for l in 0..2u8 {
        match kinds[l as usize] {
            Kind::Value | Kind::Supply => {
                a.push(UOp::Data(l));
                a.push(UOp::DataEmpty(l));
            }
            Kind::Map => {
                a.push(UOp::MapUpd(l, 0));
                a.push(UOp::MapUpd(l, 1));
                a.push(UOp::MapRem(l, 0));
                a.push(UOp::MapClear(l));
            }
        }
        a.push(UOp::Synced(l));
        a.push(UOp::Linked(l));
        a.push(UOp::Unlinked(l));
    }
    a.push(UOp::LaneNotFound);
    a.push(UOp::Complete);
    a
}

/// Every sequence extending `seq` up to length `d` is run (each followed by the completion of every
/// write), `seq` included.
fn explore(fx: &Fixture, kinds: [Kind; 2], alpha: &[UOp], seq: &mut Vec<UOp>, lent: bool, d: usize, acc: &mut Acc) {
    if !seq.is_empty() {
        let invalid = acc.invalid;
        run_one(fx, kinds, seq, acc);
        if acc.invalid > invalid {
            // `write-done` without a write: no extension of this sequence is a run of the write task.
            return;
        }
    }
    if seq.len() >= d {
        return;
    }
    for op in alpha {
        // `write-done` right after the start or right after a `write-done` that found nothing
        // cannot be told here without the object: such sequences are skipped when run. The one
        // certain case is pruned: no write can be outstanding before the first push.
        if *op == UOp::Complete && !lent {
            continue;
        }
        seq.push(*op);
        explore(fx, kinds, alpha, seq, true, d, acc);
        seq.pop();
    }
}

const PAIRS: [[Kind; 2]; 6] = [
    [Kind::Value, Kind::Value],
    [Kind::Value, Kind::Supply],
    [Kind::Value, Kind::Map],
    [Kind::Supply, Kind::Supply],
    [Kind::Supply, Kind::Map],
    [Kind::Map, Kind::Map],
];

pub fn run(s: &mut Session) {
    if wanted(s, "uplinks-exhaustive") {
        let d = depth(s, 5, 6);
        let plen = 2.min(d);
        // One case per (kind pair, prefix).
        let mut cases: Vec<([Kind; 2], Vec<UOp>)> = Vec::new();
        for kinds in PAIRS {
            let alpha = alphabet(kinds);
            let mut prefixes: Vec<Vec<UOp>> = vec![vec![]];
            for i in 0..plen {
                prefixes = prefixes
                    .iter()
                    .flat_map(|p| {
                        alpha.iter().filter(move |o| !(i == 0 && **o == UOp::Complete)).map(move |o| {
                            let mut q = p.clone();
                            q.push(*o);
                            q
                        })
                    })
                    .collect();
            }
            for p in prefixes {
                cases.push((kinds, p));
            }
        }
        let rule = format!(
            "every sequence of length 1..={d} over, per lane (2 lanes, every unordered pair of kinds value/supply/map): push data (value/supply: fresh body, empty body; map: update k0, update k1, remove k0, clear; map key text in Recon-equal spellings by position), push Synced, push_special Linked, Unlinked; plus LaneNotFound and write-done (replace_and_pop; only while a write is outstanding), on a fresh Uplinks, each followed by the completion of every write; each popped WriteTask's future is run against a 4 KiB byte channel and its frames decoded; one case per (kind pair, prefix of length {plen}) (its whole subtree; the first case of a kind pair also runs the shorter sequences); non-trivial when a Synced was queued alone behind a busy writer or pushes were cancelled by a queued Unlinked in the subtree; distinct by kind pair and prefix"
        );
        let shortest = Shortest::default();
        s.part("uplinks-exhaustive", &rule, true, cases.len() as u64, |i, _rng, out| {
            let (kinds, p) = &cases[i as usize];
            let fx = Fixture::new();
            let alpha = alphabet(*kinds);
            let mut acc = Acc::default();
            let mut seq = p.clone();
            explore(&fx, *kinds, &alpha, &mut seq, !p.is_empty(), d, &mut acc);
            let first_of_pair = i == 0 || cases[i as usize - 1].0 != *kinds;
            if first_of_pair && plen > 1 {
                explore(&fx, *kinds, &alpha, &mut Vec::new(), false, plen - 1, &mut acc);
            }
            for (sig, (ops, _, _)) in &acc.found {
                shortest.offer(sig, ops.len(), &format!("[lane0 {}, lane1 {}] {}", kinds[0].name(), kinds[1].name(), show_ops(ops)));
            }
            out.sig(&(kinds, show_ops(p)));
            out.nontrivial = acc.counters.get("synced-queued-alone-while-writer-busy").copied().unwrap_or(0) > 0 || acc.counters.get("pushes-cancelled-by-unlinked").copied().unwrap_or(0) > 0;
            if i < 3 {
                out.set_sample(json!({"kinds": [kinds[0].name(), kinds[1].name()], "prefix": show_ops(p), "sequences": acc.sequences, "frames": acc.frames}));
            }
            report(out, acc, *kinds);
        });
        shortest.into_notes(s, "uplinks-exhaustive");
    }

    if wanted(s, "uplinks-random") {
        let cases = s.args.budget(30_000, 1_000_000);
        s.part(
            "uplinks-random",
            "seeded sequences of 40 operations from the same alphabet (kind pair, rate of write-done and of specials drawn per case; write-done only while a write is outstanding), then every write completes; same frame oracle; non-trivial when data was coalesced while the writer was busy and a special was queued ahead of data; distinct by hash of kinds and sequence",
            false,
            cases,
            |_i, rng, out| random_case(rng, out),
        );
    }
}

fn random_case(rng: &mut Rng, out: &mut CaseOut) {
    let kinds = *rng.pick(&PAIRS);
    let kinds = if rng.bool() { kinds } else { [kinds[1], kinds[0]] };
    let alpha: Vec<UOp> = alphabet(kinds);
    let done_pct = *rng.pick(&[10u64, 20, 35, 50]);
    let special_pct = *rng.pick(&[5u64, 15, 30]);
    let fx = Fixture::new();
    let mut run = Run::new(&fx, kinds);
    let mut ops: Vec<UOp> = Vec::with_capacity(40);
    let data_ops: Vec<UOp> = alpha.iter().copied().filter(|o| !matches!(o, UOp::Linked(_) | UOp::Unlinked(_) | UOp::LaneNotFound | UOp::Complete)).collect();
    let special_ops: Vec<UOp> = alpha.iter().copied().filter(|o| matches!(o, UOp::Linked(_) | UOp::Unlinked(_) | UOp::LaneNotFound)).collect();
    while ops.len() < 40 {
        let r = rng.below(100);
        let op = if r < done_pct && run.lent.is_some() {
            UOp::Complete
        } else if r < done_pct + special_pct {
            *rng.pick(&special_ops)
        } else {
            *rng.pick(&data_ops)
        };
        let pos = ops.len();
        ops.push(op);
        match run.step(op, pos) {
            Outcome::Done => {}
            Outcome::Invalid => {
                ops.pop();
            }
            Outcome::Inconclusive(e) => {
                out.inconclusive(e);
                return;
            }
        }
    }
    if let Outcome::Inconclusive(e) = run.drain() {
        out.inconclusive(e);
        return;
    }
    out.sig(&(kinds, &ops));
    let o = &run.oracle;
    out.events += o.frames;
    out.nontrivial = (o.value_skipped + o.map_coalesced + o.synced_coalesced) > 0 && o.special_overtook_data > 0;
    for (k, v) in [
        ("value-skipped", o.value_skipped),
        ("map-op-replaced-in-queue", o.map_coalesced),
        ("synced-pushes-coalesced", o.synced_coalesced),
        ("special-queued-ahead-of-data", o.special_overtook_data),
        ("pushes-cancelled-by-unlinked", o.cancelled_by_unlinked),
        ("supply-synced-overtook-queued-body", o.supply_synced_overtook_data),
        ("synced-queued-alone-while-writer-busy", o.synced_alone_while_busy),
        ("empty-bodies-pushed-and-sent", o.empty_bodies_sent),
    ] {
        out.add(k, v);
    }
    out.add("write-tasks-run", run.tasks);
    out.set_sample(json!({"kinds": [kinds[0].name(), kinds[1].name()], "head": show_ops(&ops[..12])}));
    for (sig, what) in run.oracle.found.clone() {
        out.violation(
            P,
            sig,
            format!("{what} [lanes: lane0 {}, lane1 {}; sequence: {}, then every write completes]", kinds[0].name(), kinds[1].name(), show_ops(&ops)),
            json!({"lane_kinds": [kinds[0].name(), kinds[1].name()], "sequence": show_ops(&ops)}),
        );
    }
}
