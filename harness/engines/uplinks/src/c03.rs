//! C03, small scope: `WriteQueues` (the map lane's event queue plus per-remote sync queues) under
//! enumerated interleavings of `push_operation`, `sync(id, keys)` and `pop`, against the lane's
//! map kept by the harness (the queue carries keys only; values are read from the map when an
//! entry is popped, exactly as `MapEventQueue::pop` for `WriteQueues` does).
//!
//! Observers of one remote `id` (all fed from the same popped stream; they differ in which
//! *standard* events reach them, which is decided by the runtime's link table):
//!  * linked observer        – linked to the lane all along: receives every standard event;
//!  * not-yet-linked observer – syncs without having linked: the runtime links it implicitly when
//!    the lane emits the first response *targeted* at it (a sync event whose key is still present,
//!    or synced); standard events emitted before that do not reach it;
//!  * linked observer with history – as the first, but its replica also holds what it received
//!    before the sync request (a remote that re-syncs).
//!
//! Oracle at `Synced(id)` (matched first-in-first-out to the sync requests of `id`): the replica
//! made of everything the observer received since the request holds, for every key, a state
//! (value or absent) that the lane's map held at some time in [request, synced]. Times are
//! harness steps; the window is closed at both ends.

use std::collections::{BTreeMap, VecDeque};

use common::{json, CaseOut, Rng, Session};
use swimos_agent::verif_hooks::{ToWrite, WriteQueues};
use swimos_agent_protocol::MapOperation;
use uuid::Uuid;

use crate::{depth, wanted, Shortest};

const P: &str = "C03";

#[derive(Clone, Copy, Debug, PartialEq, Eq, Hash)]
pub enum SOp {
    Upd(u8),
    Rem(u8),
    Clear,
    Sync(u8),
    Pop,
}

fn show_ops(ops: &[SOp]) -> String {
    ops.iter()
        .map(|o| match o {
            SOp::Upd(k) => format!("upd(k{k})"),
            SOp::Rem(k) => format!("rem(k{k})"),
            SOp::Clear => "clear".to_string(),
            SOp::Sync(i) => format!("sync(r{i})"),
            SOp::Pop => "pop".to_string(),
        })
        .collect::<Vec<_>>()
        .join(" ")
}

fn rid(i: u8) -> Uuid {
    Uuid::from_u128(0x1000 + i as u128)
}

fn rid_back(id: Uuid) -> Option<u8> {
    let n = id.as_u128();
    if (0x1000..0x1100).contains(&n) {
        Some((n - 0x1000) as u8)
    } else {
        None
    }
}

/// What the last frame that touched a key was (for signatures only: it names the cause).
#[derive(Clone, Copy, PartialEq, Eq)]
enum Last {
    Nothing,
    SyncEvent,
    Update,
    Remove,
    Clear,
}

impl Last {
    fn name(&self) -> &'static str {
        match self {
            Last::Nothing => "none",
            Last::SyncEvent => "sync-event",
            Last::Update => "update",
            Last::Remove => "remove",
            Last::Clear => "clear",
        }
    }
}

/// A replica: per key the state, the kind of the last frame that set it and when.
#[derive(Clone)]
struct Map {
    state: Vec<Option<u64>>,
    last: Vec<(Last, u64)>,
    /// Standard frames for the key (or clears) that did not reach this observer.
    missed: Vec<bool>,
}

impl Map {
    fn new(n: usize) -> Map {
        Map { state: vec![None; n], last: vec![(Last::Nothing, 0); n], missed: vec![false; n] }
    }
}

struct Instance {
    t_sync: u64,
    linked: Map,
    /// `None` when the remote was already linked at the request (then it is a linked observer).
    not_yet_linked: Option<Map>,
}

struct Remote {
    instances: VecDeque<Instance>,
    /// Has the lane emitted a response targeted at this remote yet (implicit link)?
    implicitly_linked: bool,
    with_history: Map,
}

#[derive(Clone, Copy)]
enum Frame {
    Upd(u8, u64),
    Rem(u8),
    Clear,
    SyncUpd(u8, u64),
}

fn apply(m: &mut Map, f: Frame, t: u64) {
    match f {
        Frame::Upd(k, v) => {
            m.state[k as usize] = Some(v);
            m.last[k as usize] = (Last::Update, t);
        }
        Frame::SyncUpd(k, v) => {
            m.state[k as usize] = Some(v);
            m.last[k as usize] = (Last::SyncEvent, t);
        }
        Frame::Rem(k) => {
            m.state[k as usize] = None;
            m.last[k as usize] = (Last::Remove, t);
        }
        Frame::Clear => {
            for k in 0..m.state.len() {
                m.state[k] = None;
                m.last[k] = (Last::Clear, t);
            }
        }
    }
}

fn miss(m: &mut Map, f: Frame) {
    match f {
        Frame::Upd(k, _) | Frame::Rem(k) | Frame::SyncUpd(k, _) => m.missed[k as usize] = true,
        Frame::Clear => m.missed.iter_mut().for_each(|x| *x = true),
    }
}

pub struct Exec {
    q: WriteQueues<u8>,
    n_keys: usize,
    reference: Vec<Option<u64>>,
    /// Per key: (time, state from that time on); starts with (0, None).
    history: Vec<Vec<(u64, Option<u64>)>>,
    remotes: Vec<Remote>,
    t: u64,
    value: u64,
    pub frames: u64,
    pub syncs_answered: u64,
    pub sync_events: u64,
    pub sync_event_key_gone: u64,
    pub update_key_gone: u64,
    pub standard_before_link: u64,
    pub overlapping_syncs: u64,
    pub found: Vec<(String, String)>,
}

impl Exec {
    pub fn new(n_keys: usize, n_remotes: usize) -> Exec {
        Exec {
            q: WriteQueues::default(),
            n_keys,
            reference: vec![None; n_keys],
            history: vec![vec![(0, None)]; n_keys],
            remotes: (0..n_remotes).map(|_| Remote { instances: VecDeque::new(), implicitly_linked: false, with_history: Map::new(n_keys) }).collect(),
            t: 0,
            value: 0,
            frames: 0,
            syncs_answered: 0,
            sync_events: 0,
            sync_event_key_gone: 0,
            update_key_gone: 0,
            standard_before_link: 0,
            overlapping_syncs: 0,
            found: Vec::new(),
        }
    }

    pub fn has(&self, k: u8) -> bool {
        self.reference[k as usize].is_some()
    }

    fn fail(&mut self, sig: impl Into<String>, what: impl Into<String>) {
        let sig = sig.into();
        if !self.found.iter().any(|(s, _)| *s == sig) {
            self.found.push((sig, what.into()));
        }
    }

    fn set(&mut self, k: usize, s: Option<u64>) {
        self.reference[k] = s;
        self.history[k].push((self.t, s));
    }

    /// `key_order`: the order in which the lane's map hands out its keys at a sync request.
    pub fn step(&mut self, op: SOp, key_order: &[u8]) {
        self.t += 1;
        match op {
            SOp::Upd(k) => {
                self.value += 1;
                let v = self.value;
                self.set(k as usize, Some(v));
                self.q.push_operation(MapOperation::Update { key: k, value: () });
            }
            SOp::Rem(k) => {
                // The lane queues a remove only for a key it holds.
                if self.has(k) {
                    self.set(k as usize, None);
                    self.q.push_operation(MapOperation::Remove { key: k });
                }
            }
            SOp::Clear => {
                for k in 0..self.n_keys {
                    if self.reference[k].is_some() {
                        self.set(k, None);
                    }
                }
                self.q.push_operation(MapOperation::Clear);
            }
            SOp::Sync(i) => {
                let keys: VecDeque<u8> = key_order.iter().copied().filter(|k| self.has(*k)).collect();
                let n = self.n_keys;
                let r = &mut self.remotes[i as usize];
                if !r.instances.is_empty() {
                    self.overlapping_syncs += 1;
                }
                r.instances.push_back(Instance { t_sync: self.t, linked: Map::new(n), not_yet_linked: if r.implicitly_linked { None } else { Some(Map::new(n)) } });
                self.q.sync(rid(i), keys);
            }
            SOp::Pop => {
                self.pop();
            }
        }
    }

    fn standard(&mut self, f: Frame) {
        self.frames += 1;
        let mut before_link = 0;
        let t = self.t;
        for r in self.remotes.iter_mut() {
            apply(&mut r.with_history, f, t);
            for inst in r.instances.iter_mut() {
                apply(&mut inst.linked, f, t);
                if let Some(m) = inst.not_yet_linked.as_mut() {
                    if r.implicitly_linked {
                        apply(m, f, t);
                    } else {
                        miss(m, f);
                        before_link += 1;
                    }
                }
            }
        }
        self.standard_before_link += before_link;
    }

    /// One `pop`; returns false when the queue had nothing.
    pub fn pop(&mut self) -> bool {
        let Some(w) = self.q.pop() else {
            return false;
        };
        match w {
            ToWrite::Event(MapOperation::Update { key, .. }) => match self.reference.get(key as usize).copied().flatten() {
                Some(v) => self.standard(Frame::Upd(key, v)),
                None => self.update_key_gone += 1,
            },
            ToWrite::Event(MapOperation::Remove { key }) => self.standard(Frame::Rem(key)),
            ToWrite::Event(MapOperation::Clear) => self.standard(Frame::Clear),
            ToWrite::SyncEvent(id, key) => {
                let Some(i) = rid_back(id).filter(|i| (*i as usize) < self.remotes.len()) else {
                    self.fail("sync-event-for-unknown-remote", format!("sync event addressed to {id}, which never asked"));
                    return true;
                };
                if self.remotes[i as usize].instances.is_empty() {
                    self.fail("sync-event-without-request", format!("sync event for r{i} although none of its sync requests is outstanding"));
                    return true;
                }
                self.sync_events += 1;
                match self.reference.get(key as usize).copied().flatten() {
                    Some(v) => {
                        self.frames += 1;
                        let t = self.t;
                        let r = &mut self.remotes[i as usize];
                        r.implicitly_linked = true;
                        apply(&mut r.with_history, Frame::SyncUpd(key, v), t);
                        for inst in r.instances.iter_mut() {
                            apply(&mut inst.linked, Frame::SyncUpd(key, v), t);
                            if let Some(m) = inst.not_yet_linked.as_mut() {
                                apply(m, Frame::SyncUpd(key, v), t);
                            }
                        }
                    }
                    // No response is produced for a key that is gone: nothing is sent, no link is made.
                    None => self.sync_event_key_gone += 1,
                }
            }
            ToWrite::Synced(id) => {
                let Some(i) = rid_back(id).filter(|i| (*i as usize) < self.remotes.len()) else {
                    self.fail("synced-for-unknown-remote", format!("synced addressed to {id}, which never asked"));
                    return true;
                };
                self.frames += 1;
                let r = &mut self.remotes[i as usize];
                r.implicitly_linked = true;
                let Some(inst) = r.instances.pop_front() else {
                    self.fail("synced-without-request", format!("synced for r{i} although none of its sync requests is outstanding"));
                    return true;
                };
                let hist_replica = r.with_history.clone();
                self.syncs_answered += 1;
                let linked_ok = self.window_check(i, &inst.linked, inst.t_sync, "linked-observer");
                if linked_ok {
                    // Only losses that are particular to the other observers are reported for them.
                    if let Some(m) = &inst.not_yet_linked {
                        self.window_check(i, m, inst.t_sync, "not-yet-linked-observer");
                    }
                    self.window_check(i, &hist_replica, inst.t_sync, "linked-observer-with-history");
                }
            }
        }
        true
    }

    fn window_check(&mut self, i: u8, replica: &Map, t_sync: u64, observer: &str) -> bool {
        for k in 0..self.n_keys {
            let h = &self.history[k];
            // State holding at the request: last change at or before it.
            let at = h.iter().rev().find(|(t, _)| *t <= t_sync).map(|(_, s)| *s).unwrap_or(None);
            let got = replica.state[k];
            let allowed = got == at || h.iter().any(|(t, st)| *t > t_sync && *st == got);
            if !allowed {
                let some_in_window = at.is_some() || h.iter().any(|(t, st)| *t > t_sync && st.is_some());
                let class = match got {
                    None => "key-missing",
                    Some(_) if some_in_window => "key-stale-value",
                    Some(_) => "key-not-removed",
                };
                // Cause, as far as the frames tell: the last frame that set the key in this replica
                // (and whether it predates the request), and whether a standard frame was missed.
                let (last, when) = replica.last[k];
                let mut cause = if last != Last::Nothing && when <= t_sync { "last-frame=before-request".to_string() } else { format!("last-frame={}", last.name()) };
                if replica.missed[k] {
                    cause.push_str("/missed-standard-event-before-link");
                }
                let states: Vec<Option<u64>> = std::iter::once(at).chain(h.iter().filter(|(t, _)| *t > t_sync).map(|(_, s)| *s)).collect();
                self.fail(
                    format!("sync-window/{class}/{observer}/{cause}"),
                    format!("at synced for r{i} (request at step {t_sync}, now step {}) the {observer}'s replica holds k{k} = {:?}; the lane held {:?} in that window", self.t, got, states),
                );
                return false;
            }
        }
        true
    }

    /// Drain, then the end-of-run obligations.
    pub fn finish(&mut self) {
        let pending: usize = self.remotes.iter().map(|r| r.instances.len()).sum();
        let bound = (self.n_keys + 2) * (pending + 2) * 2;
        let mut drained = false;
        for _ in 0..bound {
            self.t += 1;
            if !self.pop() {
                drained = true;
                break;
            }
        }
        if !drained {
            self.fail("drain-not-finished", format!("the queue still produced output after {bound} pops with no new input"));
            return;
        }
        if !self.q.is_empty() {
            self.fail("pop-none-while-non-empty", "pop gave None but is_empty() is false");
        }
        for i in 0..self.remotes.len() {
            if !self.remotes[i].instances.is_empty() {
                self.fail("sync-never-answered", format!("r{i} has a sync request that was never answered by synced although the queue is drained"));
            }
            if self.remotes[i].with_history.state != self.reference {
                let (h, r) = (self.remotes[i].with_history.state.clone(), self.reference.clone());
                self.fail("not-converged-after-drain/linked-observer", format!("after the drain a remote linked all along holds {h:?}, the lane holds {r:?}"));
            }
        }
    }
}

#[derive(Default)]
struct Acc {
    sequences: u64,
    frames: u64,
    syncs_answered: u64,
    sync_events: u64,
    sync_event_key_gone: u64,
    update_key_gone: u64,
    standard_before_link: u64,
    overlapping_syncs: u64,
    found: BTreeMap<String, (Vec<SOp>, String, u64)>,
}

fn run_one(ops: &[SOp], n_keys: usize, n_remotes: usize, key_order: &[u8], acc: &mut Acc) {
    let mut ex = Exec::new(n_keys, n_remotes);
    for op in ops {
        ex.step(*op, key_order);
    }
    ex.finish();
    acc.sequences += 1;
    acc.frames += ex.frames;
    acc.syncs_answered += ex.syncs_answered;
    acc.sync_events += ex.sync_events;
    acc.sync_event_key_gone += ex.sync_event_key_gone;
    acc.update_key_gone += ex.update_key_gone;
    acc.standard_before_link += ex.standard_before_link;
    acc.overlapping_syncs += ex.overlapping_syncs;
    for (sig, what) in ex.found {
        let e = acc.found.entry(sig).or_insert_with(|| (ops.to_vec(), what.clone(), 0));
        e.2 += 1;
        if ops.len() < e.0.len() {
            e.0 = ops.to_vec();
            e.1 = what;
        }
    }
}

fn report(out: &mut CaseOut, acc: Acc) {
    out.events += acc.frames;
    out.add("sequences", acc.sequences);
    out.add("syncs-answered", acc.syncs_answered);
    out.add("sync-events", acc.sync_events);
    out.add("sync-event-for-key-gone-skipped", acc.sync_event_key_gone);
    out.add("update-event-for-key-gone-skipped", acc.update_key_gone);
    out.add("standard-event-before-implicit-link", acc.standard_before_link);
    out.add("overlapping-syncs-of-one-remote", acc.overlapping_syncs);
    for (sig, (ops, what, count)) in acc.found {
        out.violation(P, sig, format!("{what} [sequence: {}, then drain]", show_ops(&ops)), json!({"sequence": show_ops(&ops), "sequences_with_this_signature_in_case": count}));
    }
}

/// Operations enabled in a state (removes only of keys the lane holds: the lane never queues a
/// remove for an absent key).
fn enabled(present: u8, n_keys: u8, n_remotes: u8) -> Vec<SOp> {
    let mut a = Vec::new();
    for k in 0..n_keys {
        a.push(SOp::Upd(k));
    }
    for k in 0..n_keys {
        if present & (1 << k) != 0 {
            a.push(SOp::Rem(k));
        }
    }
    a.push(SOp::Clear);
    for i in 0..n_remotes {
        a.push(SOp::Sync(i));
    }
    a.push(SOp::Pop);
    a
}

fn after(present: u8, op: SOp) -> u8 {
    match op {
        SOp::Upd(k) => present | (1 << k),
        SOp::Rem(k) => present & !(1 << k),
        SOp::Clear => 0,
        _ => present,
    }
}

/// Every sequence extending `seq` up to length `d` is run (each with its own drain), `seq` included.
fn explore(seq: &mut Vec<SOp>, present: u8, d: usize, n_keys: u8, n_remotes: u8, order: &[u8], acc: &mut Acc) {
    if !seq.is_empty() {
        run_one(seq, n_keys as usize, n_remotes as usize, order, acc);
    }
    if seq.len() >= d {
        return;
    }
    for op in enabled(present, n_keys, n_remotes) {
        seq.push(op);
        explore(seq, after(present, op), d, n_keys, n_remotes, order, acc);
        seq.pop();
    }
}

pub fn run(s: &mut Session) {
    if wanted(s, "write-queues-exhaustive") {
        let d = depth(s, 8, 9);
        let (n_keys, n_remotes) = (3u8, 2u8);
        let plen = 3.min(d);
        let mut prefixes: Vec<(Vec<SOp>, u8)> = vec![(vec![], 0)];
        for _ in 0..plen {
            prefixes = prefixes
                .iter()
                .flat_map(|(p, pres)| {
                    enabled(*pres, n_keys, n_remotes).into_iter().map(move |o| {
                        let mut q = p.clone();
                        q.push(o);
                        (q, after(*pres, o))
                    })
                })
                .collect();
        }
        let rule = format!(
            "every sequence of length 1..={d} over update k (fresh value) / remove k (only of a key the lane holds) / clear / sync(r) for 2 remotes (keys = the lane's keys at that time, ascending) / pop on a fresh WriteQueues<u8> over 3 keys, each followed by a drain; at every Synced the window oracle for the three observers of that remote, at the end every sync answered and the linked observer converged; one case per valid prefix of length {plen} (its whole subtree; case 0 also runs the shorter sequences); non-trivial when a sync was answered in the subtree after a sync event and a standard event preceded an implicit link; distinct by prefix"
        );
        let shortest = Shortest::default();
        s.part("write-queues-exhaustive", &rule, true, prefixes.len() as u64, |i, _rng, out| {
            let (p, pres) = &prefixes[i as usize];
            let mut acc = Acc::default();
            let mut seq = p.clone();
            let order: Vec<u8> = (0..n_keys).collect();
            explore(&mut seq, *pres, d, n_keys, n_remotes, &order, &mut acc);
            if i == 0 && plen > 1 {
                explore(&mut Vec::new(), 0, plen - 1, n_keys, n_remotes, &order, &mut acc);
            }
            for (sig, (ops, _, _)) in &acc.found {
                shortest.offer(sig, ops.len(), &show_ops(ops));
            }
            out.sig(&show_ops(p));
            out.nontrivial = acc.syncs_answered > 0 && acc.sync_events > 0 && acc.standard_before_link > 0;
            if i < 3 {
                out.set_sample(json!({"prefix": show_ops(p), "sequences": acc.sequences, "frames": acc.frames}));
            }
            report(out, acc);
        });
        shortest.into_notes(s, "write-queues-exhaustive");
    }

    if wanted(s, "write-queues-random") {
        let cases = s.args.budget(20_000, 1_000_000);
        s.part(
            "write-queues-random",
            "seeded sequences of 10-80 operations over 2-6 keys and 1-3 remotes, sync rate and pop rate drawn per case, the key order handed to sync() a random permutation per case (a HashMap-backed lane has no fixed order); same oracles as the exhaustive part; non-trivial when a sync was answered after at least one sync event while updates were queued; distinct by hash of the sequence",
            false,
            cases,
            |_i, rng, out| random_case(rng, out),
        );
    }
}

fn random_case(rng: &mut Rng, out: &mut CaseOut) {
    let n_keys = rng.range(2, 6) as u8;
    let n_remotes = rng.range(1, 3) as u8;
    let len = rng.range(10, 80) as usize;
    let pop_pct = *rng.pick(&[20u64, 35, 50, 65]);
    let sync_pct = *rng.pick(&[3u64, 8, 15]);
    let clear_pct = *rng.pick(&[0u64, 2, 6]);
    let mut order: Vec<u8> = (0..n_keys).collect();
    rng.shuffle(&mut order);
    let mut ops = Vec::with_capacity(len);
    let mut present = 0u8;
    for _ in 0..len {
        let r = rng.below(100);
        let op = if r < pop_pct {
            SOp::Pop
        } else if r < pop_pct + sync_pct {
            SOp::Sync(rng.below(n_remotes as u64) as u8)
        } else if r < pop_pct + sync_pct + clear_pct {
            SOp::Clear
        } else {
            let k = rng.below(n_keys as u64) as u8;
            if present & (1 << k) != 0 && rng.chance(1, 3) {
                SOp::Rem(k)
            } else {
                SOp::Upd(k)
            }
        };
        present = after(present, op);
        ops.push(op);
    }
    out.sig(&ops);
    out.sig(&order);
    let mut acc = Acc::default();
    run_one(&ops, n_keys as usize, n_remotes as usize, &order, &mut acc);
    out.nontrivial = acc.syncs_answered > 0 && acc.sync_events > 0;
    out.set_sample(json!({"keys": n_keys, "remotes": n_remotes, "len": len, "head": show_ops(&ops[..ops.len().min(12)])}));
    report(out, acc);
}
