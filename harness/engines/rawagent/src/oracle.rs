//! Oracles over one observed conversation (`Obs`) with the harness-implemented agent.
//! Every rule names the property it refutes. The harness knows exactly what each lane emitted and
//! received (ticketed), what each remote sent and received, and what the reporters said at each
//! quiescent checkpoint; rules only demand what follows from those facts.

use std::collections::{BTreeMap, HashMap, HashSet};

use bytes::Bytes;
use common::{json, CaseOut};
use swimos_model::Value;
use swimos_runtime::agent::DisconnectionReason;

use crate::keys::{key_fact, parse_key, peel, render_remove, render_update, Peeled};
use crate::lanes::{Emit, Emitted, FailHow, LaneCtl, LaneRec, LaneSpec, MapChangeKind, MapOpText, Payload, Received, LK};
use crate::remote::{CorruptHow, Frame, FrameKind, ReaderEnd, Req, ReqKind};
use crate::run::{Obs, Session, NODE};

const LNF: &[u8] = b"@laneNotFound";

fn show(b: &[u8]) -> String {
    let s: String = String::from_utf8_lossy(b).chars().take(60).collect();
    if b.len() > 60 {
        format!("{s}… ({} bytes)", b.len())
    } else {
        s
    }
}

#[derive(Clone, Debug, PartialEq)]
enum KS {
    Absent,
    Val(String),
}

struct UpdInfo {
    key_id: usize,
    /// Number of clears the lane performed before this update.
    epoch: u32,
    value_text: String,
}

/// What the harness knows about one lane.
struct LaneInfo<'a> {
    idx: usize,
    spec: &'a LaneSpec,
    rec: &'a LaneRec,
    fail_t: Option<u64>,
    hard_fail: Option<FailHow>,
    // ---- value-like lanes
    /// body -> version index (bodies are unique except the empty one).
    version_of: HashMap<Bytes, usize>,
    // ---- supply lanes
    item_of: HashMap<Bytes, usize>,
    items: Vec<&'a Emit>,
    /// Indices (into `items`) of the items with an empty body (not identifiable by content).
    empty_items: Vec<usize>,
    // ---- map lanes
    keys: Vec<Value>,
    /// peeled value text -> the update that produced it
    upd_by_value: HashMap<Vec<u8>, UpdInfo>,
    /// per key id: the key texts (as the peeler renders them) the lane ever emitted for it
    key_texts: Vec<HashSet<Vec<u8>>>,
    first_clear_t0: Option<u64>,
    /// per key id: (ticket of adoption, state); the state before the first entry is Absent.
    timeline: Vec<Vec<(u64, KS)>>,
    /// (ticket, lane map after the change) in order.
    states: Vec<(u64, BTreeMap<usize, String>)>,
}

fn key_id(keys: &mut Vec<Value>, k: &Value) -> usize {
    if let Some(i) = keys.iter().position(|x| x == k) {
        i
    } else {
        keys.push(k.clone());
        keys.len() - 1
    }
}

fn build_lane<'a>(idx: usize, spec: &'a LaneSpec, rec: &'a LaneRec) -> LaneInfo<'a> {
    let mut li = LaneInfo {
        idx,
        spec,
        rec,
        fail_t: rec.failed.map(|f| f.0),
        hard_fail: rec.failed.and_then(|f| if f.1 == FailHow::CloseWriter { None } else { Some(f.1) }),
        version_of: HashMap::new(),
        item_of: HashMap::new(),
        items: vec![],
        empty_items: vec![],
        keys: vec![],
        upd_by_value: HashMap::new(),
        key_texts: vec![],
        first_clear_t0: None,
        timeline: vec![],
        states: vec![],
    };
    for (i, (_, b)) in rec.versions.iter().enumerate() {
        if !b.is_empty() {
            li.version_of.insert(b.clone(), i);
        }
    }
    for e in &rec.emitted {
        match &e.what {
            Emitted::Std(Payload::Bytes(b)) | Emitted::SyncEv(_, Payload::Bytes(b)) => {
                if spec.kind == LK::Supply {
                    if b.is_empty() {
                        li.empty_items.push(li.items.len());
                    } else {
                        li.item_of.insert(b.clone(), li.items.len());
                    }
                    li.items.push(e);
                }
            }
            _ => {}
        }
    }
    if spec.kind == LK::Map {
        // key identities and timelines from the lane's own history
        let mut cur: BTreeMap<usize, String> = BTreeMap::new();
        let mut clears = 0u32;
        let mut epoch_of: HashMap<String, u32> = HashMap::new();
        for ch in &rec.map_hist {
            match &ch.kind {
                MapChangeKind::Upd { key, value } => {
                    let id = key_id(&mut li.keys, key);
                    while li.timeline.len() <= id {
                        li.timeline.push(vec![]);
                    }
                    li.timeline[id].push((ch.t, KS::Val(value.clone())));
                    cur.insert(id, value.clone());
                    epoch_of.insert(value.clone(), clears);
                }
                MapChangeKind::Rem { key } => {
                    let id = key_id(&mut li.keys, key);
                    while li.timeline.len() <= id {
                        li.timeline.push(vec![]);
                    }
                    li.timeline[id].push((ch.t, KS::Absent));
                    cur.remove(&id);
                }
                MapChangeKind::Clr => {
                    for id in cur.keys() {
                        li.timeline[*id].push((ch.t, KS::Absent));
                    }
                    cur.clear();
                    clears += 1;
                }
            }
            li.states.push((ch.t, cur.clone()));
        }
        while li.key_texts.len() < li.keys.len() {
            li.key_texts.push(HashSet::new());
        }
        // what the emitted operations look like after the peeler
        for e in &rec.emitted {
            let op = match &e.what {
                Emitted::Std(Payload::Map(op)) | Emitted::SyncEv(_, Payload::Map(op)) => op,
                _ => continue,
            };
            match op {
                MapOpText::Update { key, value } => {
                    if let (Some(kv), Some(Peeled::Update(pk, pv))) = (parse_key(key), peel(&render_update(key.as_bytes(), value.as_bytes()))) {
                        let id = key_id(&mut li.keys, &kv);
                        while li.key_texts.len() <= id {
                            li.key_texts.push(HashSet::new());
                        }
                        li.key_texts[id].insert(pk);
                        let epoch = epoch_of.get(value).copied().unwrap_or(0);
                        li.upd_by_value.entry(pv).or_insert(UpdInfo { key_id: id, epoch, value_text: value.clone() });
                    }
                }
                MapOpText::Remove { key } => {
                    if let (Some(kv), Some(Peeled::Remove(pk))) = (parse_key(key), peel(&render_remove(key.as_bytes()))) {
                        let id = key_id(&mut li.keys, &kv);
                        while li.key_texts.len() <= id {
                            li.key_texts.push(HashSet::new());
                        }
                        li.key_texts[id].insert(pk);
                    }
                }
                MapOpText::Clear => {
                    if li.first_clear_t0.is_none() {
                        li.first_clear_t0 = Some(e.t0);
                    }
                }
            }
        }
        while li.timeline.len() < li.keys.len() {
            li.timeline.push(vec![]);
        }
    }
    li
}

impl<'a> LaneInfo<'a> {
    fn state_at(&self, t: u64) -> BTreeMap<usize, String> {
        self.states.iter().filter(|s| s.0 < t).last().map(|s| s.1.clone()).unwrap_or_default()
    }
}

struct LaneFrames<'a> {
    frames: Vec<&'a Frame>,
    reqs: Vec<&'a Req>,
    /// Requests made under the same routing id by earlier attachments of the connection (the runtime cannot
    /// tell them from this attachment's: they may be answered here). Used only where requests justify frames.
    prior: Vec<&'a Req>,
}

fn split_by_lane<'a>(frames: &'a [Frame], reqs: &'a [Req], prior: &'a [Req]) -> BTreeMap<String, LaneFrames<'a>> {
    let mut m: BTreeMap<String, LaneFrames<'a>> = BTreeMap::new();
    let new = || LaneFrames { frames: vec![], reqs: vec![], prior: vec![] };
    for f in frames {
        m.entry(f.lane.clone()).or_insert_with(new).frames.push(f);
    }
    for r in reqs {
        m.entry(r.lane.clone()).or_insert_with(new).reqs.push(r);
    }
    for r in prior {
        m.entry(r.lane.clone()).or_insert_with(new).prior.push(r);
    }
    m
}

fn started_before(reqs: &[&Req], kind: ReqKind, t: u64) -> usize {
    reqs.iter().filter(|r| r.kind == kind && r.t0 < t).count()
}

/// Runs of empty supply items between identified ones: (exclusive lower item index, exclusive upper item index,
/// number of empty items received in between). Identified items that arrive out of order are reported by the
/// caller and do not move the lower bound back.
fn empty_runs(seq: &[Option<usize>]) -> Vec<(i64, i64, usize)> {
    let mut runs = vec![];
    let mut lo: i64 = -1;
    let mut k = 0usize;
    for x in seq {
        match x {
            None => k += 1,
            Some(i) => {
                let i = *i as i64;
                if i > lo {
                    runs.push((lo, i, k));
                    lo = i;
                    k = 0;
                }
            }
        }
    }
    runs.push((lo, i64::MAX, k));
    runs
}

fn e_lt(a: Option<u64>, b: u64) -> bool {
    a.map_or(false, |a| a < b)
}

fn stalled_between(s: &Session, a: u64, b: u64) -> bool {
    s.stalls.iter().any(|(from, until)| *from <= b && until.map_or(true, |u| u >= a))
}

/// Link state of (session, lane) according to the frames received before `t`.
fn open_before(frames: &[&Frame], t: u64) -> (bool, u64, bool) {
    let mut open = false;
    let mut since = 0;
    let mut synced = false;
    for f in frames.iter().filter(|f| f.ticket < t) {
        match f.kind {
            FrameKind::Linked => {
                if !open {
                    open = true;
                    since = f.ticket;
                    synced = false;
                }
            }
            FrameKind::Unlinked => open = false,
            FrameKind::Synced => synced = true,
            FrameKind::Event => {}
        }
    }
    (open, since, synced)
}

#[derive(Default)]
pub struct Summary {
    pub frames: u64,
    pub events_byte_checked: u64,
    pub map_events_checked: u64,
    pub synced_frames: u64,
    pub implicit_links: u64,
    pub lane_not_found: u64,
    pub converged_links: u64,
    pub sync_windows: u64,
    pub supply_items: u64,
    pub supply_certain: u64,
    pub commands_at_lanes: u64,
    pub checkpoints: u64,
    pub pure_phases: u64,
    pub mixed_phases: u64,
    pub link_counts_checked: u64,
    pub completions: u64,
}

/// Copy of what one attachment of a remote logged.
struct SView {
    frames: Vec<Frame>,
    end: Option<ReaderEnd>,
    reqs: Vec<Req>,
    /// Requests of earlier attachments under the same routing id.
    prior_reqs: Vec<Req>,
    completion: Option<(u64, Option<DisconnectionReason>)>,
    /// Overlapping attachments: the session this one was attached over, and the one attached over this one.
    dup_of: Option<usize>,
    superseded_by: Option<usize>,
    /// Re-attachment under the id of an attachment the runtime had removed, whose reader the harness still
    /// held: that session, and (on that session) the one that was attached under its id.
    prev_open: Option<usize>,
    reattached_by: Option<usize>,
    /// The remote wrote a request frame that does not decode.
    corrupt: Option<(u64, Option<u64>, CorruptHow)>,
}

#[derive(Clone, Copy, PartialEq, Eq, Debug)]
enum Holds {
    Certain,
    No,
    Uncertain,
}

pub fn check_all(obs: &Obs, out: &mut CaseOut) -> Summary {
    let mut sum = Summary::default();
    let lanes: Vec<LaneInfo> = obs.cfg.lanes.iter().enumerate().map(|(i, s)| build_lane(i, s, &obs.lanes[i])).collect();
    let lane_by_name: HashMap<&str, usize> = obs.cfg.lanes.iter().enumerate().map(|(i, s)| (s.name.as_str(), i)).collect();
    let quiescent_ok = obs.quiescent.is_some() && obs.stuck.is_empty();
    let agent_alive_at_q = obs.quiescent.is_some();
    let q = obs.quiescent.unwrap_or(0);
    let end_request = obs.stop_requested.or(obs.return_requested);
    let end_kind = match (obs.return_requested, obs.agent_returned) {
        (Some(_), Some((_, true))) => "agent-returned-ok",
        (Some(_), Some((_, false))) => "agent-returned-err",
        (Some(_), None) => "agent-return-requested",
        _ => "stop",
    };

    if let Some(e) = &obs.init_error {
        out.inconclusive(format!("agent initialisation failed: {e}"));
        return sum;
    }
    // The runtime's task panicked in a conversation with overlapping attachments: one finding (everything
    // else - dropped promises, channels closed with links open - follows from the panic).
    // (The same for an id that attached again after the runtime had removed it while the harness still held the
    // old reader, i.e. while a write to the removed attachment could still be under way.)
    if let (true, Some(Err(e))) = (obs.sessions.iter().any(|s| s.dup_of.is_some() || s.prev_open.is_some()), &obs.agent_result) {
        if e.contains("panicked") {
            for s in &obs.sessions {
                out.events += s.log.lock().frames.len() as u64;
            }
            // C03 as well when a sync request that the runtime had accepted was left without its synced.
            let sync_cut = obs.sessions.iter().filter(|s| !s.one_way).any(|s| {
                let (reqs, log) = (s.reqs.lock(), s.log.lock());
                reqs.reqs.iter().any(|r| {
                    r.kind == ReqKind::Sync
                        && r.t1.is_some()
                        && obs.cfg.lanes.iter().enumerate().any(|(i, l)| l.name == r.lane && obs.lanes[i].failed.is_none())
                        && !reqs.reqs.iter().any(|u| u.kind == ReqKind::Unlink && u.lane == r.lane && u.t0 > r.t0)
                        && !log.frames.iter().any(|f| f.lane == r.lane && f.kind == FrameKind::Synced && f.ticket > r.t0)
                })
            });
            if sync_cut {
                let prefix = if obs.sessions.iter().any(|s| s.dup_of.is_some()) { "dup-attach" } else { "completed-attachment" };
                out.violation("C03", format!("{prefix}/runtime-panicked"), "the agent runtime panicked and a sync request it had accepted was never answered with synced", json!({"error": e}));
            }
            if obs.sessions.iter().any(|s| s.dup_of.is_some()) {
                out.count("dup-attachments-while-the-first-is-open");
                out.violation(
                    "C04",
                    "dup-attach/runtime-panicked",
                    "the agent runtime panicked after a remote id was attached a second time while its first attachment was open",
                    json!({"error": e, "attachments": obs.sessions.iter().filter(|s| s.dup_of.is_some()).count()}),
                );
            } else {
                out.count("reattach-over/attachments-under-the-id-of-a-removed-one-with-its-reader-kept");
                out.violation(
                    "C04",
                    "completed-attachment/runtime-panicked",
                    "the agent runtime panicked after a remote id, removed for inactivity while a write to it could still be under way, attached again and the reader of the removed attachment went on reading (or went away)",
                    json!({"error": e, "attachments": obs.sessions.iter().filter(|s| s.prev_open.is_some()).count()}),
                );
            }
            return sum;
        }
    }

    // ---- evidence: lanes registered at run time, remotes that attached while the write task waited for one
    for li in lanes.iter().filter(|l| l.spec.late) {
        if li.rec.registered.is_some() {
            out.count("late-lanes-registered-by-the-running-agent");
        }
        let asked = li.rec.received.iter().find(|r| matches!(r.what, Received::InitComplete)).map(|r| r.t);
        let acked = li.rec.emitted.iter().find(|e| matches!(e.what, Emitted::Initialized)).map(|e| e.t0);
        if let (Some(a), Some(b)) = (asked, acked) {
            out.count("late-lanes-acknowledged-after-being-held");
            for s in obs.sessions.iter().filter(|s| !s.one_way && !s.is_probe && s.attached_t0 > a && s.attached_t0 < b) {
                out.count("attach-race/remote-attached-while-the-write-task-waited-for-a-lane");
                let g = s.reqs.lock();
                let synced = s.log.lock().frames.iter().filter(|f| f.kind == FrameKind::Synced).count();
                if g.reqs.iter().any(|r| r.kind == ReqKind::Sync && r.t0 < b) {
                    out.count("attach-race/that-remote-synced-before-the-lane-acknowledged");
                    if synced > 0 {
                        out.count("attach-race/that-remote-got-synced");
                    }
                }
            }
        }
    }
    if obs.cfg.with_store {
        out.count("hosted-with-a-store");
        out.add("store-writes", obs.store_writes);
    }

    // ---- lanes: the requests the runtime delivered must be well formed
    for li in &lanes {
        for r in &li.rec.received {
            if let Received::DecodeError(e) = &r.what {
                out.violation(
                    "C14",
                    format!("lane-request-undecodable/{}", li.spec.kind.name()),
                    "the runtime wrote bytes on a lane's request channel that do not decode as a lane request",
                    json!({"lane": li.spec.name, "error": e}),
                );
            }
        }
    }

    // snapshot the logs once
    let views: Vec<SView> = obs
        .sessions
        .iter()
        .map(|s| {
            let l = s.log.lock();
            let r = s.reqs.lock();
            SView { frames: l.frames.clone(), end: l.end.clone(), reqs: r.reqs.clone(), prior_reqs: vec![], completion: *s.completion.lock(), dup_of: s.dup_of, superseded_by: None, prev_open: s.prev_open, reattached_by: None, corrupt: r.corrupt }
        })
        .collect();
    let mut views = views;
    for si in 0..views.len() {
        if let Some(d) = views[si].dup_of {
            views[d].superseded_by = Some(si);
        }
        if let Some(d) = views[si].prev_open {
            views[d].reattached_by = Some(si);
        }
    }
    for si in 0..views.len() {
        let mut prior = vec![];
        for sj in 0..si {
            if obs.sessions[sj].id == obs.sessions[si].id {
                prior.extend(views[sj].reqs.iter().cloned());
            }
        }
        views[si].prior_reqs = prior;
    }
    let views = views;

    // ---- non-UTF-8 map keys: (lane, ticket before, ticket after) of every such event a lane wrote completely
    let bad_keys: Vec<(usize, u64, u64)> = lanes
        .iter()
        .flat_map(|li| li.rec.emitted.iter().filter_map(move |e| match (&e.what, e.t1) {
            (Emitted::BadKey { .. }, Some(t1)) => Some((li.idx, e.t0, t1)),
            _ => None,
        }))
        .collect();
    out.add("nonutf8-key-events-written-by-lanes", bad_keys.len() as u64);
    let cuts = cut_sessions(obs, &lanes, &views, &bad_keys);

    // ---- overlapping attachments: ids some replaced attachment of which got frames that were provably
    // produced after its promise had been completed
    let misrouted_ids: HashSet<uuid::Uuid> = obs
        .sessions
        .iter()
        .zip(views.iter())
        .filter(|(_, v)| !late_frames(v, &lanes, &lane_by_name).is_empty())
        .map(|(s, _)| s.id)
        .collect();

    // ---- per session, per lane name: protocol state machine, bodies, replicas
    for (si, s) in obs.sessions.iter().enumerate() {
        let v = &views[si];
        if s.one_way {
            // A command-only channel: nothing ever comes back on it. Its commands are judged together with
            // everybody's below (C14 exactly once / in order, C20 command counts, C17 activity); the link /
            // sync / unlink envelopes a hostile peer writes to it have nobody to be answered to, the rules for
            // the two-way remotes say whether those were disturbed.
            if s.attached_t1.is_some() {
                out.count("oneway-channels-attached");
            }
            // The runtime confirmed the channel: it reads from it until the peer closes it or the agent stops.
            // (A write that fails means the runtime dropped its reading half. Not judged when the agent may stop
            // by itself, where the instant the stop began is not known to a ticket.)
            {
                let g = s.reqs.lock();
                if let (true, true, Some(tg), true, None) = (s.attached_t1.is_some(), g.write_failed, g.writer_gone, obs.stuck.is_empty(), obs.cfg.inactive_ms) {
                    if end_request.map_or(true, |e| tg < e) && obs.agent_finished.map_or(true, |f| tg < f) {
                        out.violation(
                            "C14",
                            "oneway/channel-closed-by-the-runtime-while-running",
                            "the runtime confirmed a command-only channel and then dropped its reading half although the agent was running and nobody had asked it to stop: commands written to it cannot reach their lanes",
                            json!({"write_failed_at": tg, "attached_at": s.attached_t1, "commands_written": v.reqs.iter().filter(|r| r.t1.is_some()).count()}),
                        );
                    }
                }
            }
            for r in v.reqs.iter().filter(|r| r.t1.is_some()) {
                if r.kind != ReqKind::Command {
                    out.count("oneway-link-sync-unlink-envelopes-written");
                    continue;
                }
                out.count("oneway-commands-written");
                if let Some(li) = lane_by_name.get(r.lane.as_str()).map(|i| &lanes[*i]) {
                    let reached = li.rec.received.iter().any(|x| match &x.what {
                        Received::Command(b) => *b == r.body,
                        Received::MapCommand(MapOpText::Update { value, .. }) => matches!(peel(&r.body), Some(Peeled::Update(_, pv)) if pv == value.as_bytes()),
                        _ => false,
                    });
                    if reached {
                        out.count("oneway-commands-seen-by-their-lane");
                    }
                }
            }
            continue;
        }
        if s.dup_of.is_some() && s.attached_t1.is_some() {
            out.count("dup-attachments-while-the-first-is-open");
        }
        // This attachment was made under the id of one the runtime had removed; the reader of that one was
        // dropped afterwards, and this one - whose own reader was never dropped - was then completed with ChannelClosed.
        let removed_for_old = match (s.prev_open, v.completion, &v.end) {
            (Some(p), Some((t, Some(DisconnectionReason::ChannelClosed))), own_end) => {
                matches!(&views[p].end, Some(ReaderEnd::Dropped(d)) if *d < t) && !matches!(own_end, Some(ReaderEnd::Dropped(d)) if *d < t)
            }
            _ => false,
        };
        if let (Some(p), Some(ta)) = (s.prev_open, s.attached_t1) {
            out.count("reattach-over/attachments-under-the-id-of-a-removed-one-with-its-reader-kept");
            if views[p].frames.iter().any(|f| f.ticket > ta) {
                // the write that was under way when the runtime removed the remote completed after the re-attachment
                out.count("reattach-over/old-write-completed-after-the-reattachment");
            }
            if matches!(&views[p].end, Some(ReaderEnd::Dropped(d)) if *d > ta) {
                out.count("reattach-over/old-reader-dropped-after-the-reattachment");
            }
        }
        if let Some((_, t1, how)) = v.corrupt {
            out.count(&format!("corrupt-request-frames/{}", how.name()));
            if t1.is_some() && s.reqs.lock().write_failed {
                // the read task ended the remote's request stream after the error: the remote's next write failed
                out.count("corrupt-request/request-stream-ended-by-the-runtime");
            }
            if v.reqs.iter().any(|r| r.t0 > v.corrupt.map_or(0, |c| c.0)) {
                out.count("corrupt-request/remote-went-on-writing");
            }
        }
        // Non-UTF-8 keys, evidence of the two paths: a remote that was linked to the lane when the event was
        // written and was cut off (its writer was idle), or that went on receiving what the lane produced
        // afterwards (the event was discarded on its way into the queue of a busy writer, or written through).
        for (l, t0, t1) in &bad_keys {
            let name = &obs.cfg.lanes[*l].name;
            let frames: Vec<&Frame> = v.frames.iter().filter(|f| f.lane == *name).collect();
            if !open_before(&frames, *t0).0 {
                continue;
            }
            if cuts[si].map_or(false, |c| c.1 == *l) {
                out.count("nonutf8-key/linked-remote-cut-off");
            } else if frames.iter().any(|f| f.kind == FrameKind::Event && emitted_t0(&lanes[*l], &f.body).map_or(false, |t| t > *t1)) {
                out.count("nonutf8-key/linked-remote-still-served-afterwards");
            }
        }
        sum.frames += v.frames.len() as u64;
        out.events += v.frames.len() as u64;
        let is_probe = s.is_probe;
        let by_lane = split_by_lane(&v.frames, &v.reqs, &v.prior_reqs);
        let reader_alive_at_q = obs.quiescent.is_some() && v.end.as_ref().map_or(true, |e| e.ticket() > q) && s.attached_t1.is_some();
        let closed_by_runtime = match &v.end {
            Some(ReaderEnd::Closed(t)) => Some(*t),
            _ => None,
        };
        if let Some(ReaderEnd::DecodeError(t, e)) = &v.end {
            // A reader that was stalled can find a partial frame: the runtime gives up on a write after its
            // shutdown timeout (or when it removes the remote) and closes the channel mid-frame.
            let a = end_request.filter(|e| e < t).unwrap_or(s.attached_t0);
            if stalled_between(s, a, *t) {
                out.count("partial-frame-after-stall");
            } else {
            out.violation("C04", "remote-frame-undecodable", "the runtime wrote bytes on a remote's channel that do not decode as a WARP response frame", json!({"error": e}));
            }
        }

        // Overlapping attachments where frames provably went to a replaced attachment: one defect. The frames are
        // reported on the attachment that got them; what is then missing or surplus on either channel is not
        // reported again under the general rules. For the attachment that should have got them only the C03
        // promise is kept: a sync requested on it completes on it.
        // (Likewise for an attachment that the runtime removed - promise completed with RemoteTimedOut - and whose
        // id then attached again: signatures `completed-attachment/..`.)
        if misrouted_ids.contains(&s.id) {
            out.count("dup-attach/attachments-of-an-id-with-misrouted-frames");
            let mut kinds_reported: HashSet<&'static str> = HashSet::new();
            for (f, lane, tc) in late_frames(v, &lanes, &lane_by_name) {
                if kinds_reported.insert(f.kind.name()) {
                    if v.superseded_by.is_some() {
                        out.violation(
                            "C04",
                            format!("dup-attach/frame-written-to-replaced-attachment/{}", f.kind.name()),
                            "after a remote id was attached a second time and the promise of its first attachment was completed, the runtime wrote a frame that was produced later to the channel of the first attachment",
                            json!({"lane": lane, "frame": f.kind.name(), "body": show(&f.body), "replaced_at": tc, "received_at": f.ticket}),
                        );
                    } else {
                        out.violation(
                            "C04",
                            format!("completed-attachment/frame-written-after-completion/{}", f.kind.name()),
                            "after the runtime had removed a remote (promise completed) and its id had attached again, the runtime wrote a frame that was produced later to the channel of the removed attachment",
                            json!({"lane": lane, "frame": f.kind.name(), "body": show(&f.body), "completed_at": tc, "received_at": f.ticket}),
                        );
                    }
                }
            }
            if v.superseded_by.is_none() && v.reattached_by.is_none() && quiescent_ok && reader_alive_at_q {
                for (lane, lf) in &by_lane {
                    let Some(li) = lane_by_name.get(lane.as_str()).map(|i| &lanes[*i]) else { continue };
                    if li.fail_t.is_some() || li.rec.write_error.is_some() || lf.prior.iter().any(|r| r.kind == ReqKind::Sync) {
                        continue;
                    }
                    if let Some(last_sync) = lf.reqs.iter().filter(|r| r.kind == ReqKind::Sync && r.t1.map_or(false, |t| t < q)).last() {
                        let unlink_after = lf.reqs.iter().any(|r| r.kind == ReqKind::Unlink && r.t0 > last_sync.t0);
                        let answered = lf.frames.iter().any(|f| f.kind == FrameKind::Synced && f.ticket > last_sync.t0);
                        if !unlink_after && !answered && s.dup_of.is_none() {
                            out.violation(
                                "C03",
                                format!("completed-attachment/sync-on-the-new-attachment-never-completed/{}", li.spec.kind.name()),
                                "a sync requested on the new attachment of a remote id was never answered there with synced (frames of that id were written to the attachment the runtime had removed before)",
                                json!({"lane": lane}),
                            );
                        } else if !unlink_after && !answered {
                            out.violation(
                                "C03",
                                format!("dup-attach/sync-on-the-second-attachment-never-completed/{}", li.spec.kind.name()),
                                "a sync requested on the second attachment of a remote id was never answered there with synced (frames of that id were written to the replaced first attachment)",
                                json!({"lane": lane}),
                            );
                        }
                    }
                }
            }
        }
        for (lane, lf) in &by_lane {
            if misrouted_ids.contains(&s.id) {
                break;
            }
            let li = lane_by_name.get(lane.as_str()).map(|i| &lanes[*i]);
            // A sync requested under this routing id by an earlier attachment may be answered here, in part
            // (what the lane sent while the connection was not attached is gone): a facet of the signatures.
            let carried = if lf.prior.iter().any(|r| r.kind == ReqKind::Sync) { "/sync-carried-over-reattachment" } else { "" };
            let unknown = li.is_none();
            let kind = li.map(|l| l.spec.kind.name()).unwrap_or("unknown");
            let mut open = false;
            // An attachment made over an open one under the same id: the links of that id stay registered in
            // the runtime (the statement speaks of (remote, lane) pairs, not of channels), so whether a link is
            // open when this attachment begins is not known from this channel's frames alone. Until the first
            // linked / unlinked on this channel, frames that need an open link are not judged.
            let mut inherit_unknown = s.dup_of.is_some();
            let mut open_since: u64 = 0;
            let mut linked_seen = 0usize;
            let mut synced_seen = 0usize;
            let mut lnf_seen = 0usize;
            // Extra implicit links the remote caused itself: an explicit unlink that was acknowledged while a
            // sync answer was still outstanding (the rest of the answer links the remote again).
            let mut relink_bonus = 0usize;
            // A synced (before the final quiescent point) whose answer did not race with an unlink of this remote.
            let mut synced_clean_before_q = false;
            // value-like
            let mut last_version: Option<usize> = None;
            let mut copies: HashMap<usize, usize> = HashMap::new();
            let mut last_body: Option<Bytes> = None;
            let mut empties_seen = 0usize;
            // map
            let mut replica: BTreeMap<usize, String> = BTreeMap::new();
            let mut key_ptr: HashMap<usize, usize> = HashMap::new();
            let mut max_epoch: u32 = 0;
            // supply
            let mut last_item: Option<usize> = None;
            let mut items_seen: HashSet<usize> = HashSet::new();
            // supply: received items in order (None: an item with an empty body)
            let mut supply_seq: Vec<Option<usize>> = vec![];
            let mut extra_keys: Vec<Value> = vec![];

            for (fi, f) in lf.frames.iter().enumerate() {
                let links_started = started_before(&lf.reqs, ReqKind::Link, f.ticket) + started_before(&lf.prior, ReqKind::Link, f.ticket);
                let syncs_started = started_before(&lf.reqs, ReqKind::Sync, f.ticket) + started_before(&lf.prior, ReqKind::Sync, f.ticket);
                let unlinks_started = started_before(&lf.reqs, ReqKind::Unlink, f.ticket) + started_before(&lf.prior, ReqKind::Unlink, f.ticket);
                let cmds_started = started_before(&lf.reqs, ReqKind::Command, f.ticket) + started_before(&lf.prior, ReqKind::Command, f.ticket);
                let next_kind = lf.frames.get(fi + 1).map(|n| n.kind.name()).unwrap_or("none");
                if links_started + syncs_started + unlinks_started + cmds_started == 0 {
                    out.violation("C04", format!("frame-for-unaddressed-lane/{}", f.kind.name()), "a frame arrived for a lane name this remote never addressed", json!({"lane": lane, "frame": f.kind.name()}));
                }
                if f.node != NODE {
                    out.violation("C04", "frame-with-wrong-node", "a frame carries a node uri other than the agent's", json!({"node": f.node}));
                }
                if f.origin != obs.identity {
                    out.violation("C04", "frame-with-wrong-origin", "a frame carries a routing id other than the agent's", json!({"origin": f.origin.to_string()}));
                }
                match f.kind {
                    FrameKind::Linked => {
                        linked_seen += 1;
                        if unknown {
                            out.violation("C04", "linked-for-unknown-lane", "linked received for a lane that does not exist", json!({"lane": lane}));
                        }
                        if linked_seen > links_started + syncs_started + relink_bonus {
                            out.violation(
                                "C04",
                                format!("linked-unmatched/{kind}/open={open}"),
                                "linked received that answers no link request and no sync request of this remote",
                                json!({"lane": lane, "linked_seen": linked_seen, "link_requests": links_started, "sync_requests": syncs_started}),
                            );
                        }
                        inherit_unknown = false;
                        if !open {
                            open = true;
                            open_since = f.ticket;
                            if f.ticket < q {
                                synced_clean_before_q = false;
                            }
                            replica.clear();
                            key_ptr.clear();
                            max_epoch = 0;
                            last_version = None;
                            copies.clear();
                            last_body = None;
                            if links_started == 0 {
                                sum.implicit_links += 1;
                                out.count("implicit-link");
                            }
                        }
                    }
                    FrameKind::Synced => {
                        synced_seen += 1;
                        sum.synced_frames += 1;
                        if !open && inherit_unknown {
                            // the id's link is open (it came along from the first attachment)
                            out.count("dup-attach/frames-on-a-link-inherited-from-the-first-attachment");
                            open = true;
                            open_since = f.ticket;
                            inherit_unknown = false;
                        } else if !open {
                            out.violation("C04", format!("synced-outside-link/{kind}"), "synced received while no link is open", json!({"lane": lane}));
                        }
                        if synced_seen > syncs_started {
                            out.violation("C04", format!("synced-unmatched/{kind}"), "synced received although this remote has no unanswered sync request", json!({"lane": lane, "synced_seen": synced_seen, "sync_requests": syncs_started}));
                        }
                        // C03: consistent snapshot. Window = [start of the matching sync request, receipt of synced].
                        let sync_reqs: Vec<&&Req> = lf.prior.iter().chain(lf.reqs.iter()).filter(|r| r.kind == ReqKind::Sync).collect();
                        let t_q = sync_reqs.get(synced_seen - 1).map(|r| r.t0);
                        // The statement is about a remote that syncs; a remote that also asks to unlink while
                        // the answer is under way discards (by its own request) part of that answer.
                        let raced = t_q.map_or(true, |t_q| lf.prior.iter().chain(lf.reqs.iter()).any(|r| r.kind == ReqKind::Unlink && r.t0 > t_q && r.t0 < f.ticket));
                        // An answer that began on the first of two overlapping attachments continues here: this
                        // channel alone does not show the snapshot.
                        let split_answer = s.dup_of.is_some() && lf.prior.iter().any(|r| r.kind == ReqKind::Sync);
                        if split_answer {
                            out.count("dup-attach/sync-window-skipped-answer-may-span-both-attachments");
                        }
                        let raced = raced || split_answer;
                        if split_answer {
                        } else if raced {
                            out.count("sync-window-skipped-unlink-raced");
                        } else if f.ticket < q {
                            synced_clean_before_q = true;
                        }
                        if let (Some(t_q), Some(li), false) = (t_q, li, raced) {
                            let t_s = f.ticket;
                            sum.sync_windows += 1;
                            match li.spec.kind {
                                LK::Value => match &last_body {
                                    None => out.violation("C03", if carried.is_empty() { "synced-without-value/value".to_string() } else { "partial-sync-answer-after-reattachment/value".to_string() }, "synced received for a value lane although no value was delivered on this link", json!({"lane": lane})),
                                    Some(b) => {
                                        if let Some(&i) = li.version_of.get(b) {
                                            // version i was the lane's value during [adopted_i, adopted_{i+1}]
                                            let lo = li.rec.versions[i].0;
                                            let hi = li.rec.versions.get(i + 1).map(|x| x.0).unwrap_or(u64::MAX);
                                            if !(lo <= t_s && hi >= t_q) {
                                                out.violation(
                                                    "C03",
                                                    if carried.is_empty() { format!("snapshot-outside-window/value/{}", if hi < t_q { "stale" } else { "future" }) } else { "partial-sync-answer-after-reattachment/value".to_string() },
                                                    "at synced the remote's value is not a value the lane held between the sync request and that instant",
                                                    json!({"lane": lane, "value": show(b), "held": [lo, hi], "window": [t_q, t_s]}),
                                                );
                                            }
                                        }
                                    }
                                },
                                LK::Map => {
                                    let mut ids: HashSet<usize> = (0..li.keys.len()).collect();
                                    ids.extend(replica.keys().copied());
                                    for k in ids {
                                        let st = replica.get(&k).map(|v| KS::Val(v.clone())).unwrap_or(KS::Absent);
                                        let empty = vec![];
                                        let tl = li.timeline.get(k).unwrap_or(&empty);
                                        // Absent from the start until the first entry; entry j holds during [t_j, t_{j+1}].
                                        let first_t = tl.first().map(|x| x.0).unwrap_or(u64::MAX);
                                        let mut ok = st == KS::Absent && first_t >= t_q;
                                        for (j, (lo, state)) in tl.iter().enumerate() {
                                            let hi = tl.get(j + 1).map(|x| x.0).unwrap_or(u64::MAX);
                                            if *state == st && *lo <= t_s && hi >= t_q {
                                                ok = true;
                                            }
                                        }
                                        if !ok {
                                            let fin = li.states.last().map(|s| s.1.get(&k).cloned()).unwrap_or(None);
                                            let class = match (&st, fin) {
                                                (KS::Absent, Some(_)) => "key-missing",
                                                (KS::Val(_), None) => "key-stale-present",
                                                _ => "key-stale-value",
                                            };
                                            out.violation(
                                                "C03",
                                                match li.keys.get(k).map_or("coherent", key_fact) {
                                                    _ if !carried.is_empty() => "partial-sync-answer-after-reattachment/map".to_string(),
                                                    "coherent" => format!("snapshot-outside-window/map/{class}/link-requested={}/key=coherent", links_started > 0),
                                                    fact => format!("snapshot-outside-window/map/key={fact}"),
                                                },
                                                "at synced a key of the remote's replica is not in a state the lane held between the sync request and that instant",
                                                json!({"lane": lane, "key": li.keys.get(k).map(|v| format!("{v:?}")), "replica": format!("{st:?}"), "timeline": format!("{tl:?}"), "window": [t_q, t_s]}),
                                            );
                                            break;
                                        }
                                    }
                                }
                                _ => {}
                            }
                        }
                    }
                    FrameKind::Unlinked => {
                        let lnf = f.body.as_ref() == LNF;
                        if open {
                            open = false;
                            if syncs_started > synced_seen && unlinks_started > 0 && !lnf {
                                relink_bonus += 1;
                                out.count("unlink-acknowledged-while-sync-answer-outstanding");
                            }
                            if lnf {
                                out.violation("C04", format!("lane-not-found-closes-open-link/{kind}"), "an open link was closed with lane-not-found", json!({"lane": lane}));
                            }
                        } else if lnf && unknown {
                            lnf_seen += 1;
                            sum.lane_not_found += 1;
                            if lnf_seen > links_started + syncs_started + unlinks_started {
                                out.violation("C04", "lane-not-found-unmatched", "more lane-not-found replies than requests for that lane", json!({"lane": lane, "seen": lnf_seen}));
                            }
                        } else if inherit_unknown {
                            // closes the link this id held through its first attachment
                            inherit_unknown = false;
                            out.count("dup-attach/frames-on-a-link-inherited-from-the-first-attachment");
                        } else {
                            out.violation(
                                "C04",
                                format!("unlinked-outside-link/{kind}/lane-not-found={lnf}"),
                                "unlinked received while no link is open (and not as a lane-not-found reply for an unknown lane)",
                                json!({"lane": lane, "body": show(&f.body)}),
                            );
                        }
                    }
                    FrameKind::Event => {
                        if !open && inherit_unknown {
                            out.count("dup-attach/frames-on-a-link-inherited-from-the-first-attachment");
                            open = true;
                            open_since = f.ticket;
                            inherit_unknown = false;
                        } else if !open {
                            out.violation("C04", format!("event-outside-link/{kind}"), "event received while no link is open", json!({"lane": lane, "body": show(&f.body)}));
                        }
                        let Some(li) = li else { continue };
                        // ---- C04: byte-for-byte a body this lane produced
                        let stray = |out: &mut CaseOut, body: &[u8]| {
                            let class = if body.is_empty() {
                                "empty"
                            } else if lanes.iter().any(|o| o.idx != li.idx && lane_emitted_bytes(o, body)) {
                                "from-another-lane"
                            } else if lane_emitted_prefix(li, body) {
                                "truncated"
                            } else {
                                "unknown"
                            };
                            out.violation(
                                "C04",
                                format!("event-body-not-emitted/{class}/{kind}/next={next_kind}"),
                                "an event body is not byte-for-byte a body the lane produced",
                                json!({"lane": li.spec.name, "body": show(body), "len": body.len()}),
                            );
                        };
                        match li.spec.kind {
                            LK::Value | LK::Command => {
                                sum.events_byte_checked += 1;
                                if f.body.is_empty() {
                                    // The empty body is legal only as often as the lane wrote it (to everybody, or
                                    // to this remote in a sync answer) before this receipt.
                                    empties_seen += 1;
                                    let allowed = li
                                        .rec
                                        .emitted
                                        .iter()
                                        .filter(|e| e.t0 < f.ticket)
                                        .filter(|e| match &e.what {
                                            Emitted::Std(Payload::Bytes(b)) => b.is_empty(),
                                            Emitted::SyncEv(id, Payload::Bytes(b)) => *id == s.id && b.is_empty(),
                                            _ => false,
                                        })
                                        .count();
                                    if empties_seen > allowed {
                                        stray(out, &f.body);
                                    } else {
                                        out.count("legit-empty-body-delivered");
                                    }
                                    last_body = Some(f.body.clone());
                                    continue;
                                }
                                match li.version_of.get(&f.body) {
                                    None => stray(out, &f.body),
                                    Some(&i) => {
                                        if li.rec.versions[i].0 > f.ticket {
                                            stray(out, &f.body);
                                        }
                                        // C01: order and multiplicity (copies: one standard event + one per sync frame to this remote)
                                        if let Some(lv) = last_version {
                                            if i < lv {
                                                out.violation("C01", format!("reordered-value/{kind}"), "a remote received an older value after a newer one", json!({"lane": lane, "index": i, "previous_index": lv}));
                                            } else if i > lv + 1 {
                                                out.count("value-skipped");
                                            }
                                        }
                                        let c = copies.entry(i).or_insert(0);
                                        *c += 1;
                                        let allowed = li
                                            .rec
                                            .emitted
                                            .iter()
                                            .filter(|e| match &e.what {
                                                Emitted::Std(Payload::Bytes(b)) => *b == f.body,
                                                Emitted::SyncEv(id, Payload::Bytes(b)) => *id == s.id && *b == f.body,
                                                _ => false,
                                            })
                                            .count();
                                        if *c > allowed {
                                            out.violation("C01", format!("duplicated-value/{kind}"), "a remote received the same value more often than the lane sent it to that remote", json!({"lane": lane, "copies": *c, "sent": allowed}));
                                        }
                                        last_version = Some(last_version.map_or(i, |lv| lv.max(i)));
                                    }
                                }
                                last_body = Some(f.body.clone());
                            }
                            LK::Supply => {
                                sum.events_byte_checked += 1;
                                sum.supply_items += 1;
                                // An empty item carries no identity: the runs of empty items between identified
                                // items are checked by count once the whole sequence is known.
                                if f.body.is_empty() {
                                    supply_seq.push(None);
                                    continue;
                                }
                                let found = li.item_of.get(&f.body).copied();
                                if let Some(i) = found {
                                    supply_seq.push(Some(i));
                                }
                                match found.as_ref() {
                                    None => {
                                        stray(out, &f.body);
                                        out.violation("C14", "supply/invented-item", "a remote received a supply-lane item that was never pushed", json!({"item": show(&f.body)}));
                                    }
                                    Some(&i) => {
                                        if !items_seen.insert(i) {
                                            out.violation("C14", "supply/duplicate-item", "a supply-lane item was delivered twice to one remote", json!({"item": show(&f.body)}));
                                        } else if last_item.map_or(false, |l| i < l) {
                                            out.violation("C14", "supply/reordered-item", "supply-lane items were delivered out of push order", json!({"item": show(&f.body)}));
                                        }
                                        last_item = Some(last_item.map_or(i, |l| l.max(i)));
                                    }
                                }
                            }
                            LK::Map => {
                                sum.map_events_checked += 1;
                                // A key that is not UTF-8 is no Recon key: the event is outside what C02 speaks
                                // about. If the runtime passes it on, the body must be the lane's (C04).
                                if li.rec.emitted.iter().any(|e| match &e.what {
                                    Emitted::BadKey { key, value } => e.t0 < f.ticket && render_bad(key, value.as_deref()) == f.body.as_ref(),
                                    _ => false,
                                }) {
                                    out.count("nonutf8-key-event-delivered-as-the-lane-wrote-it");
                                    continue;
                                }
                                let Some(p) = peel(&f.body) else {
                                    stray(out, &f.body);
                                    continue;
                                };
                                let mut touched: Vec<(usize, KS)> = vec![];
                                match p {
                                    Peeled::Other => stray(out, &f.body),
                                    Peeled::Clear => {
                                        if !li.first_clear_t0.map_or(false, |t| t < f.ticket) {
                                            out.violation("C04", format!("event-body-not-emitted/clear-never-emitted/map/next={next_kind}"), "a clear arrived although the lane never cleared", json!({"lane": lane}));
                                        }
                                        for k in replica.keys() {
                                            touched.push((*k, KS::Absent));
                                        }
                                        replica.clear();
                                        out.count("map-clear-received");
                                    }
                                    Peeled::Remove(pk) => {
                                        let kv = std::str::from_utf8(&pk).ok().and_then(parse_key);
                                        match kv.as_ref().and_then(|kv| li.keys.iter().position(|x| x == kv)) {
                                            Some(id) if li.key_texts[id].contains(&pk) => {
                                                replica.remove(&id);
                                                touched.push((id, KS::Absent));
                                            }
                                            Some(id) => {
                                                out.violation("C04", format!("event-body-not-emitted/key-text-never-emitted/map/next={next_kind}"), "a remove carries a key text the lane never wrote for that key", json!({"lane": lane, "key": show(&pk)}));
                                                replica.remove(&id);
                                                touched.push((id, KS::Absent));
                                            }
                                            None => stray(out, &f.body),
                                        }
                                    }
                                    Peeled::Update(pk, pv) => {
                                        let kv = std::str::from_utf8(&pk).ok().and_then(parse_key);
                                        match li.upd_by_value.get(&pv) {
                                            None => {
                                                stray(out, &f.body);
                                                out.violation("C02", "invented-entry/value-never-emitted", "a remote received a map update whose value the lane never wrote", json!({"lane": lane, "body": show(&f.body)}));
                                            }
                                            Some(u) => {
                                                let same_key = kv.as_ref().map_or(false, |kv| *kv == li.keys[u.key_id]);
                                                if !same_key {
                                                    // the value the lane wrote under one key arrives under a key the remote keeps apart
                                                    out.violation(
                                                        "C02",
                                                        "distinct-keys-merged",
                                                        "an update arrived under a key that (as a parsed value) differs from the key the lane wrote that value for",
                                                        json!({"lane": lane, "received_key": show(&pk), "written_key": format!("{:?}", li.keys[u.key_id]), "value": show(&pv)}),
                                                    );
                                                    stray(out, &f.body);
                                                } else if !li.key_texts[u.key_id].contains(&pk) {
                                                    out.violation("C04", format!("event-body-not-emitted/key-text-never-emitted/map/next={next_kind}"), "an update carries a key text the lane never wrote for that key", json!({"lane": lane, "key": show(&pk)}));
                                                }
                                                if u.epoch < max_epoch {
                                                    out.violation("C02", "clear-overtaken-by-older-update", "an update made before a clear was received after an update made after it", json!({"lane": lane, "value": show(&pv)}));
                                                }
                                                max_epoch = max_epoch.max(u.epoch);
                                                // replica keyed by the *received* key (as a value)
                                                let rid = match kv {
                                                    Some(kv) => match li.keys.iter().position(|x| *x == kv) {
                                                        Some(id) => id,
                                                        None => {
                                                            let p = extra_keys.iter().position(|x| *x == kv).unwrap_or_else(|| {
                                                                extra_keys.push(kv.clone());
                                                                extra_keys.len() - 1
                                                            });
                                                            1_000_000 + p
                                                        }
                                                    },
                                                    None => u.key_id,
                                                };
                                                if replica.insert(rid, u.value_text.clone()).is_some() {
                                                    out.count("map-entry-overwritten-at-remote");
                                                }
                                                touched.push((rid, KS::Val(u.value_text.clone())));
                                            }
                                        }
                                    }
                                }
                                // C02 b: the states a key went through at the remote embed, in order, in the key's true timeline.
                                for (k, st) in touched {
                                    let empty = vec![];
                                    let tl = li.timeline.get(k).unwrap_or(&empty);
                                    let p = key_ptr.get(&k).copied().unwrap_or(0);
                                    let state_at = |pos: usize| if pos == 0 { KS::Absent } else { tl[pos - 1].1.clone() };
                                    let mut found = None;
                                    for pos in p..=tl.len() {
                                        if state_at(pos) == st {
                                            found = Some(pos);
                                            break;
                                        }
                                    }
                                    match found {
                                        Some(pos) => {
                                            if pos > p + 1 {
                                                out.count("map-key-states-skipped");
                                            }
                                            key_ptr.insert(k, pos);
                                        }
                                        None => out.violation(
                                            "C02",
                                            match li.keys.get(k).map_or("coherent", key_fact) {
                                                "coherent" => format!("per-key-order/{}/key=coherent", if matches!(st, KS::Absent) { "removal" } else { "update" }),
                                                fact => format!("per-key-order/key={fact}"),
                                            },
                                            "the states a remote saw for a key are not an in-order subsequence of the states that key held",
                                            json!({"lane": lane, "key": li.keys.get(k).map(|v| format!("{v:?}")), "state": format!("{st:?}"), "timeline": format!("{tl:?}"), "position": p}),
                                        ),
                                    }
                                }
                            }
                        }
                    }
                }
            }

            // C14: never more empty supply items between two identified items than the lane pushed there.
            if let Some(li) = li {
                if li.spec.kind == LK::Supply && !li.empty_items.is_empty() || supply_seq.iter().any(|x| x.is_none()) {
                    for (lo, hi, k) in empty_runs(&supply_seq) {
                        let pushed = li.empty_items.iter().filter(|i| (**i as i64) > lo && (**i as i64) < hi).count();
                        if k > pushed {
                            out.violation("C14", "supply/invented-item/empty", "a remote received more empty supply-lane items between two items than the lane pushed between them", json!({"lane": lane, "received": k, "pushed": pushed}));
                            break;
                        }
                    }
                }
            }

            // ---- end-of-conversation rules for this (session, lane)
            let (open_at_q, open_at_q_since, synced_at_q) = open_before(&lf.frames, q);
            let unlink_req_after = lf.reqs.iter().any(|r| r.kind == ReqKind::Unlink && r.t1.unwrap_or(u64::MAX) > open_at_q_since);
            let lane_sound = li.map_or(false, |l| l.hard_fail.is_none());
            let stable = quiescent_ok && agent_alive_at_q && reader_alive_at_q && open_at_q && !unlink_req_after && !is_probe && lane_sound;

            if let (true, Some(li)) = (stable, li) {
                match li.spec.kind {
                    LK::Value | LK::Command => {
                        // C01 never stale: linked (frame received) before the lane adopted its last value.
                        if li.rec.versions.len() > 1 {
                            let last = li.rec.versions.last().unwrap();
                            let delivered = li.rec.emitted.iter().any(|e| e.t1.map_or(false, |t| t < q) && matches!(&e.what, Emitted::Std(Payload::Bytes(b)) if *b == last.1));
                            if open_at_q_since < last.0 && delivered {
                                sum.converged_links += 1;
                                let got = lf.frames.iter().filter(|f| f.ticket < q && f.kind == FrameKind::Event).last().map(|f| f.body.clone());
                                if got.as_ref() != Some(&last.1) {
                                    out.violation(
                                        "C01",
                                        format!("stale-at-quiescence/{kind}"),
                                        "the agent is quiescent and the remote has drained its channel, but the last value it received is not the lane's current value",
                                        json!({"lane": lane, "last_received": got.map(|b| show(&b)), "current": show(&last.1)}),
                                    );
                                }
                            }
                        }
                    }
                    LK::Map => {
                        let first_change = li.rec.map_hist.first().map(|c| c.t);
                        let _ = synced_at_q;
                        let synced_at_q = synced_clean_before_q;
                        let complete = synced_at_q || first_change.map_or(true, |c| open_at_q_since < c);
                        if complete {
                            sum.converged_links += 1;
                            // replica at q, keyed by parsed key; the loop above kept `replica` up to the last frame,
                            // which at a clean end is the state at q (frames after q belong to the shutdown only).
                            let mut rep: BTreeMap<usize, String> = BTreeMap::new();
                            // (an attachment made over an open one: events before the first linked on this channel
                            // belong to the link the id brought along, and that linked acknowledges an open link)
                            let mut is_open = s.dup_of.is_some();
                            let mut extra: Vec<Value> = vec![];
                            for f in lf.frames.iter().filter(|f| f.ticket < q) {
                                match f.kind {
                                    FrameKind::Linked => {
                                        if !is_open {
                                            is_open = true;
                                            rep.clear();
                                        }
                                    }
                                    FrameKind::Unlinked => is_open = false,
                                    FrameKind::Event => match peel(&f.body) {
                                        Some(Peeled::Update(pk, pv)) => {
                                            let kv = std::str::from_utf8(&pk).ok().and_then(parse_key);
                                            let id = kv.map(|kv| {
                                                li.keys.iter().position(|x| *x == kv).unwrap_or_else(|| {
                                                    let p = extra.iter().position(|x| *x == kv).unwrap_or_else(|| {
                                                        extra.push(kv.clone());
                                                        extra.len() - 1
                                                    });
                                                    1_000_000 + p
                                                })
                                            });
                                            if let Some(id) = id {
                                                let text = li.upd_by_value.get(&pv).map(|u| u.value_text.clone()).unwrap_or_else(|| show(&pv));
                                                rep.insert(id, text);
                                            }
                                        }
                                        Some(Peeled::Remove(pk)) => {
                                            if let Some(id) = std::str::from_utf8(&pk).ok().and_then(parse_key).and_then(|kv| li.keys.iter().position(|x| *x == kv)) {
                                                rep.remove(&id);
                                            }
                                        }
                                        Some(Peeled::Clear) => rep.clear(),
                                        _ => {}
                                    },
                                    _ => {}
                                }
                            }
                            let truth = li.state_at(q);
                            if rep != truth {
                                let missing = truth.keys().any(|k| !rep.contains_key(k));
                                let extra_k = rep.keys().any(|k| !truth.contains_key(k));
                                let class = if missing {
                                    "missing-key"
                                } else if extra_k {
                                    "extra-key"
                                } else {
                                    "stale-value"
                                };
                                let bad_key = truth.keys().chain(rep.keys()).filter(|k| truth.get(*k) != rep.get(*k)).filter_map(|k| li.keys.get(*k)).map(key_fact).find(|f| *f != "coherent").unwrap_or("coherent");
                                out.violation(
                                    "C02",
                                    if !carried.is_empty() && synced_at_q { "replica-diverged/after-partial-sync-answer-after-reattachment".to_string() } else if bad_key == "coherent" { format!("replica-diverged/{class}/synced={synced_at_q}/key=coherent") } else { format!("replica-diverged/key={bad_key}") },
                                    "the agent is quiescent and the remote has drained its channel, but applying the operations it received does not give the lane's map",
                                    json!({"lane": lane, "replica": format!("{rep:?}"), "lane_map": format!("{truth:?}"), "keys": format!("{:?}", li.keys)}),
                                );
                            }
                        }
                    }
                    LK::Supply => {
                        // C14: every item of a burst issued after the link was certainly up.
                        let mut mandatory_empties: HashSet<usize> = HashSet::new();
                        if li.fail_t.is_none() {
                            for (t_issue, l, ctl) in &obs.lane_ctl {
                                if *l != li.idx || *t_issue <= open_at_q_since {
                                    continue;
                                }
                                if let LaneCtl::Empties(_) = ctl {
                                    // the empty items pushed by this control message: those emitted after it and
                                    // before the next control message of the lane
                                    let next_ctl = obs.lane_ctl.iter().filter(|(t, l2, _)| *l2 == li.idx && *t > *t_issue).map(|x| x.0).min().unwrap_or(u64::MAX);
                                    for &ix in li.empty_items.iter().filter(|ix| li.items[**ix].t0 > *t_issue && li.items[**ix].t0 < next_ctl) {
                                        if li.items[ix].t1.map_or(false, |t| t <= q) {
                                            mandatory_empties.insert(ix);
                                        }
                                    }
                                }
                                if let LaneCtl::Burst { first, n, pad } = ctl {
                                    for i in 0..*n as u64 {
                                        let body = crate::lanes::supply_body(li.idx, first + i, *pad);
                                        let Some(&ix) = li.item_of.get(&body) else { continue };
                                        if li.items[ix].t1.map_or(true, |t| t > q) {
                                            continue;
                                        }
                                        sum.supply_certain += 1;
                                        if !items_seen.contains(&ix) {
                                            out.violation("C14", "supply/item-lost", "an item pushed while the remote was certainly linked was never delivered to it", json!({"lane": lane, "item": show(&body), "burst": n}));
                                            break;
                                        }
                                    }
                                }
                            }
                        }
                        // empty items pushed while the remote was certainly linked: each run must hold them all
                        if !mandatory_empties.is_empty() {
                            for (lo, hi, k) in empty_runs(&supply_seq) {
                                let must = mandatory_empties.iter().filter(|i| (**i as i64) > lo && (**i as i64) < hi).count();
                                sum.supply_certain += must as u64;
                                if k < must {
                                    out.violation("C14", "supply/item-lost/empty", "an empty item pushed while the remote was certainly linked was never delivered to it (or was overtaken by a later item)", json!({"lane": lane, "received": k, "pushed_while_linked": must}));
                                    break;
                                }
                            }
                        }
                    }
                }
            }

            // C03: every sync request on a link that stays up is eventually answered (syncs are flushed before q).
            if let Some(li) = li {
                if quiescent_ok && agent_alive_at_q && reader_alive_at_q && li.fail_t.is_none() && li.rec.write_error.is_none() {
                    if let Some(last_sync) = lf.reqs.iter().filter(|r| r.kind == ReqKind::Sync && r.t1.map_or(false, |t| t < q)).last() {
                        let unlink_after = lf.reqs.iter().any(|r| r.kind == ReqKind::Unlink && r.t0 > last_sync.t0);
                        let answered = lf.frames.iter().any(|f| f.kind == FrameKind::Synced && f.ticket > last_sync.t0);
                        if s.dup_of.is_some() && answered {
                            out.count("dup-attach/sync-on-the-second-attachment-answered");
                        }
                        if !unlink_after && !answered {
                            out.violation("C03", format!("sync-never-completed/{kind}"), "a sync request was never answered with synced although the agent is quiescent and the remote drained its channel", json!({"lane": lane}));
                        }
                    }
                }
            }

            // C04: lane-not-found replies for unknown lanes.
            if unknown && quiescent_ok && agent_alive_at_q && reader_alive_at_q {
                let must = lf.reqs.iter().filter(|r| r.t1.map_or(false, |t| t < q) && matches!(r.kind, ReqKind::Link | ReqKind::Sync)).count();
                let seen_q = lf.frames.iter().filter(|f| f.ticket < q && f.kind == FrameKind::Unlinked && f.body.as_ref() == LNF).count();
                if seen_q < must {
                    out.violation("C04", "lane-not-found-missing", "a link or sync request for a lane that does not exist was not answered by unlinked/lane-not-found", json!({"lane": lane, "requests": must, "replies": seen_q}));
                }
            }

            // C04: a lane failed: every link that was open is closed by unlinked (remote keeps reading).
            if let Some(li) = li {
                if let (Some(how), Some(tf), true, true) = (li.hard_fail, li.fail_t, quiescent_ok, reader_alive_at_q) {
                    let failure_written = li.rec.emitted.iter().any(|e| matches!(e.what, Emitted::Corrupt | Emitted::Truncated) && e.t1.map_or(false, |t| t < q));
                    if open_at_q && open_at_q_since < tf && failure_written {
                        out.violation(
                            "C04",
                            format!("link-not-closed-after-lane-failure/{kind}/{how:?}"),
                            "a lane failed but a link to it that was open is still open at quiescence (no unlinked was sent)",
                            json!({"lane": lane, "failed_at": tf, "linked_at": open_at_q_since}),
                        );
                    } else if failure_written {
                        out.count("lane-failure-links-checked");
                    }
                }
                if let (Some((tf, FailHow::CloseWriter)), true, true) = (li.rec.failed, open_at_q, quiescent_ok) {
                    if open_at_q_since < tf {
                        out.count("lane-closed-cleanly-link-left-open");
                    }
                }
            }

            // C04: the runtime closed the remote's channel while a link was open (agent stop / agent return / prune).
            // (A remote removed for inactivity may be far behind: the runtime drops what is still queued for
            // it, `unlinked` frames included, so the frames it received are only a prefix of what was sent and
            // an apparently open link proves nothing. Whether a remote that really held a link was pruned is
            // decided below from its requests, rule `completion/pruned-while-linked`.)
            let pruned = matches!(v.completion, Some((_, Some(DisconnectionReason::RemoteTimedOut))));
            if let Some(tc) = closed_by_runtime {
                let cut = cuts[si].filter(|_| obs.stuck.is_empty());
                if open && pruned {
                    out.count("closed-by-prune-with-link-open-in-the-remotes-view");
                } else if open && v.superseded_by.is_some() {
                    // the id's links live on with the attachment that replaced this one
                    out.count("dup-attach/first-channel-closed-with-link-open");
                } else if open && removed_for_old {
                    // reported once, with the completion reason
                    out.count("completed-attachment/links-gone-without-unlinked-with-the-removed-new-registration");
                } else if let (true, Some((_, bl, t_key))) = (open, cut) {
                    // Everything the runtime had for this remote was written before it dropped the writer (the
                    // writer is only lost while it is idle), and the reader read up to the end of the stream: the
                    // link is open on both sides and nothing will ever close it.
                    let same = lanes[bl].spec.name == *lane;
                    out.violation(
                        "C04",
                        format!("nonutf8-map-key/channel-closed-without-unlinked/link-on={}", if same { "same-lane" } else { "other-lane" }),
                        "after a map lane wrote an event whose key is not UTF-8, the runtime closed the channel of a remote linked to that lane - without unlinked for its open links and without completing its promise",
                        json!({"lane": lane, "lane_with_the_key": lanes[bl].spec.name, "linked_at": open_since, "closed_at": tc}),
                    );
                    // C02: operations on ordinary keys that the lane performed afterwards can no longer arrive.
                    if let (true, Some(li), true) = (same, li, obs.quiescent.is_some()) {
                        let later = li.rec.emitted.iter().filter(|e| matches!(&e.what, Emitted::Std(Payload::Map(_))) && e.t0 > t_key && e.t1.map_or(false, |t| t < q)).count();
                        if later > 0 {
                            out.violation(
                                "C02",
                                "nonutf8-map-key/later-operations-on-valid-keys-not-delivered",
                                "a linked, reading remote no longer receives the lane's operations on ordinary keys after the lane wrote one event whose key is not UTF-8 (its channel was closed); its replica cannot converge",
                                json!({"lane": lane, "operations_after": later, "closed_at": tc}),
                            );
                        }
                    }
                } else if open && obs.stuck.is_empty() {
                    // The frame that opened the link was written when the request was handled, possibly long
                    // before a stalled reader received it: look at stalls since that request.
                    let asked = lf.reqs.iter().filter(|r| matches!(r.kind, ReqKind::Link | ReqKind::Sync) && r.t0 < open_since).map(|r| r.t0).last().unwrap_or(open_since);
                    let a = if end_request.map_or(false, |t| t < tc) { end_request.unwrap_or(asked).min(asked) } else { asked };
                    if !stalled_between(s, a, tc) {
                        let timed_out = matches!(v.completion, Some((_, Some(DisconnectionReason::AgentTimedOut))));
                        let why = if timed_out {
                            "agent-timed-out"
                        } else if end_request.map_or(false, |t| t < tc) {
                            end_kind
                        } else {
                            "remote-removed"
                        };
                        out.violation(
                            "C04",
                            format!("link-not-closed-before-channel-closed/{kind}/{why}"),
                            "the runtime closed a reading remote's channel without sending unlinked for an open link",
                            json!({"lane": lane, "linked_at": open_since, "closed_at": tc}),
                        );
                    }
                }
            }
            let _ = lnf_seen;
        }

        // ---- completion promise (C04: consistent disconnection reason)
        if s.attached_t1.is_some() {
            sum.completions += 1;
            let dropped_reader = match &v.end {
                Some(ReaderEnd::Dropped(t)) => Some(*t),
                _ => None,
            };
            match v.completion {
                Some((t, Some(reason))) => {
                    let ended = end_request.map_or(false, |e| e < t);
                    match reason {
                        DisconnectionReason::AgentStoppedExternally => {
                            if !ended && obs.cfg.inactive_ms.is_some() {
                                // inactivity with no lane left alive: the runtime stops cleanly by itself
                                out.count("completion-stopped-after-inactivity");
                            } else if !ended {
                                out.violation("C04", "completion/agent-stopped-without-stop", "a remote was completed with AgentStoppedExternally although nobody stopped the agent", json!({"at": t}));
                            }
                        }
                        DisconnectionReason::ChannelClosed if removed_for_old => {
                            out.violation(
                                "C04",
                                "completed-attachment/new-registration-removed-when-write-to-the-old-channel-failed",
                                "a remote id attached again after the runtime had removed it; when the reader of the removed attachment was dropped, the runtime removed the new, healthy attachment with ChannelClosed (its links go without unlinked)",
                                json!({"at": t, "links_open_in_the_remotes_view": by_lane.values().filter(|lf| open_before(&lf.frames, t).0).count()}),
                            );
                        }
                        DisconnectionReason::ChannelClosed => {
                            if !dropped_reader.map_or(false, |d| d < t) {
                                out.violation("C04", "completion/channel-closed-but-reader-alive", "a remote was completed with ChannelClosed although its reader was never dropped", json!({"at": t}));
                            } else {
                                out.count("completion-channel-closed");
                            }
                        }
                        DisconnectionReason::RemoteTimedOut => {
                            if obs.cfg.prune_ms.is_none() {
                                out.violation("C04", "completion/pruned-without-timeout", "a remote was pruned although the prune delay is effectively infinite", json!({"at": t}));
                            }
                            out.count("completion-remote-timed-out");
                            // C03: "a remote that syncs at any moment": a remote may only be removed for inactivity after
                            // it has been without a link for the whole prune delay (virtual time, exact under the paused
                            // clock). One that is removed earlier and whose sync request is then never answered was denied
                            // its session.
                            if let (Some(prune_ms), Some(tv)) = (obs.cfg.prune_ms, *s.completion_v.lock()) {
                                let idle = tv.saturating_duration_since(s.attached_v);
                                if idle < std::time::Duration::from_millis(prune_ms) {
                                    out.count("pruned-before-delay");
                                    for (lane, lf) in &by_lane {
                                        let Some(li) = lane_by_name.get(lane.as_str()).map(|i| &lanes[*i]) else { continue };
                                        let asked = lf.reqs.iter().filter(|r| r.kind == ReqKind::Sync).last();
                                        if let Some(asked) = asked {
                                            let unlinked_after = lf.reqs.iter().any(|r| r.kind == ReqKind::Unlink && r.t0 > asked.t0);
                                            let answered = lf.frames.iter().any(|f| f.kind == FrameKind::Synced && f.ticket > asked.t0);
                                            if !answered && !unlinked_after && li.fail_t.is_none() && dropped_reader.is_none() && !matches!(li.spec.kind, LK::Value | LK::Map) {
                                                out.count("sync-lost-to-early-prune-other-lane-kind");
                                            } else if !answered && !unlinked_after && li.fail_t.is_none() && dropped_reader.is_none() {
                                                out.violation(
                                                    "C03",
                                                    format!("sync-never-completed/{}/removed-before-prune-delay{}", li.spec.kind.name(), if s.reused_id { "/reattached-same-id" } else { "" }),
                                                    "a remote that had been attached for less than the prune delay was removed for inactivity and its sync request was never answered",
                                                    json!({"lane": lane, "attached_for_ms": idle.as_millis() as u64, "prune_ms": prune_ms}),
                                                );
                                            }
                                        }
                                    }
                                } else {
                                    out.count("pruned-after-delay");
                                }
                            }
                            // a remote that provably holds a link must not be pruned
                            if dropped_reader.is_none() {
                                for (lane, lf) in &by_lane {
                                    let (open, since, _) = open_before(&lf.frames, t);
                                    // the frame was written when the request was handled, maybe long before it was read
                                    let since = lf.reqs.iter().filter(|r| matches!(r.kind, ReqKind::Link | ReqKind::Sync) && r.t0 < since).map(|r| r.t0).last().unwrap_or(since);
                                    let unlinking = lf.reqs.iter().any(|r| r.kind == ReqKind::Unlink && r.t0 > since);
                                    let lane_failed = lane_by_name.get(lane.as_str()).map_or(false, |i| lanes[*i].fail_t.is_some());
                                    // frames still in flight to a stalled reader say nothing
                                    if open && !unlinking && !lane_failed && !stalled_between(s, since, t) && v.frames.iter().all(|f| f.ticket < t || f.lane != *lane || f.kind != FrameKind::Unlinked) {
                                        out.violation("C04", "completion/pruned-while-linked", "a remote was pruned for inactivity while it held an open link", json!({"lane": lane, "linked_at": since, "pruned_at": t}));
                                    }
                                }
                            }
                        }
                        DisconnectionReason::AgentTimedOut => {
                            if obs.cfg.inactive_ms.is_none() {
                                out.violation("C04", "completion/agent-timed-out-without-timeout", "a remote was completed with AgentTimedOut although the inactivity timeout is effectively infinite", json!({"at": t}));
                            } else if end_request.map_or(false, |e| e < t) && obs.agent_finished.map_or(true, |f| e_lt(end_request, f)) {
                                // a stop was requested first: the reason should say so (the vote may still have won the race)
                                out.count("completion-agent-timed-out-after-stop-request");
                            } else {
                                out.count("completion-agent-timed-out");
                            }
                        }
                        DisconnectionReason::DuplicateRegistration(id) if v.superseded_by.is_some() && id == s.id => {
                            out.count("completion-duplicate-registration");
                        }
                        other => {
                            out.violation("C04", format!("completion/unexpected-reason/{}", common::sanitize_sig(&format!("{other:?}"))), "a remote was completed with a reason that cannot apply to this conversation", json!({"reason": format!("{other:?}")}));
                        }
                    }
                    if ended && obs.agent_finished.is_some() && !matches!(reason, DisconnectionReason::AgentStoppedExternally) && t > obs.agent_finished.unwrap_or(u64::MAX) {
                        out.count("completion-after-finish-other-reason");
                    }
                }
                Some((t, None)) => {
                    // promise dropped: only acceptable when the shutdown could not complete (a stalled reader)
                    let a = end_request.unwrap_or(t);
                    let any_stalled = obs.sessions.iter().any(|o| stalled_between(o, a, t));
                    if !any_stalled && obs.stuck.is_empty() {
                        out.violation("C04", format!("completion/promise-dropped/{end_kind}"), "the completion promise of a registered remote was dropped without a reason", json!({"at": t}));
                    }
                }
                None => {
                    if obs.agent_finished.is_some() && obs.stuck.is_empty() {
                        out.violation("C04", format!("completion/never-completed/{end_kind}"), "the agent finished but the completion promise of a registered remote was neither satisfied nor dropped", json!({}));
                    }
                }
            }
            // Overlapping attachments: once the second attachment is confirmed the runtime has replaced the first,
            // whose promise must be completed (with a reason) then - not left pending until the agent stops.
            if let (Some(succ), true) = (v.superseded_by, obs.stuck.is_empty()) {
                if let Some(ta) = obs.sessions[succ].attached_t1 {
                    let in_time = |t: u64| end_request.map_or(true, |e| t < e || e < ta);
                    match v.completion {
                        Some((t, Some(_))) if in_time(t) => out.count("dup-attach/first-promise-completed-at-replacement"),
                        Some((t, None)) if in_time(t) => {
                            out.violation("C04", "dup-attach/first-promise-dropped", "the completion promise of an attachment that was replaced by a second attachment under the same id was dropped without a reason", json!({"at": t, "replaced_at": ta}));
                        }
                        other => {
                            out.violation(
                                "C04",
                                "dup-attach/first-promise-left-pending",
                                "an attachment was replaced by a second attachment under the same id but its completion promise was not completed at the replacement",
                                json!({"completion": format!("{other:?}"), "replaced_at": ta, "end_requested_at": end_request}),
                            );
                        }
                    }
                }
            }
            // a clean stop with everybody reading: the reason is AgentStoppedExternally for every remote still registered
            if let (Some(e), Some(fin)) = (end_request, obs.agent_finished) {
                if let Some((t, Some(reason))) = v.completion {
                    if t > e && t <= fin + 4 && !matches!(reason, DisconnectionReason::AgentStoppedExternally | DisconnectionReason::ChannelClosed | DisconnectionReason::RemoteTimedOut | DisconnectionReason::AgentTimedOut) {
                        out.violation("C04", format!("completion/wrong-reason-at-stop/{}", common::sanitize_sig(&format!("{reason:?}"))), "the agent was stopped but a remote was completed with another reason", json!({"reason": format!("{reason:?}")}));
                    }
                }
            }
        }
    }

    // ---- agent result (C04: an agent failure is reported as such)
    if let Some(res) = &obs.agent_result {
        match (obs.agent_returned, res) {
            (Some((_, false)), Ok(())) => out.violation("C04", "agent-error-swallowed", "the agent implementation failed but run_agent returned Ok", json!({})),
            (Some((_, true)), Err(e)) | (None, Err(e)) => out.violation("C04", format!("agent-run-failed/{end_kind}"), "run_agent returned an error although the agent implementation did not fail", json!({"error": e})),
            _ => {}
        }
    }

    // ---- C14: commands at the lanes
    if quiescent_ok {
        for li in &lanes {
            let input_ok = !li.rec.received.iter().any(|r| matches!(r.what, Received::Closed | Received::DecodeError(_)) && r.t < q);
            let got: Vec<(u64, &Received)> = li.rec.received.iter().filter(|r| r.t < q).map(|r| (r.t, &r.what)).collect();
            sum.commands_at_lanes += got.iter().filter(|g| matches!(g.1, Received::Command(_) | Received::MapCommand(_))).count() as u64;
            out.events += got.len() as u64;
            match li.spec.kind {
                LK::Map => {
                    // updates are unique by value text; removes and clears are compared as multisets
                    let mut pos_of: HashMap<(Vec<u8>, Vec<u8>), Vec<usize>> = HashMap::new();
                    let mut rem_got: HashMap<Vec<u8>, i64> = HashMap::new();
                    let mut clr_got = 0i64;
                    for (i, (_, g)) in got.iter().enumerate() {
                        match g {
                            Received::MapCommand(MapOpText::Update { key, value }) => pos_of.entry((key.clone().into_bytes(), value.clone().into_bytes())).or_default().push(i),
                            Received::MapCommand(MapOpText::Remove { key }) => *rem_got.entry(key.clone().into_bytes()).or_default() += 1,
                            Received::MapCommand(MapOpText::Clear) => clr_got += 1,
                            _ => {}
                        }
                    }
                    let mut sent_upd: HashSet<(Vec<u8>, Vec<u8>)> = HashSet::new();
                    let mut rem_lo: HashMap<Vec<u8>, i64> = HashMap::new();
                    let mut rem_hi: HashMap<Vec<u8>, i64> = HashMap::new();
                    let (mut clr_lo, mut clr_hi) = (0i64, 0i64);
                    for (si, _s) in obs.sessions.iter().enumerate() {
                        let mut last_pos: Option<usize> = None;
                        for r in views[si].reqs.iter().filter(|r| r.kind == ReqKind::Command && r.lane == li.spec.name) {
                            let done = r.t1.map_or(false, |t| t < q);
                            match peel(&r.body) {
                                Some(Peeled::Update(k, v)) => {
                                    sent_upd.insert((k.clone(), v.clone()));
                                    match pos_of.get(&(k, v)) {
                                        None => {
                                            if done && input_ok {
                                                out.violation("C14", "command/lost/map", "a command envelope accepted by the runtime never reached the lane", json!({"lane": li.spec.name, "body": show(&r.body)}));
                                            }
                                        }
                                        Some(ps) => {
                                            if ps.len() > 1 {
                                                out.violation("C14", "command/duplicated/map", "one command envelope reached the lane more than once", json!({"lane": li.spec.name, "body": show(&r.body), "times": ps.len()}));
                                            }
                                            if last_pos.map_or(false, |lp| ps[0] < lp) {
                                                out.violation("C14", "command/reordered/map", "commands of one remote reached the lane out of send order", json!({"lane": li.spec.name, "body": show(&r.body)}));
                                            }
                                            last_pos = Some(ps[0]);
                                        }
                                    }
                                }
                                Some(Peeled::Remove(k)) => {
                                    if done {
                                        *rem_lo.entry(k.clone()).or_default() += 1;
                                    }
                                    *rem_hi.entry(k).or_default() += 1;
                                }
                                Some(Peeled::Clear) => {
                                    if done {
                                        clr_lo += 1;
                                    }
                                    clr_hi += 1;
                                }
                                _ => {}
                            }
                        }
                    }
                    for (k, _) in pos_of.iter() {
                        if !sent_upd.contains(k) {
                            out.violation("C14", "command/invented/map", "the lane received a command nobody sent to it", json!({"lane": li.spec.name, "key": show(&k.0), "value": show(&k.1)}));
                        }
                    }
                    let mut keys: HashSet<&Vec<u8>> = rem_got.keys().collect();
                    keys.extend(rem_hi.keys());
                    for k in keys {
                        let g = rem_got.get(k).copied().unwrap_or(0);
                        let lo = if input_ok { rem_lo.get(k).copied().unwrap_or(0) } else { 0 };
                        let hi = rem_hi.get(k).copied().unwrap_or(0);
                        if g < lo || g > hi {
                            out.violation("C14", format!("command/count-mismatch/map-remove/{}", if g < lo { "lost" } else { "extra" }), "the number of remove commands that reached the lane differs from the number sent", json!({"lane": li.spec.name, "key": show(k), "received": g, "sent": [lo, hi]}));
                        }
                    }
                    let lo = if input_ok { clr_lo } else { 0 };
                    if clr_got < lo || clr_got > clr_hi {
                        out.violation("C14", format!("command/count-mismatch/map-clear/{}", if clr_got < lo { "lost" } else { "extra" }), "the number of clear commands that reached the lane differs from the number sent", json!({"lane": li.spec.name, "received": clr_got, "sent": [lo, clr_hi]}));
                    }
                }
                _ => {
                    let mut pos_of: HashMap<&Bytes, Vec<usize>> = HashMap::new();
                    for (i, (_, g)) in got.iter().enumerate() {
                        if let Received::Command(b) = g {
                            pos_of.entry(b).or_default().push(i);
                        }
                    }
                    let mut sent: HashSet<&Bytes> = HashSet::new();
                    for (si, _s) in obs.sessions.iter().enumerate() {
                        let mut last_pos: Option<usize> = None;
                        for r in views[si].reqs.iter().filter(|r| r.kind == ReqKind::Command && r.lane == li.spec.name) {
                            sent.insert(&r.body);
                            let done = r.t1.map_or(false, |t| t < q);
                            match pos_of.get(&r.body) {
                                None => {
                                    if done && input_ok {
                                        out.violation("C14", format!("command/lost/{}", li.spec.kind.name()), "a command envelope accepted by the runtime never reached the lane", json!({"lane": li.spec.name, "body": show(&r.body)}));
                                    }
                                }
                                Some(ps) => {
                                    if ps.len() > 1 {
                                        out.violation("C14", format!("command/duplicated/{}", li.spec.kind.name()), "one command envelope reached the lane more than once", json!({"lane": li.spec.name, "body": show(&r.body), "times": ps.len()}));
                                    }
                                    if last_pos.map_or(false, |lp| ps[0] < lp) {
                                        out.violation("C14", format!("command/reordered/{}", li.spec.kind.name()), "commands of one remote reached the lane out of send order", json!({"lane": li.spec.name, "body": show(&r.body)}));
                                    }
                                    last_pos = Some(ps[0]);
                                }
                            }
                        }
                    }
                    for b in pos_of.keys() {
                        if !sent.contains(*b) {
                            let elsewhere = views.iter().any(|v| v.reqs.iter().any(|r| r.kind == ReqKind::Command && r.body == **b));
                            out.violation(
                                "C14",
                                format!("command/invented/{}/sent-to-other-lane={elsewhere}", li.spec.kind.name()),
                                "the lane received a command nobody sent to it",
                                json!({"lane": li.spec.name, "body": show(b)}),
                            );
                        }
                    }
                }
            }
        }
    }

    // ---- probe: what a fresh syncing remote receives is the lane's state (C03 / C02)
    if let (Some(pi), true) = (obs.probe_session, quiescent_ok) {
        let v = &views[pi];
        for li in &lanes {
            if li.fail_t.is_some() || li.rec.write_error.is_some() {
                continue;
            }
            let fr: Vec<&Frame> = v.frames.iter().filter(|f| f.lane == li.spec.name).collect();
            let synced = fr.iter().any(|f| f.kind == FrameKind::Synced);
            if !synced {
                continue;
            }
            match li.spec.kind {
                LK::Value => {
                    let got = fr.iter().filter(|f| f.kind == FrameKind::Event).last().map(|f| f.body.clone());
                    let want = li.rec.versions.last().map(|x| x.1.clone());
                    if got != want {
                        out.violation("C03", "probe/value-differs", "a fresh syncing remote received a value that is not the lane's value", json!({"lane": li.spec.name, "got": got.map(|b| show(&b)), "want": want.map(|b| show(&b))}));
                    }
                }
                LK::Map => {
                    let mut rep: BTreeMap<usize, String> = BTreeMap::new();
                    for f in fr.iter().filter(|f| f.kind == FrameKind::Event) {
                        match peel(&f.body) {
                            Some(Peeled::Update(pk, pv)) => {
                                if let Some(id) = std::str::from_utf8(&pk).ok().and_then(parse_key).and_then(|kv| li.keys.iter().position(|x| *x == kv)) {
                                    rep.insert(id, li.upd_by_value.get(&pv).map(|u| u.value_text.clone()).unwrap_or_else(|| show(&pv)));
                                }
                            }
                            Some(Peeled::Remove(pk)) => {
                                if let Some(id) = std::str::from_utf8(&pk).ok().and_then(parse_key).and_then(|kv| li.keys.iter().position(|x| *x == kv)) {
                                    rep.remove(&id);
                                }
                            }
                            Some(Peeled::Clear) => rep.clear(),
                            _ => {}
                        }
                    }
                    let truth = li.states.last().map(|s| s.1.clone()).unwrap_or_default();
                    if rep != truth {
                        out.violation("C02", "probe/map-differs", "a fresh syncing remote received a map that is not the lane's map", json!({"lane": li.spec.name, "got": format!("{rep:?}"), "want": format!("{truth:?}")}));
                    }
                }
                _ => {}
            }
        }
    }

    // ---- C20: reporters at the checkpoints
    if obs.cfg.reporting && obs.stuck.is_empty() {
        check_reporting(obs, &lanes, &views, &cuts, out, &mut sum);
    }
    // ---- C17 at the runtime level
    if obs.cfg.inactive_ms.is_some() && obs.cfg.nothing_stalls && obs.stuck.is_empty() {
        check_inactivity(obs, &lanes, &views, out);
    }
    sum
}

/// C17, seen from outside the runtime: it stops for inactivity only when all of its tasks were idle for the
/// whole timeout (each votes after that long without work of its own, a vote is withdrawn by new work unless
/// the stop has begun), and - bounded progress under the paused clock - it does stop once every party has
/// been idle for several timeouts with nothing stalled.
fn check_inactivity(obs: &Obs, lanes: &[LaneInfo], views: &[SView], out: &mut CaseOut) {
    let Some(t_ms) = obs.cfg.inactive_ms else { return };
    let timeout = std::time::Duration::from_millis(t_ms);
    // virtual instant of a ticket: that of the last script step started before it (time only moves inside
    // the sleeping steps, in which neither the remotes nor the lanes start anything)
    let v_of = |t: u64| obs.step_times.iter().filter(|(st, _)| *st <= t).last().map(|x| x.1);
    let by_itself = match (obs.agent_finished, obs.stop_requested.or(obs.return_requested)) {
        (Some(f), Some(e)) => f < e,
        (Some(_), None) => true,
        _ => false,
    };
    // The instant at which the stop began (the runtime closes the lanes' channels and completes the remotes'
    // promises; `run_agent` itself may return later, e.g. when a lane of the harness is not reading).
    let stop_began: Option<(u64, tokio::time::Instant)> = {
        let mut c: Vec<(u64, tokio::time::Instant)> = vec![];
        for li in lanes {
            for r in li.rec.received.iter().filter(|r| matches!(r.what, Received::Closed)) {
                c.push((r.t, r.v));
            }
        }
        for (s, v) in obs.sessions.iter().zip(views.iter()) {
            if let (Some((t, Some(DisconnectionReason::AgentTimedOut | DisconnectionReason::AgentStoppedExternally))), Some(cv)) = (v.completion, *s.completion_v.lock()) {
                c.push((t, cv));
            }
        }
        if let (Some(f_t), Some(f_v)) = (obs.agent_finished, obs.finished_v) {
            c.push((f_t, f_v));
        }
        c.into_iter().min_by_key(|x| x.1)
    };
    let (f_t_all, f_v_all) = (obs.agent_finished, stop_began.map(|x| x.1));
    if let (true, Some(f_t), Some(f_v)) = (by_itself, f_t_all, f_v_all) {
        out.count("c17-agent-stopped-by-itself");
        // Work of the write task: every frame a lane handed over before the end.
        'lanes: for li in lanes {
            for e in li.rec.emitted.iter().filter(|e| e.t1.map_or(false, |t| t < f_t) && !matches!(e.what, Emitted::Initialized)) {
                let Some(a_v) = v_of(e.t0) else { continue };
                out.count("c17-activity-checked");
                // (work started in the very instant the runtime ended may have come after the stop began)
                if a_v < f_v && f_v.saturating_duration_since(a_v) < timeout {
                    out.violation(
                        "C17",
                        "runtime/stopped-while-active/lane-event",
                        "the agent runtime stopped for inactivity less than the timeout after a lane produced an event (the write task cannot have had an outstanding vote for that long)",
                        json!({"lane": li.spec.name, "event_at_ticket": e.t0, "finished_at_ticket": f_t, "gap_ms": f_v.saturating_duration_since(a_v).as_millis() as u64, "timeout_ms": t_ms}),
                    );
                    break 'lanes;
                }
            }
        }
        // Work of the read task: commands that provably reached a lane (unanimous stops only: with no remote
        // left the write task alone ends the agent).
        let unanimous = views.iter().any(|v| matches!(v.completion, Some((_, Some(DisconnectionReason::AgentTimedOut)))));
        if unanimous {
            'cmds: for (vi, v) in views.iter().enumerate() {
                for r in v.reqs.iter().filter(|r| r.kind == ReqKind::Command && r.t1.map_or(false, |t| t < f_t)) {
                    let Some(li) = lanes.iter().find(|l| l.spec.name == r.lane) else { continue };
                    let delivered = li.rec.received.iter().any(|x| x.t > r.t0 && x.t < f_t && matches!(&x.what, Received::Command(b) if *b == r.body));
                    if !delivered {
                        continue;
                    }
                    let Some(a_v) = v_of(r.t0) else { continue };
                    out.count("c17-activity-checked");
                    if obs.sessions[vi].one_way {
                        out.count("c17-oneway-command-activity-checked");
                    }
                    if a_v < f_v && f_v.saturating_duration_since(a_v) < timeout {
                        out.violation(
                            "C17",
                            "runtime/stopped-while-active/command",
                            "the agent runtime stopped for inactivity less than the timeout after the read task delivered a command to a lane",
                            json!({"lane": r.lane, "sent_at_ticket": r.t0, "finished_at_ticket": f_t, "gap_ms": f_v.saturating_duration_since(a_v).as_millis() as u64, "timeout_ms": t_ms}),
                        );
                        break 'cmds;
                    }
                }
            }
        }
    }
    // A command that a remote had completely written at an earlier virtual instant than the stop either
    // reached its lane or kept the read task busy delivering it (a lane that does not take requests): a read
    // task in the middle of a delivery has withdrawn its vote, so the runtime cannot have stopped.
    // (Vote-based stops only: with no remote registered the write task ends the agent on its own timeout,
    // whatever the read task is doing with a late frame of a remote that has been removed.)
    let unanimous_stop = views.iter().any(|v| matches!(v.completion, Some((_, Some(DisconnectionReason::AgentTimedOut)))));
    if let (true, true, Some(f_t), Some(f_v)) = (by_itself, unanimous_stop, f_t_all, f_v_all) {
        let v_upper = |t: u64| obs.step_times.iter().find(|(st, _)| *st > t).map(|x| x.1);
        'flight: for (vi, v) in views.iter().enumerate() {
            for r in v.reqs.iter().filter(|r| r.kind == ReqKind::Command) {
                let Some(t1) = r.t1 else { continue };
                let Some(li) = lanes.iter().find(|l| l.spec.name == r.lane) else { continue };
                if li.fail_t.is_some() || (li.spec.kind == LK::Map && !matches!(peel(&r.body), Some(Peeled::Update(_, _)) | Some(Peeled::Remove(_)) | Some(Peeled::Clear))) {
                    continue;
                }
                let Some(w_v) = v_upper(t1) else { continue };
                if !(t1 < f_t && w_v < f_v) {
                    continue;
                }
                let delivered = li.rec.received.iter().any(|x| match &x.what {
                    Received::Command(b) => *b == r.body,
                    Received::MapCommand(_) => li.spec.kind == LK::Map,
                    _ => false,
                });
                out.count("c17-commands-written-before-the-stop");
                if obs.sessions[vi].one_way {
                    out.count("c17-oneway-commands-written-before-the-stop");
                }
                if !delivered {
                    out.violation(
                        "C17",
                        "runtime/stopped-with-a-command-in-flight",
                        "the agent runtime stopped for inactivity although a command that a remote had completely written at an earlier instant had not been delivered to its lane (the read task was in the middle of delivering it, or had not looked at it)",
                        json!({"lane": r.lane, "body": show(&r.body), "written_at_ticket": t1, "finished_at_ticket": f_t, "timeout_ms": t_ms}),
                    );
                    break 'flight;
                }
            }
        }
    }
    if let Some((_, after)) = obs.final_idle {
        out.count("c17-final-idle-periods");
        if !obs.agent_finished.map_or(false, |f| f < after) {
            let linked = views.iter().any(|v| v.frames.iter().any(|f| f.kind == FrameKind::Linked));
            out.violation(
                "C17",
                format!("runtime/idle-agent-never-stopped/some-remote-linked={linked}"),
                "every party was idle (nothing stalled, every reader draining) for five inactivity timeouts but the agent runtime did not stop",
                json!({"timeout_ms": t_ms, "idle_ms": 5 * t_ms + 5}),
            );
        }
    }
}

/// Overlapping attachments: once the runtime has completed the promise of the first attachment ("the
/// registration was replaced") that channel is closed as far as its owner can tell. A frame that was provably
/// produced after that instant - an event whose body the lane wrote later, a linked / synced that no request
/// made before that instant can have caused - was written to the replaced attachment instead of the one that
/// replaced it. (A write that was under way at the replacement carries a frame produced before it.)
/// Returns (frame, lane name, ticket of the completion).
fn late_frames<'a>(v: &'a SView, lanes: &[LaneInfo], lane_by_name: &HashMap<&str, usize>) -> Vec<(&'a Frame, &'a str, u64)> {
    let (Some(_), Some((tc, _))) = (v.superseded_by.or(v.reattached_by), v.completion) else { return vec![] };
    let asked_before = |lane: &str, kinds: &[ReqKind]| v.reqs.iter().chain(v.prior_reqs.iter()).any(|r| r.lane == lane && kinds.contains(&r.kind) && r.t0 < tc);
    v.frames
        .iter()
        .filter(|f| match f.kind {
            FrameKind::Event => lane_by_name.get(f.lane.as_str()).and_then(|i| emitted_t0(&lanes[*i], &f.body)).map_or(false, |t0| t0 > tc),
            FrameKind::Synced => !asked_before(&f.lane, &[ReqKind::Sync]),
            FrameKind::Linked => !asked_before(&f.lane, &[ReqKind::Sync, ReqKind::Link]),
            FrameKind::Unlinked => false,
        })
        .map(|f| (f, f.lane.as_str(), tc))
        .collect()
}

/// Ticket before the lane first wrote a frame with this body (None: the lane never did, or the body is empty).
fn emitted_t0(li: &LaneInfo, body: &[u8]) -> Option<u64> {
    if body.is_empty() {
        return None;
    }
    li.rec
        .emitted
        .iter()
        .filter(|e| match &e.what {
            Emitted::Std(Payload::Bytes(b)) | Emitted::SyncEv(_, Payload::Bytes(b)) => b.as_ref() == body,
            Emitted::Std(Payload::Map(op)) | Emitted::SyncEv(_, Payload::Map(op)) => match op {
                MapOpText::Update { key, value } => render_update(key.as_bytes(), value.as_bytes()) == body,
                MapOpText::Remove { key } => render_remove(key.as_bytes()) == body,
                MapOpText::Clear => body == b"@clear",
            },
            _ => false,
        })
        .map(|e| e.t0)
        .min()
}

fn render_bad(key: &[u8], value: Option<&str>) -> Vec<u8> {
    match value {
        Some(v) => render_update(key, v.as_bytes()),
        None => render_remove(key),
    }
}

/// Sessions whose channel the runtime closed after a map lane to which the session held an open link had
/// written an event with a key that is not UTF-8: (ticket at which the reader found the end, that lane, ticket
/// after the lane had written the event).
/// The writer of such a remote is lost at the moment the event is handled (only an idle writer is), so the
/// session received nothing that was produced after that event; the remote was not removed for a reason of
/// its own (pruned, reader dropped, replaced), and a close that was only found after the agent had been asked
/// to stop is attributed to the key only if the reader was not stalled meanwhile (a stalled reader can find its
/// channel closed mid-way by the shutdown time-out).
fn cut_sessions(obs: &Obs, lanes: &[LaneInfo], views: &[SView], bad_keys: &[(usize, u64, u64)]) -> Vec<Option<(u64, usize, u64)>> {
    let end_request = obs.stop_requested.or(obs.return_requested);
    obs.sessions
        .iter()
        .zip(views.iter())
        .map(|(s, v)| {
            let Some(ReaderEnd::Closed(tc)) = &v.end else { return None };
            let tc = *tc;
            if s.one_way || s.is_probe || v.superseded_by.is_some() {
                return None;
            }
            if let Some((t, reason)) = v.completion {
                if t < tc && matches!(reason, Some(DisconnectionReason::RemoteTimedOut | DisconnectionReason::ChannelClosed | DisconnectionReason::DuplicateRegistration(_))) {
                    return None;
                }
            }
            if let Some(e) = end_request.filter(|e| *e < tc) {
                if stalled_between(s, e.min(s.attached_t0), tc) {
                    return None;
                }
            }
            bad_keys.iter().filter(|(_, t0, _)| *t0 < tc).find_map(|(l, _, t1)| {
                let name = &obs.cfg.lanes[*l].name;
                let frames: Vec<&Frame> = v.frames.iter().filter(|f| f.lane == *name).collect();
                let nothing_later = v.frames.iter().filter(|f| f.kind == FrameKind::Event).all(|f| {
                    let li = lanes.iter().find(|li| li.spec.name == f.lane);
                    li.and_then(|li| emitted_t0(li, &f.body)).map_or(true, |t0| t0 < *t1)
                });
                if open_before(&frames, tc).0 && nothing_later {
                    Some((tc, *l, *t1))
                } else {
                    None
                }
            })
        })
        .collect()
}

fn lane_emitted_bytes(li: &LaneInfo, body: &[u8]) -> bool {
    li.rec.emitted.iter().any(|e| match &e.what {
        Emitted::Std(Payload::Bytes(b)) | Emitted::SyncEv(_, Payload::Bytes(b)) => !b.is_empty() && b.as_ref() == body,
        Emitted::Std(Payload::Map(op)) | Emitted::SyncEv(_, Payload::Map(op)) => match op {
            MapOpText::Update { key, value } => render_update(key.as_bytes(), value.as_bytes()) == body,
            MapOpText::Remove { key } => render_remove(key.as_bytes()) == body,
            MapOpText::Clear => false,
        },
        _ => false,
    })
}

fn lane_emitted_prefix(li: &LaneInfo, body: &[u8]) -> bool {
    li.rec.emitted.iter().any(|e| match &e.what {
        Emitted::Std(Payload::Bytes(b)) | Emitted::SyncEv(_, Payload::Bytes(b)) => b.len() > body.len() && b.starts_with(body),
        Emitted::Std(Payload::Map(MapOpText::Update { key, value })) | Emitted::SyncEv(_, Payload::Map(MapOpText::Update { key, value })) => {
            let r = render_update(key.as_bytes(), value.as_bytes());
            r.len() > body.len() && r.starts_with(body)
        }
        _ => false,
    })
}

/// Does the remote attachment `s` hold a link to `lane` at checkpoint `c` (everything drained)?
fn holds(s: &Session, v: &SView, lane: &str, c: u64) -> Holds {
    if s.attached_t1.map_or(true, |t| t > c) {
        return Holds::No;
    }
    // the runtime told us it removed the remote
    if v.completion.map_or(false, |(t, _)| t < c) {
        return Holds::No;
    }
    let frames: Vec<&Frame> = v.frames.iter().filter(|f| f.lane == lane).collect();
    let (open, _, _) = open_before(&frames, c);
    let addressed = v.reqs.iter().any(|r| r.lane == lane && r.t0 < c && matches!(r.kind, ReqKind::Link | ReqKind::Sync));
    match &v.end {
        Some(e) if e.ticket() < c => match e {
            // the runtime dropped its writer: the remote is gone
            ReaderEnd::Closed(_) => Holds::No,
            // the harness stopped reading: the remote may or may not have been removed yet, and
            // frames it never read may have opened or closed links
            ReaderEnd::Dropped(_) | ReaderEnd::DecodeError(_, _) => {
                if open || addressed {
                    Holds::Uncertain
                } else {
                    Holds::No
                }
            }
        },
        _ => {
            if open {
                Holds::Certain
            } else {
                Holds::No
            }
        }
    }
}

/// `holds` for every kind of session: a command-only channel holds nothing; an attachment made over an open
/// one under the same id may have brought that id's links along (the runtime keeps them): until this channel
/// has seen linked / unlinked for the lane, a link that any attachment of the id ever asked for is possible -
/// the statement does not say whether it counts as "actually linked", so it is neither demanded nor refused;
/// a session whose channel was closed after a non-UTF-8 key (`cuts`) is reported by its own rule and is
/// likewise neither demanded nor refused here.
fn holds_at(obs: &Obs, views: &[SView], cuts: &[Option<(u64, usize, u64)>], si: usize, lane: &str, c: u64) -> Holds {
    let (s, v) = (&obs.sessions[si], &views[si]);
    if s.one_way {
        return Holds::No;
    }
    if let Some((tc, _, _)) = cuts[si] {
        if tc < c && v.completion.map_or(true, |(t, _)| t >= c) {
            // (the runtime still reads the remote's requests: links it asks for - before it notices the end of
            // its stream - are registered although nothing can be sent for them)
            let frames: Vec<&Frame> = v.frames.iter().filter(|f| f.lane == lane).collect();
            let asked = v.reqs.iter().any(|r| r.lane == lane && r.t0 < c && matches!(r.kind, ReqKind::Link | ReqKind::Sync));
            return if open_before(&frames, tc).0 || asked { Holds::Uncertain } else { Holds::No };
        }
    }
    let own = holds(s, v, lane, c);
    if v.dup_of.is_none() {
        return own;
    }
    // (a reader the harness dropped: the runtime keeps the id's links until a write to it fails)
    let alive = s.attached_t1.map_or(false, |t| t <= c) && v.completion.map_or(true, |(t, _)| t >= c) && !matches!(&v.end, Some(ReaderEnd::Closed(t)) if *t < c);
    let decided = v.frames.iter().any(|f| f.lane == lane && f.ticket < c && matches!(f.kind, FrameKind::Linked | FrameKind::Unlinked));
    if !alive || decided || own != Holds::No {
        return own;
    }
    let asked = v.reqs.iter().chain(v.prior_reqs.iter()).any(|r| r.lane == lane && r.t0 < c && matches!(r.kind, ReqKind::Link | ReqKind::Sync));
    if asked {
        Holds::Uncertain
    } else {
        Holds::No
    }
}

fn check_reporting(obs: &Obs, lanes: &[LaneInfo], views: &[SView], cuts: &[Option<(u64, usize, u64)>], out: &mut CaseOut, sum: &mut Summary) {
    let mut cum_cmd_lane: Vec<u64> = vec![0; lanes.len()];
    let mut cum_cmd_agg: u64 = 0;
    let mut c_prev: u64 = 0;
    // link count wrong at the previous checkpoint (the events of the phase were counted against it)
    let mut prev_under: Vec<bool> = vec![false; lanes.len()];
    let mut prev_over: Vec<bool> = vec![false; lanes.len()];
    let mut prev_any_under = false;
    let mut prev_any_over = false;
    for li in lanes {
        // (a lane the running agent was never told to register, or whose registration did not finish, has none)
        if li.spec.late && !li.rec.emitted.iter().any(|e| matches!(e.what, Emitted::Initialized) && e.t1.is_some()) {
            continue;
        }
        if !obs.registered_reporters.iter().any(|n| *n == li.spec.name) {
            out.violation("C20", format!("reporter-not-registered/{}", li.spec.kind.name()), "a lane was never registered for reporting although the agent runs with NodeReporting", json!({"lane": li.spec.name}));
        }
    }
    for cp in &obs.checkpoints {
        let c = cp.ticket;
        // the agent stopped by itself (inactivity) before this checkpoint: the reporters are gone with it
        if obs.agent_finished.map_or(false, |f| f < c) {
            break;
        }
        sum.checkpoints += 1;
        out.events += 1 + cp.lanes.len() as u64;
        let mut total_lo = 0u64;
        let mut total_hi = 0u64;
        let mut ev_lo_total = 0u64;
        let mut ev_hi_total = 0u64;
        let mut all_pure = true;
        let mut cmd_lo_total = 0u64;
        let mut cmd_hi_total = 0u64;
        let mut any_under = false;
        let mut any_over = false;
        let mut any_late = false;
        // unknown-lane commands are never delivered to a lane: they may or may not count for the agent
        let known: HashSet<&str> = lanes.iter().map(|l| l.spec.name.as_str()).collect();
        let cmd_unknown = views.iter().flat_map(|v| v.reqs.iter()).filter(|r| r.kind == ReqKind::Command && r.t0 < c && !known.contains(r.lane.as_str())).count() as u64;
        for li in lanes {
            let name = li.spec.name.as_str();
            let kind = li.spec.kind.name();
            let now: Vec<Holds> = (0..views.len()).map(|i| holds_at(obs, views, cuts, i, name, c)).collect();
            let before: Vec<Holds> = (0..views.len()).map(|i| if c_prev == 0 { Holds::No } else { holds_at(obs, views, cuts, i, name, c_prev) }).collect();
            // links of sessions whose channel was closed after a non-UTF-8 key: nobody can receive on them
            let cut_here = (0..views.len())
                .filter(|i| {
                    now[*i] == Holds::Uncertain
                        && cuts[*i].map_or(false, |(tc, _, _)| {
                            let frames: Vec<&Frame> = views[*i].frames.iter().filter(|f| f.lane == name).collect();
                            tc < c && open_before(&frames, tc).0
                        })
                })
                .count() as u64;
            let p_cur = now.iter().filter(|h| **h == Holds::Certain).count() as u64;
            let u_cur = now.iter().filter(|h| **h == Holds::Uncertain).count() as u64;
            total_lo += p_cur;
            total_hi += p_cur + u_cur;
            let failed_before = li.fail_t.map_or(false, |t| t < c);
            let hard_failed_before = li.hard_fail.is_some() && failed_before;
            // a remote that was linked to this lane and has since been removed by the runtime
            let removed_linker = obs.sessions.iter().zip(views.iter()).any(|(_, v)| {
                v.completion.map_or(false, |(t, _)| t < c) && (v.frames.iter().any(|f| f.lane == name && f.kind == FrameKind::Linked) || v.reqs.iter().any(|r| r.lane == name && matches!(r.kind, ReqKind::Link | ReqKind::Sync)))
            });
            let snap = cp.lanes.iter().find(|(n, _)| n == name).map(|(_, s)| *s);
            let Some(snap) = snap else { continue };
            let Some(snap) = snap else {
                out.violation("C20", format!("reporter-inactive/{kind}"), "the reporter of a lane was dropped while the agent is running (snapshots return nothing)", json!({"lane": name}));
                continue;
            };
            sum.link_counts_checked += 1;
            // The lane answered a sync of a remote after the runtime had removed that remote.
            let late_sync_answer = li.rec.emitted.iter().any(|e| match &e.what {
                Emitted::SyncEv(id, _) | Emitted::Synced(id) => {
                    e.t1.map_or(false, |t| t < c) && obs.sessions.iter().zip(views.iter()).any(|(s, v)| s.id == *id && v.completion.map_or(false, |(tc, _)| tc < c))
                }
                _ => false,
            });
            let count_under = snap.link_count < p_cur;
            let count_over = snap.link_count > p_cur + u_cur;
            if cut_here > 0 && snap.link_count > p_cur + u_cur - cut_here {
                out.violation(
                    "C20",
                    "nonutf8-map-key/link-still-counted-after-channel-closed",
                    "the uplink count reported for a lane includes a remote whose channel the runtime closed after a map lane wrote an event with a key that is not UTF-8 (the remote stays registered, nothing can reach it)",
                    json!({"lane": name, "kind": kind, "reported": snap.link_count, "proven": p_cur, "uncertain": u_cur - cut_here, "cut": cut_here, "checkpoint": c}),
                );
            }
            if count_under {
                out.violation(
                    "C20",
                    format!("link-count/lane/under/after-remote-removed={removed_linker}/after-lane-failure={hard_failed_before}"),
                    "the uplink count reported for a lane is lower than the number of remotes that provably hold a link to it",
                    json!({"lane": name, "kind": kind, "reported": snap.link_count, "proven": p_cur, "uncertain": u_cur, "checkpoint": c}),
                );
            } else if count_over {
                out.violation(
                    "C20",
                    format!("link-count/lane/over/sync-answered-for-removed-remote={late_sync_answer}"),
                    "the uplink count reported for a lane is higher than the number of remotes that can hold a link to it",
                    json!({"lane": name, "kind": kind, "reported": snap.link_count, "proven": p_cur, "uncertain": u_cur, "checkpoint": c}),
                );
            }
            any_under |= count_under;
            any_over |= count_over;
            any_late |= late_sync_answer;
            let under_flag = count_under || prev_under[li.idx];
            let over_flag = count_over || prev_over[li.idx];
            prev_under[li.idx] = count_under;
            prev_over[li.idx] = count_over;

            // ---- events of this phase
            let in_phase = |t: u64| t > c_prev && t < c;
            let mut n_std = 0u64;
            let mut n_sync_ev = 0u64;
            let mut n_synced = 0u64;
            let mut n_partial = 0u64;
            for e in &li.rec.emitted {
                let done_in = e.t1.map_or(false, in_phase);
                let straddles = e.t0 < c && e.t1.map_or(true, |t| t >= c) && e.t0 > c_prev;
                match &e.what {
                    Emitted::Std(_) => {
                        if done_in {
                            n_std += 1;
                        } else if straddles {
                            n_partial += 1;
                        }
                    }
                    Emitted::SyncEv(_, _) => {
                        if done_in {
                            n_sync_ev += 1;
                        } else if straddles {
                            n_partial += 1;
                        }
                    }
                    Emitted::Synced(_) => {
                        if done_in {
                            n_synced += 1;
                        } else if straddles {
                            n_partial += 1;
                        }
                    }
                    // an event the runtime may count for its links and then discard: bounds only
                    Emitted::BadKey { .. } => {
                        if done_in || straddles {
                            n_partial += 1;
                        }
                    }
                    _ => {}
                }
            }
            let link_reqs_in_phase = views.iter().any(|v| v.reqs.iter().any(|r| r.lane == name && matches!(r.kind, ReqKind::Link | ReqKind::Sync | ReqKind::Unlink) && r.t0 > c_prev && r.t0 < c));
            let members_disturbed = obs.sessions.iter().zip(views.iter()).enumerate().any(|(i, (s, v))| {
                (before[i] != Holds::No || now[i] != Holds::No)
                    && (v.end.as_ref().map_or(false, |e| in_phase(e.ticket())) || v.completion.map_or(false, |(t, _)| in_phase(t)) || s.attached_t1.map_or(false, in_phase))
            });
            let failed_in_phase = li.fail_t.map_or(false, in_phase);
            let same_sets = before == now;
            let no_uncertain = !before.contains(&Holds::Uncertain) && u_cur == 0;
            let pure = n_sync_ev == 0 && n_synced == 0 && n_partial == 0 && !link_reqs_in_phase && !members_disturbed && !failed_in_phase && same_sets && no_uncertain;
            let (lo, hi) = if pure {
                (n_std * p_cur, n_std * p_cur)
            } else {
                let undisturbed = obs
                    .sessions
                    .iter()
                    .zip(views.iter())
                    .enumerate()
                    .filter(|(i, (_, v))| {
                        before[*i] == Holds::Certain
                            && now[*i] == Holds::Certain
                            && !v.reqs.iter().any(|r| r.lane == name && matches!(r.kind, ReqKind::Link | ReqKind::Sync | ReqKind::Unlink) && r.t0 > c_prev && r.t0 < c)
                    })
                    .count() as u64;
                // a hard failure discards nothing already read, but frames written after the corrupt byte are never read
                let lo = if failed_in_phase { 0 } else { n_std * undisturbed };
                let candidates = obs
                    .sessions
                    .iter()
                    .zip(views.iter())
                    .filter(|(s, v)| {
                        !s.one_way
                            && s.attached_t1.map_or(false, |t| t < c)
                            && v.completion.map_or(true, |(t, _)| t > c_prev)
                            && (v.reqs.iter().any(|r| r.lane == name && r.t0 < c && matches!(r.kind, ReqKind::Link | ReqKind::Sync))
                                || v.frames.iter().any(|f| f.lane == name && f.kind == FrameKind::Linked)
                                || (v.dup_of.is_some() && v.prior_reqs.iter().any(|r| r.lane == name && r.t0 < c && matches!(r.kind, ReqKind::Link | ReqKind::Sync))))
                    })
                    .count() as u64;
                (lo, (n_std + n_partial) * candidates + n_sync_ev + n_synced + n_partial)
            };
            if pure {
                sum.pure_phases += 1;
                if n_std > 0 && p_cur > 0 {
                    out.count("c20-exact-event-phase");
                }
            } else {
                sum.mixed_phases += 1;
                all_pure = false;
            }
            ev_lo_total += lo;
            ev_hi_total += hi;
            if snap.event_count < lo {
                out.violation(
                    "C20",
                    if under_flag { "events/lane/lost/lane-link-count-under=true".to_string() } else { format!("events/lane/lost/{}/lane-link-count-under=false", if pure { "exact" } else { "bounds" }) },
                    "the event count reported for a lane is lower than the number of (event, linked remote) deliveries in that phase",
                    json!({"lane": name, "kind": kind, "reported": snap.event_count, "expected": [lo, hi], "events": n_std, "linked": p_cur, "reported_links": snap.link_count, "checkpoint": c}),
                );
            } else if snap.event_count > hi {
                out.violation(
                    "C20",
                    if over_flag || late_sync_answer { "events/lane/overcounted/phantom-link=true".to_string() } else { format!("events/lane/overcounted/{}/phantom-link=false", if pure { "exact" } else { "bounds" }) },
                    "the event count reported for a lane is higher than the number of (event, linked remote) deliveries possible in that phase",
                    json!({"lane": name, "reported": snap.event_count, "expected": [lo, hi], "events": n_std, "sync_events": n_sync_ev, "synced": n_synced, "linked": p_cur, "checkpoint": c}),
                );
            } else if !pure && n_synced > 0 && snap.event_count == hi {
                out.count("c20-synced-counted-as-event");
            }

            // ---- commands, cumulative since the start (a command counts once the runtime decoded it)
            cum_cmd_lane[li.idx] += snap.command_count;
            let mut cmd_lo = 0u64;
            let mut cmd_hi = 0u64;
            for v in views {
                for r in v.reqs.iter().filter(|r| r.kind == ReqKind::Command && r.lane == name && r.t0 < c) {
                    cmd_hi += 1;
                    // A command envelope the runtime has read was received by that lane's uplink, whether or not
                    // its body then turns out to be a well-formed map message.
                    if r.t1.map_or(false, |t| t < c) {
                        cmd_lo += 1;
                    }
                }
            }
            cmd_lo_total += cmd_lo;
            cmd_hi_total += cmd_hi;
            if cum_cmd_lane[li.idx] < cmd_lo {
                out.violation("C20", "commands/lane/lost", "the command counts reported for a lane add up to less than the commands delivered to it", json!({"lane": name, "reported_total": cum_cmd_lane[li.idx], "delivered": [cmd_lo, cmd_hi], "checkpoint": c}));
            } else if cum_cmd_lane[li.idx] > cmd_hi {
                out.violation("C20", "commands/lane/overcounted", "the command counts reported for a lane add up to more than the commands sent to it", json!({"lane": name, "reported_total": cum_cmd_lane[li.idx], "delivered": [cmd_lo, cmd_hi], "checkpoint": c}));
            }
        }
        // ---- aggregate
        match cp.aggregate {
            None => out.violation("C20", "reporter-inactive/aggregate", "the aggregate reporter returns nothing", json!({})),
            Some(agg) => {
                if agg.link_count < total_lo {
                    out.violation("C20", "link-count/aggregate/under", "the aggregate uplink count is lower than the number of links remotes provably hold", json!({"reported": agg.link_count, "proven": total_lo, "possible": total_hi, "checkpoint": c}));
                } else if agg.link_count > total_hi {
                    out.violation("C20", "link-count/aggregate/over", "the aggregate uplink count is higher than the number of links remotes can hold", json!({"reported": agg.link_count, "proven": total_lo, "possible": total_hi, "checkpoint": c}));
                }
                if agg.event_count < ev_lo_total {
                    out.violation("C20", if any_under || prev_any_under { "events/aggregate/lost/some-lane-link-count-under=true".to_string() } else { format!("events/aggregate/lost/{}/some-lane-link-count-under=false", if all_pure { "exact" } else { "bounds" }) }, "the aggregate event count is lower than the number of deliveries in that phase", json!({"reported": agg.event_count, "expected": [ev_lo_total, ev_hi_total], "checkpoint": c}));
                } else if agg.event_count > ev_hi_total {
                    out.violation("C20", if any_over || prev_any_over || any_late { "events/aggregate/overcounted/phantom-link=true".to_string() } else { format!("events/aggregate/overcounted/{}/phantom-link=false", if all_pure { "exact" } else { "bounds" }) }, "the aggregate event count is higher than the number of deliveries possible in that phase", json!({"reported": agg.event_count, "expected": [ev_lo_total, ev_hi_total], "checkpoint": c}));
                }
                cum_cmd_agg += agg.command_count;
                if cum_cmd_agg < cmd_lo_total {
                    out.violation("C20", "commands/aggregate/lost", "the aggregate command counts add up to less than the commands delivered to the agent's lanes", json!({"reported_total": cum_cmd_agg, "delivered": [cmd_lo_total, cmd_hi_total], "checkpoint": c}));
                } else if cum_cmd_agg > cmd_hi_total + cmd_unknown {
                    out.violation("C20", "commands/aggregate/overcounted", "the aggregate command counts add up to more than the commands sent to the agent", json!({"reported_total": cum_cmd_agg, "delivered": [cmd_lo_total, cmd_hi_total + cmd_unknown], "checkpoint": c}));
                }
            }
        }
        c_prev = c;
        prev_any_under = any_under;
        prev_any_over = any_over;
    }
}
