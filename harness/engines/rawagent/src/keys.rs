//! Pool of map-key spellings. Which spellings denote the same key is *computed* with the real
//! parser (`parse_recognize::<Value>` + `Value ==`), never assumed; the relation the runtime uses for
//! coalescing (`compare_recon_values`) is computed next to it so that the evidence shows where the two
//! disagree (those are the pairs that can make the runtime merge keys a typed remote keeps apart).

use std::sync::OnceLock;

use bytes::Bytes;
use swimos_agent_protocol::{peeling::extract_header, MapMessage};
use swimos_model::Value;
use swimos_recon::{compare_recon_values, parser::parse_recognize};

const CANDIDATES: &[&str] = &[
    "1", " 1", "1 ", "01", "+1", "1.0", "1e0", "1.00", "0", "-0", "0.0", "-0.0", "2", "3", "10", "a", "\"a\"", " a", "ab", "\"ab\"",
    "\"a b\"", "\"\"", "true", "\"true\"", "false", "@x", "@x{}", "@x()", "@x {}", "@x{ }", "@y", "{}", "{1}", "{ 1 }", "{1,2}",
    "{1, 2}", "{1;2}", "{a:1}", "{ a: 1 }", "{a:1,}", "@k(1)", "@k(1){}", "@k( 1 )", "%AA==", "%AAA=", "\"\\u0061\"", "é", "\"é\"",
    "9999999999", "9999999999.0",
];

pub struct KeyPool {
    /// Spellings that parse (alone and embedded in `@update(key:…)`).
    pub spellings: Vec<String>,
    pub values: Vec<Value>,
    /// Class index (by parsed-value equality) of each spelling.
    pub class_of: Vec<usize>,
    /// Spelling indices of each class.
    pub classes: Vec<Vec<usize>>,
    /// Pairs of spellings on which `compare_recon_values` and parsed equality disagree
    /// (text a, text b, compare says equal).
    pub disagreements: Vec<(String, String, bool)>,
    /// Per class: it contains two spellings that `compare_recon_values` calls equal while `recon_hash`
    /// hashes them differently (the runtime keys its coalescing map with exactly this pair of functions).
    pub hash_incoherent: Vec<bool>,
}

fn rhash(s: &str) -> u64 {
    use std::hash::Hasher;
    let mut h = common::Fnv::default();
    swimos_recon::recon_hash(s, &mut h);
    h.finish()
}

/// Fact for signatures: how the runtime's own key functions treat the spellings of this key.
pub fn key_fact(v: &Value) -> &'static str {
    let p = pool();
    match p.classes.iter().position(|cl| p.values[cl[0]] == *v) {
        Some(c) if p.hash_incoherent[c] => "recon-equal-but-hash-differs",
        _ => "coherent",
    }
}

pub fn parse_key(text: &str) -> Option<Value> {
    parse_recognize::<Value>(text, false).ok()
}

/// What the peeler makes of a map event body: `(kind, key text, value text)`.
#[derive(Clone, Debug, PartialEq, Eq)]
pub enum Peeled {
    Update(Vec<u8>, Vec<u8>),
    Remove(Vec<u8>),
    Clear,
    /// take / drop: a map lane never emits these.
    Other,
}

pub fn peel(body: &[u8]) -> Option<Peeled> {
    let b = Bytes::copy_from_slice(body);
    match extract_header(&b).ok()? {
        MapMessage::Update { key, value } => Some(Peeled::Update(key.to_vec(), value.to_vec())),
        MapMessage::Remove { key } => Some(Peeled::Remove(key.to_vec())),
        MapMessage::Clear => Some(Peeled::Clear),
        _ => Some(Peeled::Other),
    }
}

/// The WARP body of a map operation exactly as `MapOperationReconEncoder` lays it out. Only used to
/// push *emitted* operations through the same peeler as received bodies, so that the byte comparison
/// is insensitive to whatever normalisation the peeler itself performs.
pub fn render_update(key: &[u8], value: &[u8]) -> Vec<u8> {
    let mut v = b"@update(key:".to_vec();
    v.extend_from_slice(key);
    v.extend_from_slice(b") ");
    v.extend_from_slice(value);
    v
}

pub fn render_remove(key: &[u8]) -> Vec<u8> {
    let mut v = b"@remove(key:".to_vec();
    v.extend_from_slice(key);
    v.extend_from_slice(b")");
    v
}

pub fn pool() -> &'static KeyPool {
    static POOL: OnceLock<KeyPool> = OnceLock::new();
    POOL.get_or_init(|| {
        let mut spellings = vec![];
        let mut values: Vec<Value> = vec![];
        for c in CANDIDATES {
            let Some(v) = parse_key(c) else { continue };
            // The spelling must survive being embedded in an update / remove header.
            let emb = render_update(c.as_bytes(), b"0");
            let ok_upd = match peel(&emb) {
                Some(Peeled::Update(k, val)) => {
                    val == b"0" && std::str::from_utf8(&k).ok().and_then(parse_key).map_or(false, |pv| pv == v)
                }
                _ => false,
            };
            let ok_rem = match peel(&render_remove(c.as_bytes())) {
                Some(Peeled::Remove(k)) => std::str::from_utf8(&k).ok().and_then(parse_key).map_or(false, |pv| pv == v),
                _ => false,
            };
            if ok_upd && ok_rem {
                spellings.push(c.to_string());
                values.push(v);
            }
        }
        let mut class_of = vec![usize::MAX; spellings.len()];
        let mut classes: Vec<Vec<usize>> = vec![];
        for i in 0..spellings.len() {
            if let Some(c) = classes.iter().position(|cl| values[cl[0]] == values[i]) {
                class_of[i] = c;
                classes[c].push(i);
            } else {
                class_of[i] = classes.len();
                classes.push(vec![i]);
            }
        }
        let mut disagreements = vec![];
        for i in 0..spellings.len() {
            for j in 0..spellings.len() {
                let cmp = compare_recon_values(&spellings[i], &spellings[j]);
                let same = values[i] == values[j];
                if cmp != same && i < j {
                    disagreements.push((spellings[i].clone(), spellings[j].clone(), cmp));
                }
            }
        }
        let hash_incoherent = classes
            .iter()
            .map(|cl| cl.iter().any(|i| cl.iter().any(|j| compare_recon_values(&spellings[*i], &spellings[*j]) && rhash(&spellings[*i]) != rhash(&spellings[*j]))))
            .collect();
        KeyPool { spellings, values, class_of, classes, disagreements, hash_incoherent }
    })
}
