//! Simulated remotes at the byte-channel boundary handed to `AgentAttachmentRequest::TwoWay`
//! (adapted from the `agent` engine): paced / stallable / droppable readers with ticketed frame
//! logs, and a request writer *task* per remote so that a script step never blocks on a full
//! request channel (the ticket of a request is drawn when the write actually starts).

use std::pin::Pin;
use std::sync::Arc;
use std::task::{Context, Poll, Waker};

use bytes::Bytes;
use common::{ticket, Rng};
use futures::{SinkExt, StreamExt};
use parking_lot::Mutex;
use swimos_api::address::RelativeAddress;
use swimos_messages::protocol::{Notification, RawRequestMessageEncoder, RawResponseMessageDecoder, RequestMessage};
use swimos_utilities::byte_channel::{ByteReader, ByteWriter};
use tokio::io::{AsyncRead, ReadBuf};
use tokio::sync::{mpsc, Notify};
use tokio_util::codec::{FramedRead, FramedWrite};
use uuid::Uuid;

#[derive(Clone, Copy, Debug)]
pub struct Pace {
    /// Maximum bytes returned per successful read.
    pub chunk: usize,
    /// Upper bound on the number of self-waking `Pending`s inserted after each successful read.
    pub yields: u32,
}

pub const FAST: Pace = Pace { chunk: 4096, yields: 0 };

pub struct ReaderCtl {
    pub stalled: bool,
    pub pace: Pace,
    waker: Option<Waker>,
}

pub type SharedCtl = Arc<Mutex<ReaderCtl>>;

pub fn new_ctl(pace: Pace, stalled: bool) -> SharedCtl {
    Arc::new(Mutex::new(ReaderCtl { stalled, pace, waker: None }))
}

pub fn set_stalled(ctl: &SharedCtl, stalled: bool) {
    let mut g = ctl.lock();
    g.stalled = stalled;
    if !stalled {
        if let Some(w) = g.waker.take() {
            w.wake();
        }
    }
}

pub struct PacedReader {
    inner: ByteReader,
    ctl: SharedCtl,
    yield_left: u32,
    rng: Rng,
}

impl PacedReader {
    pub fn new(inner: ByteReader, ctl: SharedCtl, rng: Rng) -> Self {
        PacedReader { inner, ctl, yield_left: 0, rng }
    }
}

impl AsyncRead for PacedReader {
    fn poll_read(self: Pin<&mut Self>, cx: &mut Context<'_>, buf: &mut ReadBuf<'_>) -> Poll<std::io::Result<()>> {
        let this = self.get_mut();
        let (chunk, yields) = {
            let mut g = this.ctl.lock();
            if g.stalled {
                g.waker = Some(cx.waker().clone());
                return Poll::Pending;
            }
            (g.pace.chunk.max(1), g.pace.yields)
        };
        if this.yield_left > 0 {
            this.yield_left -= 1;
            cx.waker().wake_by_ref();
            return Poll::Pending;
        }
        let mut tmp = [0u8; 4096];
        let n = chunk.min(buf.remaining()).min(tmp.len());
        let mut rb = ReadBuf::new(&mut tmp[..n]);
        match Pin::new(&mut this.inner).poll_read(cx, &mut rb) {
            Poll::Ready(Ok(())) => {
                let filled = rb.filled();
                buf.put_slice(filled);
                if yields > 0 {
                    this.yield_left = this.rng.below(yields as u64 + 1) as u32;
                }
                Poll::Ready(Ok(()))
            }
            other => other,
        }
    }
}

#[derive(Clone, Copy, Debug, PartialEq, Eq)]
pub enum FrameKind {
    Linked,
    Synced,
    Unlinked,
    Event,
}

impl FrameKind {
    pub fn name(&self) -> &'static str {
        match self {
            FrameKind::Linked => "linked",
            FrameKind::Synced => "synced",
            FrameKind::Unlinked => "unlinked",
            FrameKind::Event => "event",
        }
    }
}

#[derive(Clone, Debug)]
pub struct Frame {
    pub ticket: u64,
    pub kind: FrameKind,
    pub node: String,
    pub lane: String,
    pub origin: Uuid,
    pub body: Bytes,
}

#[derive(Clone, Debug)]
pub enum ReaderEnd {
    /// The channel was closed by the runtime (ticket).
    Closed(u64),
    /// The harness dropped the reader (ticket).
    Dropped(u64),
    /// A frame could not be decoded.
    DecodeError(u64, String),
}

impl ReaderEnd {
    pub fn ticket(&self) -> u64 {
        match self {
            ReaderEnd::Closed(t) | ReaderEnd::Dropped(t) | ReaderEnd::DecodeError(t, _) => *t,
        }
    }
}

#[derive(Default)]
pub struct FrameLog {
    pub frames: Vec<Frame>,
    pub end: Option<ReaderEnd>,
}

pub type SharedLog = Arc<Mutex<FrameLog>>;

/// Reads frames until the channel closes or `drop_signal` is notified.
pub async fn reader_task(reader: PacedReader, log: SharedLog, drop_signal: Arc<Notify>) {
    let mut framed = FramedRead::new(reader, RawResponseMessageDecoder);
    loop {
        tokio::select! {
            biased;
            _ = drop_signal.notified() => {
                log.lock().end = Some(ReaderEnd::Dropped(ticket()));
                return;
            }
            item = framed.next() => {
                match item {
                    Some(Ok(msg)) => {
                        let (kind, body) = match msg.envelope {
                            Notification::Linked => (FrameKind::Linked, Bytes::new()),
                            Notification::Synced => (FrameKind::Synced, Bytes::new()),
                            Notification::Unlinked(b) => (FrameKind::Unlinked, b.unwrap_or_default()),
                            Notification::Event(b) => (FrameKind::Event, b),
                        };
                        log.lock().frames.push(Frame {
                            ticket: ticket(),
                            kind,
                            node: msg.path.node.as_str().to_string(),
                            lane: msg.path.lane.as_str().to_string(),
                            origin: msg.origin,
                            body,
                        });
                    }
                    Some(Err(e)) => {
                        log.lock().end = Some(ReaderEnd::DecodeError(ticket(), format!("{e:?}")));
                        return;
                    }
                    None => {
                        log.lock().end = Some(ReaderEnd::Closed(ticket()));
                        return;
                    }
                }
            }
        }
    }
}

#[derive(Clone, Copy, Debug, PartialEq, Eq)]
pub enum ReqKind {
    Link,
    Sync,
    Unlink,
    Command,
}

#[derive(Clone, Debug)]
pub struct Req {
    /// Ticket drawn right before the request is handed to the channel.
    pub t0: u64,
    /// Ticket drawn after the whole frame was accepted by the channel (None: never completed).
    pub t1: Option<u64>,
    pub kind: ReqKind,
    pub lane: String,
    pub body: Bytes,
}

/// Ways in which a remote can write a request frame that does not decode (`RawRequestMessageDecoder`).
#[derive(Clone, Copy, Debug, PartialEq, Eq)]
pub enum CorruptHow {
    /// Operation tag 0b111, which no request or response uses.
    BadTag,
    /// A response tag (`linked`) on the request channel.
    ResponseTag,
    /// A `link` header that declares a body (rejected as soon as the header is complete).
    LinkWithBody,
    /// Lane name bytes that are not UTF-8.
    BadUtf8Lane,
    /// Node uri bytes that are not UTF-8.
    BadUtf8Node,
    /// A node length of 4 GB: the decoder waits for bytes that never come; whatever the remote writes
    /// afterwards is taken for a part of that frame.
    Overrun,
    /// Half a header, then the remote closes its writing half (bytes remaining at end of stream).
    TruncatedThenClose,
}

impl CorruptHow {
    pub const ALL: [CorruptHow; 7] = [
        CorruptHow::BadTag,
        CorruptHow::ResponseTag,
        CorruptHow::LinkWithBody,
        CorruptHow::BadUtf8Lane,
        CorruptHow::BadUtf8Node,
        CorruptHow::Overrun,
        CorruptHow::TruncatedThenClose,
    ];
    pub fn name(&self) -> &'static str {
        match self {
            CorruptHow::BadTag => "bad-tag",
            CorruptHow::ResponseTag => "response-tag",
            CorruptHow::LinkWithBody => "link-with-body",
            CorruptHow::BadUtf8Lane => "bad-utf8-lane",
            CorruptHow::BadUtf8Node => "bad-utf8-node",
            CorruptHow::Overrun => "length-overrun",
            CorruptHow::TruncatedThenClose => "truncated-then-close",
        }
    }
}

/// The bytes of a request frame of `id` for `node`/`lane` that does not decode.
/// Layout of a request header (swimos_messages::protocol): origin u128, node length u32, lane length
/// u32, (tag << 61 | body length) u64, then node, lane and body bytes.
pub fn corrupt_frame(how: CorruptHow, id: Uuid, node: &str, lane: &str) -> Vec<u8> {
    const LINK: u64 = 0b000;
    const LINKED: u64 = 0b100;
    const NONE: u64 = 0b111;
    let bad: &[u8] = &[0xf0, 0x28, 0x8c, 0x28];
    let (node_b, lane_b, tag, body_len, node_len_field): (&[u8], &[u8], u64, u64, Option<u32>) = match how {
        CorruptHow::BadTag => (node.as_bytes(), lane.as_bytes(), NONE, 0, None),
        CorruptHow::ResponseTag => (node.as_bytes(), lane.as_bytes(), LINKED, 0, None),
        CorruptHow::LinkWithBody => (node.as_bytes(), lane.as_bytes(), LINK, 3, None),
        CorruptHow::BadUtf8Lane => (node.as_bytes(), bad, LINK, 0, None),
        CorruptHow::BadUtf8Node => (bad, lane.as_bytes(), LINK, 0, None),
        CorruptHow::Overrun => (node.as_bytes(), lane.as_bytes(), LINK, 0, Some(0xffff_fff0)),
        CorruptHow::TruncatedThenClose => (node.as_bytes(), lane.as_bytes(), LINK, 0, None),
    };
    let mut v = vec![];
    v.extend_from_slice(&id.as_u128().to_be_bytes());
    v.extend_from_slice(&node_len_field.unwrap_or(node_b.len() as u32).to_be_bytes());
    v.extend_from_slice(&(lane_b.len() as u32).to_be_bytes());
    v.extend_from_slice(&((tag << 61) | body_len).to_be_bytes());
    v.extend_from_slice(node_b);
    v.extend_from_slice(lane_b);
    if how == CorruptHow::LinkWithBody {
        v.extend_from_slice(b"xyz");
    }
    if how == CorruptHow::TruncatedThenClose {
        v.truncate(19);
    }
    v
}

#[derive(Default)]
pub struct ReqLog {
    /// The remote wrote a frame that does not decode: (ticket before the write, ticket after the bytes were
    /// accepted by the channel, how). Requests written afterwards keep `t1 == None`: nothing says whether
    /// the runtime still looks at them.
    pub corrupt: Option<(u64, Option<u64>, CorruptHow)>,
    pub reqs: Vec<Req>,
    /// Requests handed to the writer task and not yet written.
    pub queued: usize,
    /// The writer half was dropped (by the harness or after a failed write) at this ticket.
    pub writer_gone: Option<u64>,
    pub write_failed: bool,
}

pub type SharedReqs = Arc<Mutex<ReqLog>>;

pub enum WriterCmd {
    Send(ReqKind, String, Bytes),
    /// Write a frame that does not decode, addressed to this lane name.
    Corrupt(CorruptHow, String),
    Close,
}

/// Writes the queued requests in order; ends when told to close, when the queue sender is dropped or
/// when a write fails (the runtime dropped its reading half).
pub async fn writer_task(id: Uuid, node: String, writer: ByteWriter, mut rx: mpsc::UnboundedReceiver<WriterCmd>, log: SharedReqs) {
    let mut framed = FramedWrite::new(writer, RawRequestMessageEncoder);
    let mut corrupted = false;
    while let Some(cmd) = rx.recv().await {
        match cmd {
            WriterCmd::Close => break,
            WriterCmd::Corrupt(how, lane) => {
                use tokio::io::AsyncWriteExt;
                if corrupted {
                    continue;
                }
                corrupted = true;
                let bytes = corrupt_frame(how, id, &node, &lane);
                log.lock().corrupt = Some((ticket(), None, how));
                // every earlier frame was flushed by `send`: the raw bytes follow a frame boundary
                let w = framed.get_mut();
                let ok = w.write_all(&bytes).await.is_ok() && w.flush().await.is_ok();
                let mut g = log.lock();
                if ok {
                    if let Some(c) = g.corrupt.as_mut() {
                        c.1 = Some(ticket());
                    }
                } else {
                    g.write_failed = true;
                    break;
                }
                if how == CorruptHow::TruncatedThenClose {
                    break;
                }
            }
            WriterCmd::Send(kind, lane, body) => {
                let path = RelativeAddress::new(node.as_str(), lane.as_str());
                let msg: RequestMessage<&str, &[u8]> = match kind {
                    ReqKind::Link => RequestMessage::link(id, path),
                    ReqKind::Sync => RequestMessage::sync(id, path),
                    ReqKind::Unlink => RequestMessage::unlink(id, path),
                    ReqKind::Command => RequestMessage::command(id, path, body.as_ref()),
                };
                let idx = {
                    let mut g = log.lock();
                    g.reqs.push(Req { t0: ticket(), t1: None, kind, lane: lane.clone(), body: body.clone() });
                    g.reqs.len() - 1
                };
                let r = framed.send(msg).await;
                let mut g = log.lock();
                g.queued = g.queued.saturating_sub(1);
                match r {
                    // after a corrupt frame nothing says whether the runtime still decodes what follows
                    Ok(()) if corrupted => {}
                    Ok(()) => g.reqs[idx].t1 = Some(ticket()),
                    Err(_) => {
                        g.write_failed = true;
                        break;
                    }
                }
            }
        }
    }
    drop(framed);
    let mut g = log.lock();
    g.writer_gone = Some(ticket());
}
