//! Engine `rawagent`: the real agent runtime (`AgentRouteTask::run_agent`) hosting an `Agent` that the
//! harness implements at the lane byte-channel level, so that every byte a lane emitted / received is
//! known and lanes can misbehave. Serves the runtime-level parts of C01-C04, C14, C17 and C20.
//! Extension parts (`Focus::is_extension`): attachment-level faults - a second attachment under the id of an
//! open one, command-only channels, request frames that do not decode, map keys that are not UTF-8.

mod keys;
mod lanes;
mod oracle;
mod remote;
mod run;
mod script;
mod store;

use common::{json, CaseOut, Json, Rng, Session};

use lanes::{Emitted, FailHow, LaneCtl, SyncMode};
use remote::FrameKind;
use script::{Focus, Gen, Step};

fn focus_for(prop: &str) -> Vec<(Focus, &'static str, u64)> {
    // (focus, part name, share of the budget in percent). The extension parts (attachment-level faults) come
    // on top of the 100 % of the parts that existed before them, which therefore run the cases they always ran.
    match prop {
        "C01" => vec![(Focus::Value, "raw-value-lanes", 100)],
        "C02" => vec![(Focus::Map, "raw-map-spellings", 75), (Focus::Sync, "raw-sync-placements", 25), (Focus::BadKey, "raw-nonutf8-map-keys", 15)],
        "C03" => vec![(Focus::Sync, "raw-sync-placements", 60), (Focus::Map, "raw-map-spellings", 20), (Focus::Links, "raw-link-accounting", 20), (Focus::Attach, "raw-attachment-faults", 12)],
        "C04" => vec![(Focus::Protocol, "raw-fault-conversations", 60), (Focus::Sync, "raw-sync-placements", 15), (Focus::Links, "raw-link-accounting", 25), (Focus::Attach, "raw-attachment-faults", 20)],
        "C14" => vec![(Focus::Supply, "raw-supply-bursts", 100), (Focus::OneWay, "raw-oneway-commands", 15)],
        "C20" => vec![(Focus::Links, "raw-link-accounting", 80), (Focus::Protocol, "raw-fault-conversations", 20), (Focus::Attach, "raw-attachment-faults", 20)],
        "C17" => vec![(Focus::Inactivity, "raw-inactivity", 100), (Focus::InactivityOneWay, "raw-inactivity-oneway", 15)],
        _ => vec![(Focus::Protocol, "raw-fault-conversations", 100)],
    }
}

fn describe(script: &[Step]) -> Vec<String> {
    script.iter().filter(|s| !matches!(s, Step::Run(_))).map(|s| format!("{s:?}").chars().take(110).collect()).collect()
}

fn run_script(cfg: &script::Config, script: &[Step], rng: &mut Rng, out: &mut CaseOut) {
    let obs = run::run_case(cfg, script, rng);
    if !obs.stuck.is_empty() {
        out.inconclusive(format!("stuck: {}", obs.stuck[0].split(':').next().unwrap_or("")));
    }
    // schedule signature: global order of (session, frame kind, lane) receipts
    let mut order: Vec<(u64, usize, u8, String)> = vec![];
    for (si, s) in obs.sessions.iter().enumerate() {
        for f in &s.log.lock().frames {
            let k = match f.kind {
                FrameKind::Linked => 0,
                FrameKind::Synced => 1,
                FrameKind::Unlinked => 2,
                FrameKind::Event => 3,
            };
            order.push((f.ticket, si, k, f.lane.clone()));
        }
    }
    order.sort();
    for (_, si, k, lane) in &order {
        out.sig(&(*si, *k, lane));
    }
    let sum = oracle::check_all(&obs, out);
    out.nontrivial = sum.frames >= 4;
    out.add("frames", sum.frames);
    out.add("event-bodies-compared-bytewise", sum.events_byte_checked);
    out.add("map-events-peeled-and-compared", sum.map_events_checked);
    out.add("synced-frames", sum.synced_frames);
    out.add("sync-windows-checked", sum.sync_windows);
    out.add("links-checked-for-convergence", sum.converged_links);
    out.add("lane-not-found-replies", sum.lane_not_found);
    out.add("supply-items-received", sum.supply_items);
    out.add("supply-items-certain", sum.supply_certain);
    out.add("commands-seen-by-lanes", sum.commands_at_lanes);
    out.add("reporter-checkpoints", sum.checkpoints);
    out.add("reporter-link-counts-checked", sum.link_counts_checked);
    out.add("reporter-phases-exact", sum.pure_phases);
    out.add("reporter-phases-bounded", sum.mixed_phases);
    out.add("completions-checked", sum.completions);
    for (i, l) in obs.lanes.iter().enumerate() {
        let _ = i;
        if let Some((_, how)) = l.failed {
            match how {
                FailHow::CorruptTag => out.count("lane-failed-corrupt-tag"),
                FailHow::Truncated => out.count("lane-failed-truncated-frame"),
                FailHow::CloseWriter => out.count("lane-closed-writer"),
            }
        }
        out.add("lane-frames-emitted", l.emitted.iter().filter(|e| e.t1.is_some()).count() as u64);
        out.add("lane-sync-frames-emitted", l.emitted.iter().filter(|e| matches!(e.what, Emitted::SyncEv(_, _) | Emitted::Synced(_))).count() as u64);
        out.add("supply-items-emitted", l.supplied);
    }
    if obs.agent_returned.is_some() {
        out.count("agent-future-returned");
    }
    if obs.return_requested.is_none() && obs.quiescent.is_none() {
        out.count("stopped-with-readers-as-they-were");
    }
    if out.verbose {
        eprintln!("config: {cfg:?}");
        for st in script {
            eprintln!("  step {st:?}");
        }
        for (si, se) in obs.sessions.iter().enumerate() {
            let log = se.log.lock();
            eprintln!(" session {si} remote {} id {} attached {:?} completion {:?} end {:?} stalls {:?}", se.remote, se.id, se.attached_t1, se.completion.lock(), log.end, se.stalls);
            let mut lines: Vec<(u64, String)> = vec![];
            for r in &se.reqs.lock().reqs {
                lines.push((r.t0, format!("   -> t0={} t1={:?} {:?} {} {:?}", r.t0, r.t1, r.kind, r.lane, r.body)));
            }
            for f in &log.frames {
                lines.push((f.ticket, format!("   <- t={} {:?} {} {:?}", f.ticket, f.kind, f.lane, f.body)));
            }
            lines.sort();
            for (_, l) in lines {
                eprintln!("{l}");
            }
        }
        for (i, l) in obs.lanes.iter().enumerate() {
            eprintln!(" lane {i} {} failed {:?} write_error {:?}", cfg.lanes[i].name, l.failed, l.write_error);
            let mut lines: Vec<(u64, String)> = vec![];
            for e in &l.emitted {
                lines.push((e.t0, format!("   out t0={} t1={:?} {:?}", e.t0, e.t1, e.what)));
            }
            for r in &l.received {
                lines.push((r.t, format!("   in  t={} {:?}", r.t, r.what)));
            }
            lines.sort();
            for (_, l) in lines {
                eprintln!("{l}");
            }
        }
        for (t, l, c) in &obs.lane_ctl {
            eprintln!(" ctl t={t} lane {l} {c:?}");
        }
        for cp in &obs.checkpoints {
            eprintln!(" checkpoint {cp:?}");
        }
        eprintln!(
            " quiescent {:?} stop {:?} return {:?}/{:?} finished {:?} result {:?} stuck {:?}",
            obs.quiescent, obs.stop_requested, obs.return_requested, obs.agent_returned, obs.agent_finished, obs.agent_result, obs.stuck
        );
    }
    let sample: Json = json!({
        "lanes": cfg.lanes.iter().map(|l| format!("{}:{}{}", l.name, l.kind.name(), if l.transient { ":transient" } else { "" })).collect::<Vec<_>>(),
        "with_store": cfg.with_store, "queue": cfg.queue,
        "remotes": cfg.remotes, "cap_out": cfg.cap_out, "prune_ms": cfg.prune_ms, "inactive_ms": cfg.inactive_ms, "reporting": cfg.reporting,
        "script": describe(script).into_iter().take(14).collect::<Vec<_>>(),
        "frames_received": sum.frames,
    });
    out.set_sample(sample);
}

fn run_one(focus: Focus, len: usize, case: u64, rng: &mut Rng, out: &mut CaseOut) {
    let mut g = Gen::new(rng);
    let mut cfg = g.config(focus);
    let script = g.script(focus, &cfg, len);
    drop(g);
    // the lanes the running agent registers later follow the ordinary ones (the script counted on that)
    let late = std::mem::take(&mut cfg.late);
    cfg.lanes.extend(late);
    // Inactivity conversations: every other case is hosted with a store and lanes that are not transient (the
    // same conversation otherwise), so that lane events carry a store id inside the runtime.
    if matches!(focus, Focus::Inactivity | Focus::InactivityOneWay) && case % 2 == 1 {
        cfg.with_store = true;
        for l in cfg.lanes.iter_mut() {
            l.transient = false;
        }
    }
    run_script(&cfg, &script, rng, out);
}

/// Hand-written scripts for investigating a finding (`--debug N`; never part of a check).
fn debug_script(which: u64, rng: &mut Rng) -> (script::Config, Vec<Step>) {
    use bytes::Bytes;
    let mut g = Gen::new(rng);
    let mut cfg = g.config(Focus::Links);
    drop(g);
    cfg.remotes = 2;
    cfg.cap_out = if which == 4 || which == 6 || which == 7 || which == 8 { vec![8; 3] } else { vec![4096; 3] };
    cfg.cap_in = vec![4096; 3];
    cfg.pace = vec![remote::FAST; 3];
    cfg.jitter_per_mille = 0;
    cfg.agent_jitter_per_mille = 0;
    cfg.reporting = true;
    cfg.prune_ms = None;
    cfg.inactive_ms = None;
    cfg.lanes = vec![
        lanes::LaneSpec { name: "v0".into(), kind: lanes::LK::Value, transient: false, in_buf: 4096, out_buf: 4096, initial: Bytes::from_static(b"init0"), late: false },
        lanes::LaneSpec { name: "m1".into(), kind: lanes::LK::Map, transient: true, in_buf: 4096, out_buf: 4096, initial: Bytes::new(), late: false },
    ];
    let set = |b: &'static str| Step::Lane(0, LaneCtl::Set(Bytes::from_static(b.as_bytes())));
    let script = match which {
        // D4: the only linked remote disconnects (write failure), another one links afterwards
        1 => vec![
            Step::Attach(0),
            Step::Link(0, "v0".into()),
            Step::Settle,
            Step::DropReader(0),
            set("a1"),
            Step::Settle,
            Step::Attach(1),
            Step::Link(1, "v0".into()),
            Step::Settle,
            set("a2"),
            Step::Settle,
        ],
        // D3: sync held by the lane, the remote is pruned, then the lane answers
        2 => {
            cfg.prune_ms = Some(3);
            vec![
                Step::Attach(0),
                Step::Lane(0, LaneCtl::SyncMode(SyncMode::Held)),
                Step::Sync(0, "v0".into()),
                Step::Quiesce,
                Step::DropWriter(0),
                Step::Advance(10),
                Step::Settle,
                Step::Lane(0, LaneCtl::FlushSyncs),
                Step::Settle,
            ]
        }
        // lane failure then relink
        3 => vec![
            Step::Attach(0),
            Step::Link(0, "v0".into()),
            Step::Settle,
            Step::Lane(0, LaneCtl::Fail(FailHow::CorruptTag)),
            Step::Settle,
            Step::Link(0, "v0".into()),
            Step::Settle,
        ],
        // keys `0.0` / `-0.0`: equal for compare_recon_values and as parsed values, hashed differently
        4 => {
            let upd = |k: &str, v: &str| Step::Lane(1, LaneCtl::Map(lanes::MapOpText::Update { key: k.into(), value: v.into() }));
            vec![
                Step::Attach(0),
                Step::Link(0, "m1".into()),
                Step::Quiesce,
                Step::Stall(0),
                // the first event occupies the writer; the next three are queued for the stalled remote
                upd("7", "100"),
                Step::Quiesce,
                upd("-0.0", "101"),
                upd("0.0", "102"),
                upd("-0.0", "103"),
                Step::Quiesce,
                Step::Unstall(0),
                Step::Settle,
            ]
        }
        // a map lane writes one event whose key is not UTF-8 while the writer of the linked remote is idle: the
        // remote's channel is closed (no unlinked, promise pending), nothing of either lane reaches it any more
        5 => vec![
            Step::Attach(0),
            Step::Link(0, "m1".into()),
            Step::Link(0, "v0".into()),
            Step::Settle,
            Step::Lane(1, LaneCtl::MapBadKey { key: Bytes::from_static(&[0xc3]), value: Some("1".into()) }),
            Step::Settle,
            Step::Lane(1, LaneCtl::Map(lanes::MapOpText::Update { key: "7".into(), value: "100".into() })),
            set("a1"),
            Step::Settle,
        ],
        // a second attachment under the id of an open one while a write to the first is under way: when that
        // write completes its writer is handed to the registration that replaced it
        6 => vec![
            Step::Attach(0),
            Step::Link(0, "v0".into()),
            Step::Settle,
            Step::Stall(0),
            set("a1-a-body-longer-than-the-channel-of-the-stalled-remote"),
            Step::Quiesce,
            Step::AttachDup(0),
            Step::Quiesce,
            Step::Sync(0, "v0".into()),
            Step::Settle,
            set("a2"),
            Step::Settle,
        ],
        // a remote without links is removed for inactivity while the answer to its last request is still being
        // written to its stalled reader; its id attaches again; then the old reader resumes (7) or is dropped (8)
        7 | 8 => {
            cfg.prune_ms = Some(3);
            vec![
                Step::Attach(0),
                Step::Settle,
                Step::Stall(0),
                Step::Link(0, "nope".into()),
                Step::Quiesce,
                Step::Advance(5),
                Step::Quiesce,
                Step::ReattachOver(0),
                Step::Link(0, "v0".into()),
                Step::Quiesce,
                if which == 7 { Step::ResumeOld(0) } else { Step::DropOld(0) },
                Step::Quiesce,
                set("a1"),
                Step::Sync(0, "v0".into()),
                Step::Settle,
            ]
        }
        _ => vec![Step::Attach(0), Step::Sync(0, "m1".into()), Step::Settle],
    };
    (cfg, script)
}

fn main() {
    let mut s = Session::new("rawagent");
    let prop = s.prop().to_string();
    {
        let p = keys::pool();
        s.note(format!(
            "key pool: {} spellings in {} classes (by parsed value); {} pairs where compare_recon_values disagrees with parsed equality: {:?}",
            p.spellings.len(),
            p.classes.len(),
            p.disagreements.len(),
            p.disagreements.iter().take(12).collect::<Vec<_>>()
        ));
        let multi: Vec<Vec<&String>> = p.classes.iter().filter(|c| c.len() > 1).map(|c| c.iter().map(|i| &p.spellings[*i]).collect()).collect();
        s.note(format!("key classes with several spellings: {multi:?}"));
        let inc: Vec<Vec<&String>> = p.classes.iter().enumerate().filter(|(c, _)| p.hash_incoherent[*c]).map(|(_, c)| c.iter().map(|i| &p.spellings[*i]).collect()).collect();
        s.note(format!("key classes whose spellings compare_recon_values calls equal but recon_hash hashes differently: {inc:?}"));
    }
    if let Some(which) = s.args.extra_u64("debug") {
        s.part("debug", "hand-written script", false, 1, |_i, rng, out| {
            out.verbose = true;
            let (cfg, script) = debug_script(which, rng);
            run_script(&cfg, &script, rng, out);
        });
        s.finish();
    }
    if let (Some(part), Some(case)) = (s.args.extra.get("show-part").cloned(), s.args.extra_u64("show-case")) {
        // verbose run of one generated case, violation or not (investigation only)
        let seed = s.args.seed;
        let len_max = if s.args.thorough() { 70 } else { 45 };
        let focus = focus_for(&prop).into_iter().find(|(_, n, _)| *n == part).map(|(f, _, _)| f).unwrap_or(Focus::Protocol);
        s.part("show", "one generated case, verbose", false, 1, |_i, _rng, out| {
            out.verbose = true;
            let mut rng = Rng::for_case(seed, &part, case);
            let len = rng.range(8, len_max) as usize;
            run_one(focus, len, case, &mut rng, out);
        });
        s.finish();
    }
    let len_max = if s.args.thorough() { 70 } else { 45 };
    for (focus, name, share) in focus_for(&prop) {
        // supply conversations carry bursts of hundreds of items: fewer of them fit the thorough budget
        let total = if focus == Focus::Supply { s.args.budget(20_000, 300_000) } else { s.args.budget(20_000, 500_000) };
        let n = (total * share / 100).max(1);
        let rule = match focus {
            Focus::Inactivity => "seeded conversation (1-2 remotes, 2-4 harness-implemented lanes, paced readers, nothing stalled, no failing lane) against the real agent runtime with inactive_timeout 6/12/25 ms of virtual time and idle gaps of 1 ms .. 2 timeouts between the steps, ending with five timeouts of idleness; rules: the runtime never ends by itself less than one timeout after a lane event or a delivered command (virtual instants, exact under the paused clock; work in the very instant of the end is skipped as ambiguous), and it has ended by itself by the end of the final idle period; non-trivial when >= 4 frames were received; distinct by the schedule signature",
            Focus::Value => "seeded conversation (1-2 remotes, value and command lanes implemented by the harness with unique bodies and, one time in eight, the empty body; byte channels of 2..4096 bytes, paced/stalled/dropped readers, chunked/held sync responses, poll jitter) against the real agent runtime; per (remote, lane): every received body is one the lane produced, never more often than it was sent to that remote, in order, and the last one at quiescence is the lane's value; non-trivial when >= 4 frames were received; distinct by the schedule signature",
            Focus::Links => "seeded conversation (1-4 remotes, 2-4 harness-implemented lanes speaking the lane byte protocol, byte channels of 2..4096 bytes, paced/stalled/dropped readers, chunked/held sync responses, lane failures, poll jitter; prune_remote_delay 2-20 ms of virtual time in half of the cases, with connections removed for inactivity re-attaching under the same routing id and up to two late requests on the old channel) against the real agent runtime with NodeReporting; reporter snapshots at every checkpoint; non-trivial when >= 4 frames were received; distinct by the schedule signature (global order of (session, frame kind, lane) receipts)",
            Focus::Attach => "seeded conversation (1-4 remotes, 2-4 harness-implemented lanes, byte channels of 2..4096 bytes, paced/stalled/dropped readers, lane failures, poll jitter, NodeReporting, prune delay in a third of the cases) against the real agent runtime, with any subset of four attachment-level faults: a second two-way attachment under the routing id of an attachment that is still open (sometimes while a write to the first is under way); 1-3 command-only channels (AgentAttachmentRequest::commander) that carry commands and, hostile, link/sync/unlink envelopes; a remote that writes a request frame that does not decode (7 ways) and goes on writing or stops; a map lane that writes an update/remove whose key is not UTF-8, to idle and to busy writers. All rules of the other parts run; in addition: the promise of a replaced attachment is completed with a reason at the replacement, the runtime does not panic, link counts never exceed the links that can exist (a link the id may have brought along to its second attachment is neither demanded nor refused), a channel is never closed with links open and its remote left registered; non-trivial when >= 4 frames were received; distinct by the schedule signature",
            Focus::BadKey => "seeded conversation (2-3 remotes, 1-2 map lanes and sometimes a value or supply lane implemented by the harness, key spellings as in raw-map-spellings, byte channels of 2..4096 bytes, paced/stalled readers, poll jitter) against the real agent runtime in which a map lane writes, between ordinary operations, updates and removes whose key bytes are not UTF-8 (4 byte patterns), with every writer idle, with one writer certainly busy, or as it comes. Such a key is no Recon key: the event itself is not judged (if it is delivered its body must be the lane's). Every ordinary key and every remote is judged as in raw-map-spellings (convergence, per-key order, clears), and a reading remote that was linked to the lane must still get the later operations; non-trivial when >= 4 frames were received; distinct by the schedule signature",
            Focus::OneWay => "seeded conversation (1-3 two-way remotes and 1-3 command-only channels attached with AgentAttachmentRequest::commander, each with its own routing id; command, value, map and supply lanes implemented by the harness; byte channels of 2..4096 bytes, paced/stalled readers, lanes that stop taking requests, poll jitter, NodeReporting) against the real agent runtime: single commands and back-to-back runs of 3-8 commands through the command-only channels, interleaved with the commands of the two-way remotes, channels dropped and attached again, and - hostile - link/sync/unlink envelopes on a channel that has no way back. Per source every command reaches its lane exactly once and in send order (same rule as for two-way remotes), the reporters count every one of them, the two-way remotes' frames stay legal; non-trivial when >= 4 frames were received; distinct by the schedule signature",
            Focus::InactivityOneWay => "the raw-inactivity conversations (inactive_timeout 6/12/25 ms of virtual time, idle gaps around it, nothing stalled, final idle period of five timeouts) with 1-3 command-only channels (AgentAttachmentRequest::commander) as a further source of work for the read task; the raw-inactivity rules unchanged: no stop by itself less than one timeout after a lane event or a delivered command (whichever channel it came through), no stop with a completely written command undelivered, stopped by the end of the final idle period; non-trivial when >= 4 frames were received; distinct by the schedule signature",
            Focus::Supply => "seeded conversation (1-3 remotes, supply and command lanes implemented by the harness, bursts of up to 2000 unique items and runs of items with an empty body, byte channels of 2..4096 bytes, paced/stalled/dropped readers, poll jitter) against the real agent runtime; non-trivial when >= 4 frames were received; distinct by the schedule signature",
            _ => "seeded conversation (1-4 remotes, 2-4 harness-implemented lanes speaking the lane byte protocol, byte channels of 2..4096 bytes, paced/stalled/dropped readers, chunked/held sync responses, lane failures, poll jitter) against the real agent runtime; non-trivial when >= 4 frames were received; distinct by the schedule signature (global order of (session, frame kind, lane) receipts)",
        };
        s.part(
            name,
            rule,
            false,
            n,
            |i, rng, out| {
                let len = rng.range(8, len_max) as usize;
                run_one(focus, len, i, rng, out);
            },
        );
    }
    s.finish()
}
