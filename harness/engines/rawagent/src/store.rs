//! A plain in-memory `NodePersistence` (public trait) for the conversations that host the agent through
//! `run_agent_with_store`: with it the events of non-transient lanes carry a store id inside the runtime.
//! Nothing is judged about what is stored (C05 / C13 do that); the calls are counted.

use std::collections::BTreeMap;
use std::sync::Arc;

use bytes::{BufMut, BytesMut};
use parking_lot::Mutex;
use swimos_api::error::StoreError;
use swimos_api::persistence::{KeyValue, NodePersistence, RangeConsumer};

#[derive(Default)]
pub struct Inner {
    ids: BTreeMap<String, u64>,
    values: BTreeMap<u64, Vec<u8>>,
    maps: BTreeMap<u64, BTreeMap<Vec<u8>, Vec<u8>>>,
    /// Mutating calls so far.
    pub writes: u64,
}

#[derive(Clone, Default)]
pub struct MemStore(pub Arc<Mutex<Inner>>);

pub struct OwnedRange {
    entries: Vec<(Vec<u8>, Vec<u8>)>,
    next: usize,
}

impl RangeConsumer for OwnedRange {
    fn consume_next(&mut self) -> Result<Option<KeyValue<'_>>, StoreError> {
        let i = self.next;
        if i < self.entries.len() {
            self.next += 1;
            let (k, v) = &self.entries[i];
            Ok(Some((k.as_slice(), v.as_slice())))
        } else {
            Ok(None)
        }
    }
}

impl NodePersistence for MemStore {
    type MapCon<'a> = OwnedRange where Self: 'a;
    type LaneId = u64;

    fn id_for(&self, name: &str) -> Result<Self::LaneId, StoreError> {
        let mut g = self.0.lock();
        let n = g.ids.len() as u64;
        Ok(*g.ids.entry(name.to_string()).or_insert(n))
    }

    fn get_value(&self, id: Self::LaneId, buffer: &mut BytesMut) -> Result<Option<usize>, StoreError> {
        let g = self.0.lock();
        Ok(g.values.get(&id).map(|v| {
            buffer.put_slice(v);
            v.len()
        }))
    }

    fn put_value(&mut self, id: Self::LaneId, value: &[u8]) -> Result<(), StoreError> {
        let mut g = self.0.lock();
        g.writes += 1;
        g.values.insert(id, value.to_vec());
        Ok(())
    }

    fn delete_value(&mut self, id: Self::LaneId) -> Result<(), StoreError> {
        let mut g = self.0.lock();
        g.writes += 1;
        g.values.remove(&id);
        Ok(())
    }

    fn update_map(&mut self, id: Self::LaneId, key: &[u8], value: &[u8]) -> Result<(), StoreError> {
        let mut g = self.0.lock();
        g.writes += 1;
        g.maps.entry(id).or_default().insert(key.to_vec(), value.to_vec());
        Ok(())
    }

    fn remove_map(&mut self, id: Self::LaneId, key: &[u8]) -> Result<(), StoreError> {
        let mut g = self.0.lock();
        g.writes += 1;
        if let Some(m) = g.maps.get_mut(&id) {
            m.remove(key);
        }
        Ok(())
    }

    fn clear_map(&mut self, id: Self::LaneId) -> Result<(), StoreError> {
        let mut g = self.0.lock();
        g.writes += 1;
        g.maps.remove(&id);
        Ok(())
    }

    fn read_map(&self, id: Self::LaneId) -> Result<Self::MapCon<'_>, StoreError> {
        let g = self.0.lock();
        let entries = g.maps.get(&id).map(|m| m.iter().map(|(k, v)| (k.clone(), v.clone())).collect()).unwrap_or_default();
        Ok(OwnedRange { entries, next: 0 })
    }
}
