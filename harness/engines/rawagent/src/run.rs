//! Executes one scripted conversation against the real agent runtime (`AgentRouteTask::run_agent`)
//! hosting the harness-implemented agent, on a current-thread Tokio runtime with a paused clock, and
//! returns everything the monitors saw.

use std::collections::HashMap;
use std::num::NonZeroUsize;
use std::sync::Arc;
use std::time::Duration;

use common::jitter::Jitter;
use common::{ticket, Rng};
use parking_lot::Mutex;
use swimos_api::agent::AgentConfig;
use swimos_runtime::agent::reporting::{UplinkReportReader, UplinkReporter, UplinkSnapshot};
use swimos_runtime::agent::{
    AgentAttachmentRequest, AgentExecError, AgentRouteChannels, AgentRouteDescriptor, AgentRouteTask, AgentRuntimeConfig,
    CombinedAgentConfig, DisconnectionReason, LinkRequest, NodeReporting, UplinkReporterRegistration,
};
use swimos_utilities::byte_channel::byte_channel;
use swimos_utilities::trigger::{self, promise};
use tokio::sync::{mpsc, oneshot, Notify};
use tokio::task::JoinHandle;
use uuid::Uuid;

use crate::lanes::{AgentShared, LaneCtl, LaneRec, RawAgent, SharedLane, SyncMode};
use crate::remote::{
    new_ctl, reader_task, set_stalled, writer_task, CorruptHow, FrameLog, Pace, PacedReader, ReqKind, ReqLog, SharedCtl, SharedLog, SharedReqs,
    WriterCmd, FAST,
};
use crate::script::{Config, Step};

pub const NODE: &str = "/raw";

pub type SharedCompletion = Arc<Mutex<Option<(u64, Option<DisconnectionReason>)>>>;

/// One attachment of a remote (a remote slot may attach several times, sequentially, with fresh ids).
pub struct Session {
    pub remote: usize,
    pub id: Uuid,
    pub attached_t0: u64,
    pub attached_t1: Option<u64>,
    pub reqs: SharedReqs,
    pub log: SharedLog,
    /// (ticket, reason) when the runtime satisfied (Some) or dropped (None) the completion promise.
    pub completion: SharedCompletion,
    /// Virtual (paused-clock) instants: when the attachment request was issued, and when the completion promise resolved.
    pub attached_v: tokio::time::Instant,
    pub completion_v: Arc<Mutex<Option<tokio::time::Instant>>>,
    /// The routing id is that of an earlier attachment of the same remote slot (re-attachment after removal).
    pub reused_id: bool,
    /// Stall intervals of the reader (from, until).
    pub stalls: Vec<(u64, Option<u64>)>,
    pub is_probe: bool,
    /// A command-only channel (`AgentAttachmentRequest::commander`): no reader, no completion promise.
    pub one_way: bool,
    /// This attachment was made under the routing id of that session while that session's attachment was
    /// still open (overlapping attachments).
    pub dup_of: Option<usize>,
    /// This attachment was made under the routing id of that session after the runtime had completed that
    /// session's promise (removed for inactivity) while the harness still held that session's reader open (a
    /// write of the runtime to it may still be under way).
    pub prev_open: Option<usize>,
}

struct Live {
    req_tx: Option<mpsc::UnboundedSender<WriterCmd>>,
    ctl: SharedCtl,
    drop_signal: Arc<Notify>,
    reader: JoinHandle<()>,
    reader_done: bool,
    writer: JoinHandle<()>,
    watcher: JoinHandle<()>,
    session: usize,
    pace: Pace,
    /// (settle epoch in which the removal was first noticed, late requests left)
    late: Option<(u64, u32)>,
    /// `AttachNoWait`: resolves (true: attached) when the runtime confirms the attachment.
    pending_confirm: Option<futures::future::BoxFuture<'static, bool>>,
}

struct OneWayLive {
    req_tx: mpsc::UnboundedSender<WriterCmd>,
    writer: JoinHandle<()>,
    session: usize,
}

#[derive(Clone, Debug)]
pub struct Checkpoint {
    pub ticket: u64,
    /// (lane name, snapshot) for each registered lane reporter.
    pub lanes: Vec<(String, Option<UplinkSnapshot>)>,
    pub aggregate: Option<UplinkSnapshot>,
}

pub struct Obs {
    pub cfg: Config,
    pub sessions: Vec<Session>,
    pub lanes: Vec<LaneRec>,
    pub agent_result: Option<Result<(), String>>,
    pub stop_requested: Option<u64>,
    pub agent_finished: Option<u64>,
    /// (ticket, ok) when the scripted return of the agent future happened.
    pub agent_returned: Option<(u64, bool)>,
    /// Ticket at which the script asked the agent future to return.
    pub return_requested: Option<u64>,
    /// Ticket of the final quiescent point (all readers unstalled and drained, syncs flushed), before
    /// the probe; None when the script ended with a stop / agent return.
    pub quiescent: Option<u64>,
    pub probe_session: Option<usize>,
    pub checkpoints: Vec<Checkpoint>,
    pub stuck: Vec<String>,
    pub identity: Uuid,
    /// (ticket, lane, control) for every control message the script sent to a lane.
    pub lane_ctl: Vec<(u64, usize, LaneCtl)>,
    pub init_error: Option<String>,
    /// Names of the lanes the runtime registered a reporter for.
    pub registered_reporters: Vec<String>,
    /// (ticket, virtual instant) at the start of every script step: a ticket maps to the virtual time of
    /// the last step that started before it (a lower bound of the instant it was issued at).
    pub step_times: Vec<(u64, tokio::time::Instant)>,
    /// Virtual instant at which run_agent returned.
    pub finished_v: Option<tokio::time::Instant>,
    /// (ticket before, ticket after) of the final idle period, if the script had one and the agent was
    /// still running when it began.
    pub final_idle: Option<(u64, u64)>,
    /// Mutating calls the in-memory store received (conversations hosted with a store).
    pub store_writes: u64,
}

fn nz(n: usize) -> NonZeroUsize {
    NonZeroUsize::new(n.max(1)).unwrap()
}

const NEVER: Duration = Duration::from_secs(1_000_000);
const STEP_TIMEOUT: Duration = Duration::from_secs(20);

pub fn runtime_config(cfg: &Config) -> AgentRuntimeConfig {
    AgentRuntimeConfig {
        inactive_timeout: cfg.inactive_ms.map(Duration::from_millis).unwrap_or(NEVER),
        prune_remote_delay: cfg.prune_ms.map(Duration::from_millis).unwrap_or(NEVER),
        shutdown_timeout: Duration::from_secs(30),
        item_init_timeout: Duration::from_secs(5),
        command_output_timeout: NEVER,
        attachment_queue_size: cfg.queue.map(nz).unwrap_or(AgentRuntimeConfig::default().attachment_queue_size),
        ..Default::default()
    }
}

async fn settle() {
    // Paused clock: this returns only when every other task is idle (virtual time advances only then).
    tokio::time::sleep(Duration::from_millis(1)).await;
}

struct Runner {
    cfg: Config,
    rng: Rng,
    att_tx: mpsc::Sender<AgentAttachmentRequest>,
    live: Vec<Option<Live>>,
    sessions: Vec<Session>,
    stuck: Vec<String>,
    lane_tx: Vec<mpsc::UnboundedSender<LaneCtl>>,
    lane_ctl: Vec<(u64, usize, LaneCtl)>,
    reporters: Arc<Mutex<Vec<(String, UplinkReportReader)>>>,
    aggregate: Option<UplinkReportReader>,
    checkpoints: Vec<Checkpoint>,
    /// Incremented whenever the script lets the system settle or time pass.
    epoch: u64,
    http_tx: mpsc::Sender<swimos_api::agent::HttpLaneRequest>,
    http_sent: u64,
    /// Attachments that were superseded by an overlapping attachment under the same id: their readers keep
    /// draining (so that it is known what was still written to them), their writers stay open and silent.
    shadow: Vec<Live>,
    oneway: Vec<Option<OneWayLive>>,
    agent_tx: mpsc::UnboundedSender<usize>,
}

impl Runner {
    /// Attachments made without waiting: has the runtime confirmed them meanwhile?
    fn confirm_pending(&mut self) {
        use futures::FutureExt;
        for live in self.live.iter_mut().flatten().chain(self.shadow.iter_mut()) {
            if let Some(fut) = live.pending_confirm.as_mut() {
                if let Some(ok) = fut.now_or_never() {
                    live.pending_confirm = None;
                    if ok {
                        self.sessions[live.session].attached_t1 = Some(ticket());
                    }
                }
            }
        }
    }

    /// An attachment that is still unconfirmed when everything has settled.
    fn check_unconfirmed(&mut self, what: &str) {
        self.confirm_pending();
        for live in self.live.iter().flatten().chain(self.shadow.iter()) {
            if live.pending_confirm.is_some() {
                self.stuck.push(format!("attach of remote {} not confirmed: {what}", self.sessions[live.session].remote));
            }
        }
    }

    /// A second attachment under the id of remote `r`'s open attachment, on fresh channels.
    async fn attach_dup(&mut self, r: usize) {
        let open = self.live[r].as_ref().map_or(false, |l| {
            let s = &self.sessions[l.session];
            !l.reader_done && l.req_tx.is_some() && s.attached_t1.is_some() && s.completion.lock().is_none() && !s.is_probe
        });
        if !open {
            return;
        }
        let old = self.live[r].take().expect("live");
        let old_session = old.session;
        self.shadow.push(old);
        let (ci, co, p) = (self.cfg.cap_in[r], self.cfg.cap_out[r], self.cfg.pace[r]);
        self.attach_as(r, ci, co, p, false, Some(old_session), None, true).await;
    }

    /// The connection whose attachment the runtime removed for inactivity attaches again under its id, as
    /// `Reattach`, but the reading half of the old attachment is kept as it is (stalled, with whatever write of
    /// the runtime is under way); the script resumes or drops it later (`ResumeOld` / `DropOld`).
    async fn reattach_over(&mut self, r: usize) {
        let ok = self.live[r].as_ref().map_or(false, |l| {
            let s = &self.sessions[l.session];
            !l.reader_done && !s.is_probe && matches!(*s.completion.lock(), Some((_, Some(DisconnectionReason::RemoteTimedOut))))
        });
        if !ok {
            return;
        }
        let mut old = self.live[r].take().expect("live");
        if let Some(tx) = old.req_tx.take() {
            let _ = tx.send(WriterCmd::Close);
        }
        let old_session = old.session;
        self.shadow.push(old);
        let (ci, co, p) = (self.cfg.cap_in[r], self.cfg.cap_out[r], self.cfg.pace[r]);
        self.attach_as(r, ci, co, p, false, None, Some(old_session), true).await;
    }

    /// The kept reader of remote `r`'s previous attachment reads again (`drop_it` false) or is dropped.
    async fn old_reader(&mut self, r: usize, drop_it: bool) {
        let Some(pos) = self.shadow.iter().rposition(|l| self.sessions[l.session].remote == r && !l.reader_done) else { return };
        if drop_it {
            let live = self.shadow.remove(pos);
            if let Some(l) = self.retire(live, true, false).await {
                self.shadow.insert(pos, l);
            }
        } else {
            let live = &self.shadow[pos];
            if live.ctl.lock().stalled {
                set_stalled(&live.ctl, false);
                if let Some(last) = self.sessions[live.session].stalls.last_mut() {
                    last.1 = Some(ticket());
                }
            }
        }
    }

    async fn attach_oneway(&mut self, k: usize) {
        if k >= self.oneway.len() {
            return;
        }
        if let Some(old) = self.oneway[k].take() {
            let _ = old.req_tx.send(WriterCmd::Close);
        }
        let id = Uuid::from_u128(0x2000 + self.sessions.len() as u128);
        let cap = self.cfg.cap_in[k % self.cfg.cap_in.len()];
        let (req_tx, req_rx) = byte_channel(nz(cap));
        let (att_done_tx, att_done_rx) = trigger::trigger();
        let reqs: SharedReqs = Arc::new(Mutex::new(ReqLog::default()));
        let (wtx, wrx) = mpsc::unbounded_channel();
        let writer = tokio::spawn(writer_task(id, NODE.to_string(), req_tx, wrx, reqs.clone()));
        let attached_v = tokio::time::Instant::now();
        let t0 = ticket();
        let req = AgentAttachmentRequest::commander(id, req_rx, att_done_tx);
        let mut attached_t1 = None;
        if self.att_tx.send(req).await.is_ok() {
            match tokio::time::timeout(STEP_TIMEOUT, att_done_rx).await {
                Ok(Ok(())) => attached_t1 = Some(ticket()),
                Ok(Err(_)) => {}
                Err(_) => self.stuck.push(format!("attach of command channel {k} not confirmed")),
            }
        }
        self.sessions.push(Session {
            remote: 1000 + k,
            id,
            attached_t0: t0,
            attached_t1,
            reqs,
            log: Arc::new(Mutex::new(FrameLog::default())),
            completion: Arc::new(Mutex::new(None)),
            attached_v,
            completion_v: Arc::new(Mutex::new(None)),
            reused_id: false,
            stalls: vec![],
            is_probe: false,
            one_way: true,
            dup_of: None,
            prev_open: None,
        });
        self.oneway[k] = Some(OneWayLive { req_tx: wtx, writer, session: self.sessions.len() - 1 });
    }

    fn send_oneway(&mut self, k: usize, kind: ReqKind, lane: &str, body: bytes::Bytes) {
        let Some(Some(ow)) = self.oneway.get(k) else { return };
        {
            let mut g = self.sessions[ow.session].reqs.lock();
            if g.writer_gone.is_some() {
                return;
            }
            g.queued += 1;
        }
        let _ = ow.req_tx.send(WriterCmd::Send(kind, lane.to_string(), body));
    }

    fn corrupt(&mut self, r: usize, how: CorruptHow, lane: &str) {
        let Some(live) = self.live[r].as_ref() else { return };
        let Some(tx) = live.req_tx.as_ref() else { return };
        let s = &self.sessions[live.session];
        if s.completion.lock().is_some() || s.reqs.lock().writer_gone.is_some() {
            return;
        }
        let _ = tx.send(WriterCmd::Corrupt(how, lane.to_string()));
    }

    async fn attach(&mut self, r: usize, cap_in: usize, cap_out: usize, pace: Pace, is_probe: bool) {
        if let Some(old) = self.live[r].take() {
            self.retire(old, true, true).await;
        }
        self.attach_as(r, cap_in, cap_out, pace, is_probe, None, None, true).await;
    }

    /// A fresh attachment of remote `r`; the script does not wait for the runtime's confirmation.
    async fn attach_no_wait(&mut self, r: usize) {
        if let Some(old) = self.live[r].take() {
            self.retire(old, true, true).await;
        }
        let (ci, co, p) = (self.cfg.cap_in[r], self.cfg.cap_out[r], self.cfg.pace[r]);
        self.attach_as(r, ci, co, p, false, None, None, false).await;
    }

    async fn attach_as(&mut self, r: usize, cap_in: usize, cap_out: usize, pace: Pace, is_probe: bool, dup_of: Option<usize>, prev_open: Option<usize>, wait: bool) {
        // An attachment is normally a new connection with its own routing id. A connection that the runtime
        // removed for inactivity (completion RemoteTimedOut) attaches again under the SAME id when it has
        // something to say to the agent again (as the server's remote task does); other endings of an
        // attachment (its reader dropped) only happen when the connection itself is gone.
        let prev = self
            .sessions
            .iter()
            .rev()
            .find(|s| s.remote == r && !s.is_probe)
            .map(|s| (s.id, matches!(*s.completion.lock(), Some((_, Some(DisconnectionReason::RemoteTimedOut))))));
        let (id, reused_id) = match (dup_of.or(prev_open), prev) {
            (Some(d), _) => (self.sessions[d].id, prev_open.is_some()),
            (_, Some((id, true))) if !is_probe && wait && self.rng.chance(2, 3) => (id, true),
            _ => (Uuid::from_u128(0x1000 + self.sessions.len() as u128), false),
        };
        let (req_tx, req_rx) = byte_channel(nz(cap_in));
        let (resp_tx, resp_rx) = byte_channel(nz(cap_out));
        let (comp_tx, comp_rx) = promise::promise();
        let (att_done_tx, att_done_rx) = trigger::trigger();
        let ctl = new_ctl(pace, false);
        let log: SharedLog = Arc::new(Mutex::new(FrameLog::default()));
        let reqs: SharedReqs = Arc::new(Mutex::new(ReqLog::default()));
        let completion: SharedCompletion = Arc::new(Mutex::new(None));
        let drop_signal = Arc::new(Notify::new());
        let reader = tokio::spawn(reader_task(PacedReader::new(resp_rx, ctl.clone(), self.rng.fork()), log.clone(), drop_signal.clone()));
        let (wtx, wrx) = mpsc::unbounded_channel();
        let writer = tokio::spawn(writer_task(id, NODE.to_string(), req_tx, wrx, reqs.clone()));
        let comp2 = completion.clone();
        let completion_v: Arc<Mutex<Option<tokio::time::Instant>>> = Arc::new(Mutex::new(None));
        let compv2 = completion_v.clone();
        let watcher = tokio::spawn(async move {
            let r = comp_rx.await;
            *compv2.lock() = Some(tokio::time::Instant::now());
            *comp2.lock() = Some((ticket(), r.ok()));
        });
        let attached_v = tokio::time::Instant::now();
        let t0 = ticket();
        let req = AgentAttachmentRequest::with_confirmation(id, (resp_tx, req_rx), comp_tx, att_done_tx);
        let mut attached_t1 = None;
        let mut pending_confirm = None;
        if self.att_tx.send(req).await.is_ok() {
            if wait {
                match tokio::time::timeout(STEP_TIMEOUT, att_done_rx).await {
                    Ok(Ok(())) => attached_t1 = Some(ticket()),
                    Ok(Err(_)) => {}
                    Err(_) => self.stuck.push(format!("attach of remote {r} not confirmed")),
                }
            } else {
                use futures::FutureExt;
                pending_confirm = Some(async move { att_done_rx.await.is_ok() }.boxed());
            }
        }
        self.sessions.push(Session { remote: r, id, attached_t0: t0, attached_t1, reqs, log, completion, attached_v, completion_v, reused_id, stalls: vec![], is_probe, one_way: false, dup_of, prev_open });
        let session = self.sessions.len() - 1;
        self.live[r] = Some(Live { req_tx: Some(wtx), ctl, drop_signal, reader, reader_done: false, writer, watcher, session, pace, late: None, pending_confirm });
    }

    /// Drop the halves still held.
    async fn retire(&mut self, mut live: Live, drop_reader: bool, drop_writer: bool) -> Option<Live> {
        if drop_writer {
            if let Some(tx) = live.req_tx.take() {
                let _ = tx.send(WriterCmd::Close);
            }
        }
        if drop_reader && !live.reader_done {
            live.drop_signal.notify_one();
            let _ = (&mut live.reader).await;
            live.reader_done = true;
        }
        if live.reader_done && live.req_tx.is_none() {
            // Both halves are gone; the watcher keeps recording the completion promise.
            let _ = &live.writer;
            let _ = &live.watcher;
            None
        } else {
            Some(live)
        }
    }

    fn send(&mut self, r: usize, kind: ReqKind, lane: &str, body: bytes::Bytes) {
        let Some(live) = self.live[r].as_mut() else { return };
        if live.req_tx.is_none() {
            return;
        }
        let s = live.session;
        // Once the runtime has told the remote that it was removed, a real peer stops sending on that
        // attachment (requests already under way still race with the removal).
        // (A connection that was removed for inactivity learns of it asynchronously, a few task hops later:
        // up to two more requests, issued before the next point at which the script lets everything settle,
        // still go out on the old channel, which the runtime's read task still holds.)
        let done = *self.sessions[s].completion.lock();
        match done {
            Some((_, Some(DisconnectionReason::RemoteTimedOut))) => {
                let epoch = self.epoch;
                let l = self.live[r].as_mut().expect("live");
                let (e, left) = l.late.get_or_insert((epoch, 2));
                if *e != epoch || *left == 0 {
                    return;
                }
                *left -= 1;
            }
            Some(_) => return,
            None => {}
        }
        let live = self.live[r].as_mut().expect("live");
        let tx = live.req_tx.as_ref().expect("tx");
        {
            let mut g = self.sessions[s].reqs.lock();
            if g.writer_gone.is_some() {
                return;
            }
            g.queued += 1;
        }
        let _ = tx.send(WriterCmd::Send(kind, lane.to_string(), body));
    }

    fn stall(&mut self, r: usize, stalled: bool) {
        if let Some(live) = self.live[r].as_ref() {
            let was = live.ctl.lock().stalled;
            if was != stalled {
                set_stalled(&live.ctl, stalled);
                let t = ticket();
                let st = &mut self.sessions[live.session].stalls;
                if stalled {
                    st.push((t, None));
                } else if let Some(last) = st.last_mut() {
                    last.1 = Some(t);
                }
            }
        }
    }

    fn lane(&mut self, l: usize, c: LaneCtl) {
        self.lane_ctl.push((ticket(), l, c.clone()));
        if let Some(tx) = self.lane_tx.get(l) {
            let _ = tx.send(c);
        }
    }

    fn snapshot(&mut self) {
        let lanes = self.reporters.lock().iter().map(|(n, r)| (n.clone(), r.snapshot())).collect();
        let aggregate = self.aggregate.as_ref().and_then(|r| r.snapshot());
        self.checkpoints.push(Checkpoint { ticket: ticket(), lanes, aggregate });
    }

    /// The readers of superseded attachments drain at full speed from now on.
    fn unstall_shadows(&mut self) {
        for live in &self.shadow {
            let was = live.ctl.lock().stalled;
            if was {
                set_stalled(&live.ctl, false);
                if let Some(last) = self.sessions[live.session].stalls.last_mut() {
                    last.1 = Some(ticket());
                }
            }
            live.ctl.lock().pace = FAST;
        }
    }

    fn unstall_everything(&mut self) {
        self.unstall_shadows();
        for r in 0..self.live.len() {
            self.stall(r, false);
            if let Some(live) = self.live[r].as_ref() {
                live.ctl.lock().pace = FAST;
            }
        }
        for l in 0..self.lane_tx.len() {
            self.lane(l, LaneCtl::Stall(false));
        }
    }

    fn restore_pace(&mut self) {
        for live in self.live.iter().flatten() {
            live.ctl.lock().pace = live.pace;
        }
    }

    fn check_stuck(&mut self, what: &str) {
        for ow in self.oneway.iter().flatten() {
            let g = self.sessions[ow.session].reqs.lock();
            if g.writer_gone.is_none() && g.queued > 0 {
                self.stuck.push(format!("{what}: command channel still has {} unsent request(s) at quiescence", g.queued));
            }
        }
        for live in self.live.iter().flatten().chain(self.shadow.iter()) {
            let g = self.sessions[live.session].reqs.lock();
            if g.writer_gone.is_none() && g.queued > 0 {
                self.stuck.push(format!("{what}: remote {} still has {} unsent request(s) at quiescence", self.sessions[live.session].remote, g.queued));
            }
        }
    }

    async fn checkpoint(&mut self) {
        self.unstall_everything();
        settle().await;
        settle().await;
        self.check_unconfirmed("checkpoint");
        self.check_stuck("checkpoint");
        self.snapshot();
        self.restore_pace();
    }

    async fn step(&mut self, step: &Step) {
        self.confirm_pending();
        match step {
            Step::Attach(r) => {
                let (ci, co, p) = (self.cfg.cap_in[*r], self.cfg.cap_out[*r], self.cfg.pace[*r]);
                self.attach(*r, ci, co, p, false).await;
            }
            Step::Reattach(r) => {
                // only a connection whose attachment the runtime has timed out comes back
                let timed_out = self.live[*r].as_ref().map_or(false, |l| matches!(*self.sessions[l.session].completion.lock(), Some((_, Some(DisconnectionReason::RemoteTimedOut)))));
                if timed_out {
                    let (ci, co, p) = (self.cfg.cap_in[*r], self.cfg.cap_out[*r], self.cfg.pace[*r]);
                    self.attach(*r, ci, co, p, false).await;
                }
            }
            Step::Link(r, lane) => self.send(*r, ReqKind::Link, lane, bytes::Bytes::new()),
            Step::Sync(r, lane) => self.send(*r, ReqKind::Sync, lane, bytes::Bytes::new()),
            Step::Unlink(r, lane) => self.send(*r, ReqKind::Unlink, lane, bytes::Bytes::new()),
            Step::Command(r, lane, body) => self.send(*r, ReqKind::Command, lane, body.clone()),
            Step::Stall(r) => self.stall(*r, true),
            Step::Unstall(r) => self.stall(*r, false),
            Step::SetPace(r, pace) => {
                if let Some(live) = self.live[*r].as_mut() {
                    live.ctl.lock().pace = *pace;
                    live.pace = *pace;
                }
            }
            Step::DropReader(r) => {
                if let Some(live) = self.live[*r].take() {
                    self.live[*r] = self.retire(live, true, false).await;
                }
            }
            Step::DropWriter(r) => {
                if let Some(live) = self.live[*r].take() {
                    self.live[*r] = self.retire(live, false, true).await;
                }
            }
            Step::DropRemote(r) => {
                if let Some(live) = self.live[*r].take() {
                    self.live[*r] = self.retire(live, true, true).await;
                }
            }
            Step::Run(n) => {
                for _ in 0..*n {
                    tokio::task::yield_now().await;
                }
            }
            Step::Quiesce => {
                settle().await;
                self.epoch += 1;
            }
            Step::Settle => {
                self.checkpoint().await;
                self.epoch += 1;
            }
            Step::Advance(ms) => {
                tokio::time::sleep(Duration::from_millis(*ms)).await;
                self.epoch += 1;
            }
            Step::Lane(l, c) => self.lane(*l, c.clone()),
            Step::Http => {
                let uri: swimos_api::http::Uri = "/raw?lane=nope".parse().expect("uri");
                let (req, rx) = swimos_api::agent::HttpLaneRequest::new(swimos_api::http::HttpRequest::get(uri).map(|_| bytes::Bytes::new()));
                if self.http_tx.try_send(req).is_ok() {
                    self.http_sent += 1;
                    // the answer (404) is awaited so that the request is certainly handled, then dropped
                    tokio::spawn(async move {
                        let _ = rx.await;
                    });
                }
            }
            Step::AttachDup(r) => self.attach_dup(*r).await,
            Step::AttachNoWait(r) => self.attach_no_wait(*r).await,
            Step::AgentReg(l) => {
                let _ = self.agent_tx.send(*l);
            }
            Step::ReattachOver(r) => self.reattach_over(*r).await,
            Step::ResumeOld(r) => self.old_reader(*r, false).await,
            Step::DropOld(r) => self.old_reader(*r, true).await,
            Step::AttachOneWay(k) => self.attach_oneway(*k).await,
            Step::OneWay(k, kind, lane, body) => self.send_oneway(*k, *kind, lane, body.clone()),
            Step::DropOneWay(k) => {
                if let Some(Some(ow)) = self.oneway.get(*k) {
                    let _ = ow.req_tx.send(WriterCmd::Close);
                }
            }
            Step::CorruptReq(r, how, lane) => self.corrupt(*r, *how, lane),
            Step::AgentReturn(_) | Step::StopAgent | Step::FinalIdle(_) => {}
        }
    }
}

pub fn run_case(cfg: &Config, script: &[Step], rng: &mut Rng) -> Obs {
    let rt = tokio::runtime::Builder::new_current_thread().enable_time().start_paused(true).build().expect("tokio runtime");
    let identity = Uuid::from_u128(0xA6E47);
    let cfg2 = cfg.clone();
    let mut rng2 = rng.fork();
    rt.block_on(async move {
        let n_lanes = cfg2.lanes.len();
        let lane_recs: Vec<SharedLane> = (0..n_lanes).map(|_| Arc::new(Mutex::new(LaneRec::default()))).collect();
        let shared = Arc::new(AgentShared { lanes: lane_recs.clone(), returned: Mutex::new(None), init_error: Mutex::new(None) });
        let mut lane_tx = vec![];
        let mut lane_rx = vec![];
        for _ in 0..n_lanes {
            let (tx, rx) = mpsc::unbounded_channel();
            lane_tx.push(tx);
            lane_rx.push(rx);
        }
        let (return_tx, return_rx) = oneshot::channel::<bool>();
        let (agent_tx, agent_rx) = mpsc::unbounded_channel::<usize>();
        let agent = RawAgent {
            specs: cfg2.lanes.clone(),
            shared: shared.clone(),
            ctl: Mutex::new(Some((lane_rx, return_rx, agent_rx))),
            jitter: Mutex::new(Some((rng2.fork(), cfg2.agent_jitter_per_mille))),
        };
        let (att_tx, att_rx) = mpsc::channel(8);
        let (http_tx, http_rx) = mpsc::channel(4);
        let (link_tx, mut link_rx) = mpsc::channel::<LinkRequest>(8);
        let (stop_tx, stop_rx) = trigger::trigger();
        let mut stop_tx = Some(stop_tx);
        let config = CombinedAgentConfig { agent_config: AgentConfig::default(), runtime_config: runtime_config(&cfg2) };
        let reporters: Arc<Mutex<Vec<(String, UplinkReportReader)>>> = Arc::new(Mutex::new(vec![]));
        let mut aggregate = None;
        let reporting = if cfg2.reporting {
            let agg = UplinkReporter::default();
            aggregate = Some(agg.reader());
            let (reg_tx, mut reg_rx) = mpsc::channel::<UplinkReporterRegistration>(8);
            let reps = reporters.clone();
            tokio::spawn(async move {
                while let Some(reg) = reg_rx.recv().await {
                    reps.lock().push((reg.lane_name.to_string(), reg.reader));
                }
            });
            Some(NodeReporting::new(identity, agg, reg_tx))
        } else {
            None
        };
        // The agent never opens downlinks or command channels.
        let link_handle = tokio::spawn(async move { while link_rx.recv().await.is_some() {} });
        let descriptor = AgentRouteDescriptor { identity, route: NODE.parse().expect("route uri"), route_params: HashMap::new() };
        let task = AgentRouteTask::new(&agent, descriptor, AgentRouteChannels::new(att_rx, http_rx, link_tx), stop_rx, config, reporting);
        // Ticket at which run_agent returned (by itself or after a stop).
        let done_at: Arc<Mutex<Option<u64>>> = Arc::new(Mutex::new(None));
        let done2 = done_at.clone();
        let done_v: Arc<Mutex<Option<tokio::time::Instant>>> = Arc::new(Mutex::new(None));
        let done_v2 = done_v.clone();
        let store = crate::store::MemStore::default();
        let store2 = store.clone();
        let run: futures::future::BoxFuture<'static, Result<(), AgentExecError>> =
            if cfg2.with_store { Box::pin(task.run_agent_with_store(async move { Ok(store2) })) } else { Box::pin(task.run_agent()) };
        let agent_handle: JoinHandle<Result<(), AgentExecError>> = tokio::spawn(Jitter::new(
            async move {
                let r = run.await;
                *done_v2.lock() = Some(tokio::time::Instant::now());
                *done2.lock() = Some(ticket());
                r
            },
            rng2.fork(),
            cfg2.jitter_per_mille,
        ));

        let n = cfg2.remotes;
        let mut runner = Runner {
            cfg: cfg2.clone(),
            rng: rng2.fork(),
            att_tx,
            live: (0..n + 1).map(|_| None).collect(),
            sessions: vec![],
            stuck: vec![],
            lane_tx,
            lane_ctl: vec![],
            reporters,
            aggregate,
            checkpoints: vec![],
            epoch: 0,
            http_tx,
            http_sent: 0,
            shadow: vec![],
            oneway: (0..cfg2.oneway).map(|_| None).collect(),
            agent_tx,
        };

        let mut agent_handle = Some(agent_handle);
        let mut agent_result = None;
        let mut stop_requested = None;
        let mut agent_finished = None;
        let mut return_requested = None;
        let mut return_tx = Some(return_tx);
        let mut abrupt = false;
        let mut step_times = vec![];
        let mut final_idle = None;
        for step in script {
            step_times.push((ticket(), tokio::time::Instant::now()));
            match step {
                Step::FinalIdle(ms) => {
                    // every party can make progress: readers drain at full speed, nothing is stalled
                    runner.unstall_everything();
                    for r in 0..runner.live.len() {
                        if let Some(live) = runner.live[r].as_ref() {
                            live.ctl.lock().pace = FAST;
                        }
                    }
                    settle().await;
                    let before = ticket();
                    tokio::time::sleep(Duration::from_millis(*ms)).await;
                    final_idle = Some((before, ticket()));
                    abrupt = true;
                    break;
                }
                Step::StopAgent => {
                    abrupt = true;
                    break;
                }
                Step::AgentReturn(ok) => {
                    abrupt = true;
                    return_requested = Some(ticket());
                    if let Some(tx) = return_tx.take() {
                        let _ = tx.send(*ok);
                    }
                    break;
                }
                _ => runner.step(step).await,
            }
            if agent_handle.as_ref().map_or(false, |h| h.is_finished()) {
                break;
            }
        }
        let mut quiescent = None;
        let mut probe_session = None;
        let agent_alive = agent_handle.as_ref().map_or(false, |h| !h.is_finished());
        if !abrupt && agent_alive {
            // Epilogue 1: every reader drains, every pending sync is released, quiescence.
            runner.unstall_everything();
            for l in 0..n_lanes {
                runner.lane(l, LaneCtl::SyncMode(SyncMode::Atomic));
                runner.lane(l, LaneCtl::FlushSyncs);
            }
            settle().await;
            settle().await;
            settle().await;
            runner.check_unconfirmed("final quiescence");
            runner.check_stuck("final quiescence");
            runner.snapshot();
            quiescent = Some(ticket());
            // Epilogue 2: a fresh probe remote syncs every lane (large buffers, fast reader).
            runner.attach(n, 4096, 1 << 16, FAST, true).await;
            probe_session = Some(runner.sessions.len() - 1);
            for l in 0..n_lanes {
                // (a late lane that the agent never registered does not exist)
                if cfg2.lanes[l].late && lane_recs[l].lock().registered.is_none() {
                    continue;
                }
                let name = cfg2.lanes[l].name.clone();
                runner.send(n, ReqKind::Sync, &name, bytes::Bytes::new());
            }
            settle().await;
            settle().await;
        }
        // Epilogue 3: stop (unless the agent future was told to return: then the runtime must stop by
        // itself because the agent context is dropped) and collect how everything ended.
        if return_requested.is_none() {
            stop_requested = Some(ticket());
            if let Some(tx) = stop_tx.take() {
                tx.trigger();
            }
        }
        if let Some(mut h) = agent_handle.take() {
            // A lane the script stalled blocks the runtime's read task (it waits for the lane to take a
            // frame) and with it the end of run_agent: give the shutdown its configured time with the
            // lanes as they are, then let the lanes read again.
            let first = tokio::time::timeout(Duration::from_secs(40), &mut h).await;
            let res = match first {
                Ok(r) => Ok(r),
                Err(_) => {
                    for l in 0..n_lanes {
                        runner.lane(l, LaneCtl::Stall(false));
                    }
                    tokio::time::timeout(Duration::from_secs(120), h).await
                }
            };
            match res {
                Ok(Ok(r)) => {
                    agent_finished = Some(done_at.lock().unwrap_or_else(ticket));
                    agent_result = Some(r.map_err(|e| format!("{e}")));
                }
                Ok(Err(join_err)) => {
                    agent_finished = Some(ticket());
                    agent_result = Some(Err(format!("agent task panicked: {join_err}")));
                }
                Err(_) => runner.stuck.push("agent did not stop within 120 virtual seconds".to_string()),
            }
        }
        // Whatever is still buffered in the remotes' channels is read now.
        runner.unstall_shadows();
        for r in 0..runner.live.len() {
            runner.stall(r, false);
            if let Some(live) = runner.live[r].as_ref() {
                live.ctl.lock().pace = FAST;
            }
        }
        settle().await;
        settle().await;
        for live in runner.live.iter_mut().flatten().chain(runner.shadow.iter_mut()) {
            live.reader.abort();
            live.writer.abort();
            live.watcher.abort();
        }
        for ow in runner.oneway.iter().flatten() {
            ow.writer.abort();
        }
        link_handle.abort();
        drop(stop_tx);
        let lanes: Vec<LaneRec> = lane_recs.iter().map(|l| std::mem::take(&mut *l.lock())).collect();
        let agent_returned = *shared.returned.lock();
        let init_error = shared.init_error.lock().clone();
        let registered_reporters = runner.reporters.lock().iter().map(|(n, _)| n.clone()).collect();
        let finished_v = *done_v.lock();
        let store_writes = store.0.lock().writes;
        Obs {
            cfg: cfg2,
            sessions: runner.sessions,
            lanes,
            agent_result,
            stop_requested,
            agent_finished,
            agent_returned,
            return_requested,
            quiescent,
            probe_session,
            checkpoints: runner.checkpoints,
            stuck: runner.stuck,
            identity,
            lane_ctl: runner.lane_ctl,
            init_error,
            registered_reporters,
            step_times,
            finished_v,
            final_idle,
            store_writes,
        }
    })
}
