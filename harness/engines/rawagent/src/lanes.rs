//! The harness-implemented `Agent`: lanes are scripted state machines speaking the lane byte-channel
//! protocol (`LaneRequest` in, `LaneResponse` out) directly, so the harness knows every byte each lane
//! emitted (ticketed) and every request each lane received, and can make a lane misbehave.

use std::collections::{HashMap, VecDeque};
use std::sync::Arc;

use bytes::{Bytes, BytesMut};
use common::jitter::Jitter;
use common::{ticket, Rng};
use futures::future::BoxFuture;
use futures::{FutureExt, SinkExt, StreamExt};
use parking_lot::Mutex;
use swimos_agent_protocol::encoding::lane::{
    RawMapLaneRequestDecoder, RawMapLaneResponseEncoder, RawValueLaneRequestDecoder, RawValueLaneResponseEncoder,
};
use swimos_agent_protocol::{LaneRequest, LaneResponse, MapMessage, MapOperation};
use swimos_api::agent::{Agent, AgentConfig, AgentContext, AgentInitResult, LaneConfig, WarpLaneKind};
use swimos_api::error::{AgentInitError, AgentTaskError};
use swimos_model::Value;
use swimos_utilities::byte_channel::{ByteReader, ByteWriter};
use swimos_utilities::routing::RouteUri;
use tokio::io::AsyncWriteExt;
use tokio::sync::{mpsc, oneshot};
use tokio_util::codec::{FramedRead, FramedWrite};
use uuid::Uuid;

use crate::keys::parse_key;

#[derive(Clone, Copy, Debug, PartialEq, Eq)]
pub enum LK {
    Value,
    Map,
    Supply,
    Command,
}

impl LK {
    pub fn name(&self) -> &'static str {
        match self {
            LK::Value => "value",
            LK::Map => "map",
            LK::Supply => "supply",
            LK::Command => "command",
        }
    }
    fn warp(&self) -> WarpLaneKind {
        match self {
            LK::Value => WarpLaneKind::Value,
            LK::Map => WarpLaneKind::Map,
            LK::Supply => WarpLaneKind::Supply,
            LK::Command => WarpLaneKind::Command,
        }
    }
}

#[derive(Clone, Debug)]
pub struct LaneSpec {
    pub name: String,
    pub kind: LK,
    pub transient: bool,
    pub in_buf: usize,
    pub out_buf: usize,
    /// Initial body of a value lane (unique).
    pub initial: Bytes,
    /// Not registered while the agent initialises: the running agent registers it (`AgentContext::add_lane`,
    /// handled by the running write task) when the script says so, and the lane withholds the `Initialized`
    /// acknowledgement of its handshake until it is told to give it (`LaneCtl::AckInit` / `Stall(false)`).
    pub late: bool,
}

impl LaneSpec {
    /// The runtime performs the store-initialisation handshake (InitComplete -> Initialized) for
    /// every non-transient lane whose uplink kind is value or map, whether or not a store exists.
    fn needs_init(&self) -> bool {
        !self.transient && !matches!(self.kind, LK::Supply)
    }
}

#[derive(Clone, Debug, PartialEq, Eq)]
pub enum MapOpText {
    Update { key: String, value: String },
    Remove { key: String },
    Clear,
}

#[derive(Clone, Copy, Debug, PartialEq, Eq)]
pub enum SyncMode {
    /// All sync frames and `Synced` are written back to back when the request is read.
    Atomic,
    /// `k` frames when the request is read, `k` more after every further input the lane handles.
    Chunked(usize),
    /// Nothing until the script releases frames with `SyncStep` / `FlushSyncs`.
    Held,
}

#[derive(Clone, Copy, Debug, PartialEq, Eq)]
pub enum FailHow {
    /// Write a byte that is not a lane response tag.
    CorruptTag,
    /// Write the beginning of an event frame, then close the channel.
    Truncated,
    /// Close the writing half cleanly between frames.
    CloseWriter,
}

#[derive(Clone, Debug)]
pub enum LaneCtl {
    /// Value / command lane: agent-side change of the current body.
    Set(Bytes),
    Map(MapOpText),
    /// `n` supply items `first..first+n`, each padded to at least `pad` bytes.
    Burst { first: u64, n: u32, pad: usize },
    /// `n` supply items with an empty body (the Recon of unit / `Extant`).
    Empties(u32),
    SyncMode(SyncMode),
    SyncStep(usize),
    FlushSyncs,
    Stall(bool),
    Fail(FailHow),
    /// Map lane: emit an update (`value` given) or a remove whose key bytes are not valid UTF-8. No Recon
    /// text can be such a key, so the lane's own map (the reference for the replicas) is left as it is.
    MapBadKey { key: Bytes, value: Option<String> },
    /// A lane registered at run time gives the `Initialized` acknowledgement it has been withholding.
    AckInit,
}

#[derive(Clone, Debug)]
pub enum Payload {
    Bytes(Bytes),
    Map(MapOpText),
}

#[derive(Clone, Debug)]
pub enum Emitted {
    Std(Payload),
    SyncEv(Uuid, Payload),
    Synced(Uuid),
    Initialized,
    Corrupt,
    Truncated,
    Closed,
    /// A standard map event (update when `value` is given, else remove) whose key is not valid UTF-8.
    BadKey { key: Bytes, value: Option<String> },
}

#[derive(Clone, Debug)]
pub struct Emit {
    /// Ticket before the frame is handed to the channel.
    pub t0: u64,
    /// Ticket after the channel accepted the whole frame (None: the write never completed).
    pub t1: Option<u64>,
    pub what: Emitted,
}

#[derive(Clone, Debug)]
pub enum Received {
    Command(Bytes),
    MapCommand(MapOpText),
    /// take / drop (never sent by this harness).
    MapOther,
    Sync(Uuid),
    InitComplete,
    DecodeError(String),
    Closed,
}

#[derive(Clone, Debug)]
pub struct Recv {
    pub t: u64,
    /// Virtual (paused-clock) instant of the receipt.
    pub v: tokio::time::Instant,
    pub what: Received,
}

#[derive(Clone, Debug)]
pub enum MapChangeKind {
    Upd { key: Value, value: String },
    Rem { key: Value },
    Clr,
}

#[derive(Clone, Debug)]
pub struct MapChange {
    /// Ticket at which the lane adopted the state (before the event is emitted).
    pub t: u64,
    pub kind: MapChangeKind,
}

#[derive(Default)]
pub struct LaneRec {
    pub emitted: Vec<Emit>,
    pub received: Vec<Recv>,
    /// Value-like lanes: (ticket of adoption, body); entry 0 is the initial body.
    pub versions: Vec<(u64, Bytes)>,
    pub map_hist: Vec<MapChange>,
    /// Ticket before the lane started to fail / close its writer, and how.
    pub failed: Option<(u64, FailHow)>,
    /// A write by the lane failed (the runtime dropped its reading half) at this ticket.
    pub write_error: Option<u64>,
    /// Operations the lane refused (key text it could not parse).
    pub refused: u64,
    /// Supply items fully emitted (count), for reporting.
    pub supplied: u64,
    /// Lanes registered at run time: ticket before `add_lane` was called, ticket when it handed the channels over.
    pub reg_requested: Option<u64>,
    pub registered: Option<u64>,
    pub reg_error: Option<String>,
}

pub type SharedLane = Arc<Mutex<LaneRec>>;

pub struct AgentShared {
    pub lanes: Vec<SharedLane>,
    /// Ticket at which the agent future returned (scripted).
    pub returned: Mutex<Option<(u64, bool)>>,
    pub init_error: Mutex<Option<String>>,
}

enum Wr {
    Value(FramedWrite<ByteWriter, RawValueLaneResponseEncoder>),
    Map(FramedWrite<ByteWriter, RawMapLaneResponseEncoder>),
}

enum Rd {
    Value(FramedRead<ByteReader, RawValueLaneRequestDecoder>),
    Map(FramedRead<ByteReader, RawMapLaneRequestDecoder>),
}

fn text_of(b: &[u8]) -> String {
    String::from_utf8_lossy(b).into_owned()
}

impl Rd {
    async fn next(&mut self) -> Option<Received> {
        match self {
            Rd::Value(r) => match r.next().await {
                None => None,
                Some(Err(e)) => Some(Received::DecodeError(format!("{e:?}"))),
                Some(Ok(LaneRequest::Command(b))) => Some(Received::Command(b.freeze())),
                Some(Ok(LaneRequest::Sync(id))) => Some(Received::Sync(id)),
                Some(Ok(LaneRequest::InitComplete)) => Some(Received::InitComplete),
            },
            Rd::Map(r) => match r.next().await {
                None => None,
                Some(Err(e)) => Some(Received::DecodeError(format!("{e:?}"))),
                Some(Ok(LaneRequest::Command(m))) => Some(match m {
                    MapMessage::Update { key, value } => Received::MapCommand(MapOpText::Update { key: text_of(&key), value: text_of(&value) }),
                    MapMessage::Remove { key } => Received::MapCommand(MapOpText::Remove { key: text_of(&key) }),
                    MapMessage::Clear => Received::MapCommand(MapOpText::Clear),
                    _ => Received::MapOther,
                }),
                Some(Ok(LaneRequest::Sync(id))) => Some(Received::Sync(id)),
                Some(Ok(LaneRequest::InitComplete)) => Some(Received::InitComplete),
            },
        }
    }
}

struct PendingSync {
    id: Uuid,
    /// Map lanes: keys still to send; the snapshot is taken when the first frame is emitted (a
    /// remote that links implicitly is linked from its first sync frame on, so every later change
    /// reaches it as a standard event; changes before that are covered by reading the *current*
    /// entry when a key's frame is emitted).
    keys: Option<VecDeque<Value>>,
    value_sent: bool,
}

struct Lane {
    idx: usize,
    spec: LaneSpec,
    rec: SharedLane,
    wr: Option<Wr>,
    rd: Option<Rd>,
    ctl: mpsc::UnboundedReceiver<LaneCtl>,
    ctl_open: bool,
    stalled: bool,
    mode: SyncMode,
    pending: VecDeque<PendingSync>,
    current: Bytes,
    map: Vec<(Value, String, String)>,
    /// A lane registered at run time that has not yet acknowledged its initialisation: it withholds
    /// `Initialized` (`init_pending`: the runtime has asked for it) and does nothing else meanwhile.
    hold_init: bool,
    init_pending: bool,
}

impl Lane {
    fn failed(&self) -> bool {
        self.wr.is_none()
    }

    async fn write_frame(&mut self, what: Emitted) -> bool {
        let Some(wr) = self.wr.as_mut() else { return false };
        let idx = {
            let mut g = self.rec.lock();
            g.emitted.push(Emit { t0: ticket(), t1: None, what: what.clone() });
            g.emitted.len() - 1
        };
        let r = match (wr, what) {
            (Wr::Value(w), Emitted::Std(Payload::Bytes(b))) => w.send(LaneResponse::StandardEvent(b)).await,
            (Wr::Value(w), Emitted::SyncEv(id, Payload::Bytes(b))) => w.send(LaneResponse::SyncEvent(id, b)).await,
            (Wr::Value(w), Emitted::Synced(id)) => w.send(LaneResponse::<Bytes>::Synced(id)).await,
            (Wr::Value(w), Emitted::Initialized) => w.send(LaneResponse::<Bytes>::Initialized).await,
            (Wr::Map(w), Emitted::Std(Payload::Map(op))) => w.send(LaneResponse::StandardEvent(raw_op(op))).await,
            (Wr::Map(w), Emitted::SyncEv(id, Payload::Map(op))) => w.send(LaneResponse::SyncEvent(id, raw_op(op))).await,
            (Wr::Map(w), Emitted::Synced(id)) => w.send(LaneResponse::<MapOperation<Bytes, Bytes>>::Synced(id)).await,
            (Wr::Map(w), Emitted::Initialized) => w.send(LaneResponse::<MapOperation<Bytes, Bytes>>::Initialized).await,
            (Wr::Map(w), Emitted::BadKey { key, value: Some(v) }) => w.send(LaneResponse::StandardEvent(MapOperation::Update { key, value: Bytes::from(v.into_bytes()) })).await,
            (Wr::Map(w), Emitted::BadKey { key, value: None }) => w.send(LaneResponse::StandardEvent(MapOperation::<Bytes, Bytes>::Remove { key })).await,
            _ => Ok(()),
        };
        let mut g = self.rec.lock();
        match r {
            Ok(()) => {
                g.emitted[idx].t1 = Some(ticket());
                true
            }
            Err(_) => {
                g.write_error = Some(ticket());
                drop(g);
                self.wr = None;
                false
            }
        }
    }

    async fn fail(&mut self, how: FailHow) {
        let Some(wr) = self.wr.take() else { return };
        {
            let mut g = self.rec.lock();
            if g.failed.is_none() {
                g.failed = Some((ticket(), how));
            }
        }
        let mut raw: ByteWriter = match wr {
            Wr::Value(w) => w.into_inner(),
            Wr::Map(w) => w.into_inner(),
        };
        let what = match how {
            FailHow::CorruptTag => Emitted::Corrupt,
            FailHow::Truncated => Emitted::Truncated,
            FailHow::CloseWriter => Emitted::Closed,
        };
        let idx = {
            let mut g = self.rec.lock();
            g.emitted.push(Emit { t0: ticket(), t1: None, what });
            g.emitted.len() - 1
        };
        let ok = match how {
            FailHow::CorruptTag => raw.write_all(&[0x7f]).await.is_ok() && raw.flush().await.is_ok(),
            // An event tag followed by three bytes of what should be an 8 byte length.
            FailHow::Truncated => raw.write_all(&[3, 0, 0, 0]).await.is_ok() && raw.flush().await.is_ok(),
            FailHow::CloseWriter => true,
        };
        drop(raw);
        if ok {
            self.rec.lock().emitted[idx].t1 = Some(ticket());
        }
        self.pending.clear();
    }

    /// Emit up to `max` frames of the pending syncs (oldest first). Returns the number written.
    async fn advance_syncs(&mut self, max: usize) -> usize {
        let mut written = 0;
        while written < max {
            if self.failed() {
                self.pending.clear();
                return written;
            }
            let Some(mut p) = self.pending.pop_front() else { break };
            let frame = match self.spec.kind {
                LK::Value => {
                    if !p.value_sent {
                        p.value_sent = true;
                        Some(Emitted::SyncEv(p.id, Payload::Bytes(self.current.clone())))
                    } else {
                        None
                    }
                }
                LK::Map => {
                    if p.keys.is_none() {
                        p.keys = Some(self.map.iter().map(|(k, _, _)| k.clone()).collect());
                    }
                    let keys = p.keys.as_mut().unwrap();
                    let mut out = None;
                    while let Some(k) = keys.pop_front() {
                        if let Some((_, kt, vt)) = self.map.iter().find(|(mk, _, _)| *mk == k) {
                            out = Some(Emitted::SyncEv(p.id, Payload::Map(MapOpText::Update { key: kt.clone(), value: vt.clone() })));
                            break;
                        }
                    }
                    out
                }
                LK::Supply | LK::Command => None,
            };
            match frame {
                Some(f) => {
                    self.pending.push_front(p);
                    if !self.write_frame(f).await {
                        self.pending.clear();
                        return written;
                    }
                }
                None => {
                    if !self.write_frame(Emitted::Synced(p.id)).await {
                        self.pending.clear();
                        return written;
                    }
                }
            }
            written += 1;
        }
        written
    }

    async fn after_input(&mut self) {
        match self.mode {
            SyncMode::Atomic => {
                self.advance_syncs(usize::MAX).await;
            }
            SyncMode::Chunked(k) => {
                self.advance_syncs(k.max(1)).await;
            }
            SyncMode::Held => {}
        }
    }

    async fn apply_value(&mut self, body: Bytes) {
        if self.failed() {
            return;
        }
        self.current = body.clone();
        self.rec.lock().versions.push((ticket(), body.clone()));
        self.write_frame(Emitted::Std(Payload::Bytes(body))).await;
    }

    async fn apply_map(&mut self, op: MapOpText) {
        if self.failed() {
            return;
        }
        let change = match &op {
            MapOpText::Update { key, value } => match parse_key(key) {
                Some(k) => {
                    if let Some(e) = self.map.iter_mut().find(|(mk, _, _)| *mk == k) {
                        e.1 = key.clone();
                        e.2 = value.clone();
                    } else {
                        self.map.push((k.clone(), key.clone(), value.clone()));
                    }
                    Some(MapChangeKind::Upd { key: k, value: value.clone() })
                }
                None => None,
            },
            MapOpText::Remove { key } => match parse_key(key) {
                Some(k) => {
                    self.map.retain(|(mk, _, _)| *mk != k);
                    Some(MapChangeKind::Rem { key: k })
                }
                None => None,
            },
            MapOpText::Clear => {
                self.map.clear();
                Some(MapChangeKind::Clr)
            }
        };
        match change {
            Some(kind) => {
                self.rec.lock().map_hist.push(MapChange { t: ticket(), kind });
                self.write_frame(Emitted::Std(Payload::Map(op))).await;
            }
            None => self.rec.lock().refused += 1,
        }
    }

    async fn supply(&mut self, body: Bytes) {
        if self.failed() {
            return;
        }
        if self.write_frame(Emitted::Std(Payload::Bytes(body))).await {
            self.rec.lock().supplied += 1;
        }
    }

    async fn handle_ctl(&mut self, c: LaneCtl) {
        if self.hold_init {
            // before the handshake is over the lane may only write `Initialized`
            match c {
                LaneCtl::AckInit | LaneCtl::Stall(false) => {
                    if self.init_pending {
                        self.init_pending = false;
                        self.hold_init = false;
                        self.write_frame(Emitted::Initialized).await;
                    }
                }
                LaneCtl::SyncMode(m) => self.mode = m,
                _ => {}
            }
            return;
        }
        match c {
            LaneCtl::Set(b) => {
                if matches!(self.spec.kind, LK::Value | LK::Command) {
                    self.apply_value(b).await;
                }
            }
            LaneCtl::Map(op) => {
                if self.spec.kind == LK::Map {
                    self.apply_map(op).await;
                }
            }
            LaneCtl::Burst { first, n, pad } => {
                if self.spec.kind == LK::Supply {
                    for i in 0..n as u64 {
                        if self.failed() {
                            break;
                        }
                        self.supply(supply_body(self.idx, first + i, pad)).await;
                    }
                }
            }
            LaneCtl::Empties(n) => {
                if self.spec.kind == LK::Supply {
                    for _ in 0..n {
                        if self.failed() {
                            break;
                        }
                        self.supply(Bytes::new()).await;
                    }
                }
            }
            LaneCtl::SyncMode(m) => self.mode = m,
            LaneCtl::SyncStep(k) => {
                self.advance_syncs(k).await;
                return;
            }
            LaneCtl::FlushSyncs => {
                self.advance_syncs(usize::MAX).await;
                return;
            }
            LaneCtl::Stall(s) => self.stalled = s,
            LaneCtl::Fail(how) => self.fail(how).await,
            LaneCtl::MapBadKey { key, value } => {
                if self.spec.kind == LK::Map && !self.failed() {
                    self.write_frame(Emitted::BadKey { key, value }).await;
                }
            }
            LaneCtl::AckInit => {}
        }
        self.after_input().await;
    }

    async fn handle_req(&mut self, r: Option<Received>) {
        let what = r.unwrap_or(Received::Closed);
        self.rec.lock().received.push(Recv { t: ticket(), v: tokio::time::Instant::now(), what: what.clone() });
        match what {
            Received::Closed | Received::DecodeError(_) => {
                self.rd = None;
                return;
            }
            Received::Command(b) => match self.spec.kind {
                LK::Value | LK::Command => self.apply_value(b).await,
                _ => {}
            },
            Received::MapCommand(op) => self.apply_map(op).await,
            Received::MapOther => {}
            Received::Sync(id) => {
                if !self.failed() {
                    self.pending.push_back(PendingSync { id, keys: None, value_sent: false });
                }
            }
            Received::InitComplete => {
                if self.hold_init {
                    self.init_pending = true;
                    return;
                }
                self.write_frame(Emitted::Initialized).await;
            }
        }
        self.after_input().await;
    }

    async fn run(mut self) {
        loop {
            if self.rd.is_none() {
                // The runtime dropped its end of the request channel (it is shutting down, or it gave
                // up on this lane): like a real lane, end the lane's task. The agent's task ends when
                // all of its lanes have ended.
                return;
            }
            let can_read = !self.stalled;
            match next_input(&mut self.ctl, self.ctl_open, self.rd.as_mut(), can_read).await {
                Input::Ctl(Some(c)) => self.handle_ctl(c).await,
                Input::Ctl(None) => self.ctl_open = false,
                Input::Req(r) => self.handle_req(r).await,
            }
        }
    }
}

enum Input {
    Ctl(Option<LaneCtl>),
    Req(Option<Received>),
}

/// Next control message of the script or next request of the runtime (both cancel safe).
async fn next_input(ctl: &mut mpsc::UnboundedReceiver<LaneCtl>, ctl_open: bool, rd: Option<&mut Rd>, can_read: bool) -> Input {
    match rd {
        Some(rd) if can_read => {
            tokio::select! {
                biased;
                c = ctl.recv(), if ctl_open => Input::Ctl(c),
                r = rd.next() => Input::Req(r),
            }
        }
        _ => Input::Ctl(ctl.recv().await),
    }
}

fn raw_op(op: MapOpText) -> MapOperation<Bytes, Bytes> {
    match op {
        MapOpText::Update { key, value } => MapOperation::Update { key: Bytes::from(key.into_bytes()), value: Bytes::from(value.into_bytes()) },
        MapOpText::Remove { key } => MapOperation::Remove { key: Bytes::from(key.into_bytes()) },
        MapOpText::Clear => MapOperation::Clear,
    }
}

/// Body of supply item `n` of lane `lane`: decimal id, then filler so that bodies have many sizes.
pub fn supply_body(lane: usize, n: u64, pad: usize) -> Bytes {
    let mut b = BytesMut::new();
    b.extend_from_slice(format!("s{lane}:{n}").as_bytes());
    let want = if pad == 0 { 0 } else { (n as usize * 7 + 3) % (pad + 1) };
    while b.len() < want {
        b.extend_from_slice(&[b'.', (n % 251) as u8]);
    }
    b.freeze()
}

pub struct RawAgent {
    pub specs: Vec<LaneSpec>,
    pub shared: Arc<AgentShared>,
    /// Taken by the (single) run of the agent: lane controls, the scripted return of the agent future, and the
    /// indices of the late lanes the running agent is to register.
    pub ctl: Mutex<Option<(Vec<mpsc::UnboundedReceiver<LaneCtl>>, oneshot::Receiver<bool>, mpsc::UnboundedReceiver<usize>)>>,
    pub jitter: Mutex<Option<(Rng, u64)>>,
}

#[derive(Debug)]
struct ScriptedFailure;

impl std::fmt::Display for ScriptedFailure {
    fn fmt(&self, f: &mut std::fmt::Formatter<'_>) -> std::fmt::Result {
        write!(f, "scripted agent failure")
    }
}

impl std::error::Error for ScriptedFailure {}

impl Agent for RawAgent {
    fn run(
        &self,
        _route: RouteUri,
        _route_params: HashMap<String, String>,
        _config: AgentConfig,
        context: Box<dyn AgentContext + Send>,
    ) -> BoxFuture<'static, AgentInitResult> {
        let specs = self.specs.clone();
        let shared = self.shared.clone();
        let taken = self.ctl.lock().take();
        let jitter = self.jitter.lock().take();
        async move {
            let Some((ctls, return_rx, mut agent_ctl)) = taken else {
                return Err(AgentInitError::FailedToStart);
            };
            let mut lanes = vec![];
            let mut late: Vec<Option<(usize, LaneSpec, mpsc::UnboundedReceiver<LaneCtl>)>> = vec![];
            for (idx, (spec, ctl)) in specs.into_iter().zip(ctls).enumerate() {
                if spec.late {
                    late.push(Some((idx, spec, ctl)));
                    continue;
                }
                let conf = LaneConfig {
                    input_buffer_size: std::num::NonZeroUsize::new(spec.in_buf.max(1)).unwrap(),
                    output_buffer_size: std::num::NonZeroUsize::new(spec.out_buf.max(1)).unwrap(),
                    transient: spec.transient,
                };
                let (tx, rx) = match context.add_lane(&spec.name, spec.kind.warp(), conf).await {
                    Ok(io) => io,
                    Err(e) => {
                        *shared.init_error.lock() = Some(format!("add_lane {}: {e}", spec.name));
                        return Err(AgentInitError::FailedToStart);
                    }
                };
                let (wr, rd) = match spec.kind {
                    LK::Map => (Wr::Map(FramedWrite::new(tx, Default::default())), Rd::Map(FramedRead::new(rx, Default::default()))),
                    _ => (Wr::Value(FramedWrite::new(tx, Default::default())), Rd::Value(FramedRead::new(rx, Default::default()))),
                };
                let rec = shared.lanes[idx].clone();
                rec.lock().versions.push((ticket(), spec.initial.clone()));
                rec.lock().registered = Some(ticket());
                let mut lane = Lane {
                    idx,
                    current: spec.initial.clone(),
                    spec,
                    rec,
                    wr: Some(wr),
                    rd: Some(rd),
                    ctl,
                    ctl_open: true,
                    stalled: false,
                    mode: SyncMode::Atomic,
                    pending: VecDeque::new(),
                    map: vec![],
                    hold_init: false,
                    init_pending: false,
                };
                if lane.spec.needs_init() {
                    // Initialisation handshake: the runtime replays the stored state (nothing here)
                    // and sends InitComplete; the lane must answer Initialized before the agent's
                    // initialisation future completes.
                    loop {
                        let r = lane.rd.as_mut().unwrap().next().await;
                        let done = matches!(r, Some(Received::InitComplete));
                        let bad = matches!(r, None | Some(Received::DecodeError(_)));
                        lane.handle_req(r).await;
                        if bad {
                            *shared.init_error.lock() = Some(format!("lane {} initialisation channel failed", lane.spec.name));
                            return Err(AgentInitError::FailedToStart);
                        }
                        if done {
                            break;
                        }
                    }
                }
                lanes.push(lane);
            }
            let has_late = !late.is_empty();
            let boxed_task: BoxFuture<'static, Result<(), AgentTaskError>> = if has_late { async move {
                // Lanes that the running agent registers when the script says so, next to the lanes that exist.
                let mut running = futures::stream::FuturesUnordered::new();
                for l in lanes {
                    running.push(l.run().boxed());
                }
                let mut return_rx = return_rx;
                let mut ctl_open = true;
                loop {
                    tokio::select! {
                        biased;
                        r = &mut return_rx => {
                            return match r {
                                Ok(ok) => {
                                    *shared.returned.lock() = Some((ticket(), ok));
                                    if ok { Ok(()) } else { Err(AgentTaskError::UserCodeError(Box::new(ScriptedFailure))) }
                                }
                                Err(_) => futures::future::pending().await,
                            };
                        }
                        c = agent_ctl.recv(), if ctl_open => {
                            let Some(want) = c else { ctl_open = false; continue };
                            let Some((idx, spec, ctl)) = late.iter_mut().find(|l| l.as_ref().map_or(false, |l| l.0 == want)).and_then(|l| l.take()) else { continue };
                            let conf = LaneConfig {
                                input_buffer_size: std::num::NonZeroUsize::new(spec.in_buf.max(1)).unwrap(),
                                output_buffer_size: std::num::NonZeroUsize::new(spec.out_buf.max(1)).unwrap(),
                                transient: spec.transient,
                            };
                            let rec = shared.lanes[idx].clone();
                            rec.lock().reg_requested = Some(ticket());
                            let add = context.add_lane(&spec.name, spec.kind.warp(), conf);
                            running.push(async move {
                                let (tx, rx) = match add.await {
                                    Ok(io) => io,
                                    Err(e) => {
                                        rec.lock().reg_error = Some(format!("add_lane {}: {e}", spec.name));
                                        return;
                                    }
                                };
                                let (wr, rd) = match spec.kind {
                                    LK::Map => (Wr::Map(FramedWrite::new(tx, Default::default())), Rd::Map(FramedRead::new(rx, Default::default()))),
                                    _ => (Wr::Value(FramedWrite::new(tx, Default::default())), Rd::Value(FramedRead::new(rx, Default::default()))),
                                };
                                {
                                    let mut g = rec.lock();
                                    g.versions.push((ticket(), spec.initial.clone()));
                                    g.registered = Some(ticket());
                                }
                                let hold = spec.needs_init();
                                let lane = Lane {
                                    idx,
                                    current: spec.initial.clone(),
                                    spec,
                                    rec,
                                    wr: Some(wr),
                                    rd: Some(rd),
                                    ctl,
                                    ctl_open: true,
                                    stalled: false,
                                    mode: SyncMode::Atomic,
                                    pending: VecDeque::new(),
                                    map: vec![],
                                    hold_init: hold,
                                    init_pending: false,
                                };
                                lane.run().await
                            }.boxed());
                        }
                        x = running.next(), if !running.is_empty() => {
                            if x.is_some() && running.is_empty() {
                                return Ok(());
                            }
                        }
                    }
                }
            }.boxed() } else { async move {
                // The context must stay alive for as long as the agent runs: dropping it stops the runtime.
                let _context = context;
                let all = futures::future::join_all(lanes.into_iter().map(|l| l.run()));
                tokio::select! {
                    _ = all => Ok(()),
                    r = return_rx => {
                        match r {
                            Ok(ok) => {
                                *shared.returned.lock() = Some((ticket(), ok));
                                if ok { Ok(()) } else { Err(AgentTaskError::UserCodeError(Box::new(ScriptedFailure))) }
                            }
                            // The harness went away: never resolve by ourselves.
                            Err(_) => futures::future::pending().await,
                        }
                    }
                }
            }.boxed() };
            let task = boxed_task;
            let boxed: BoxFuture<'static, Result<(), AgentTaskError>> = match jitter {
                Some((rng, per_mille)) if per_mille > 0 => Jitter::new(task, rng, per_mille).boxed(),
                _ => task,
            };
            Ok(boxed)
        }
        .boxed()
    }
}
