//! Seeded generation of hostile conversation scripts for the raw (byte-channel level) agent.

use bytes::{Bytes, BytesMut};
use common::Rng;

use crate::keys::pool;
use crate::lanes::{FailHow, LaneCtl, LaneSpec, MapOpText, SyncMode, LK};
use crate::remote::{CorruptHow, Pace, ReqKind};

pub const UNKNOWN_LANES: [&str; 2] = ["nope", "zz9"];

#[derive(Clone, Debug)]
pub enum Step {
    Attach(usize),
    /// The connection attaches again (same routing id) if the runtime removed it for inactivity; otherwise nothing.
    Reattach(usize),
    Link(usize, String),
    Sync(usize, String),
    Unlink(usize, String),
    /// Command envelope for any lane (the body is opaque bytes for value-like lanes, a map message for map lanes).
    Command(usize, String, Bytes),
    Stall(usize),
    Unstall(usize),
    SetPace(usize, Pace),
    DropReader(usize),
    DropWriter(usize),
    DropRemote(usize),
    /// Let the other tasks run for `n` scheduler turns.
    Run(u32),
    /// Let the system run until nothing is runnable (stalled readers stay stalled), no checkpoint.
    Quiesce,
    /// Checkpoint: unstall and drain every reader and lane, reach quiescence, snapshot the reporters.
    Settle,
    /// Let virtual time pass (prune timers).
    Advance(u64),
    Lane(usize, LaneCtl),
    /// The agent implementation's future returns Ok (true) / Err (false).
    AgentReturn(bool),
    /// External stop signal, issued with the readers in whatever state they are.
    StopAgent,
    /// Nothing happens for this long (every reader draining): the agent must stop by itself.
    FinalIdle(u64),
    /// An HTTP request for a lane the agent does not have (work for the runtime's HTTP task only).
    Http,
    /// A second two-way attachment under the routing id of the remote's attachment, on fresh channels, while
    /// that attachment is still open (nothing happens when the remote has no open attachment). The remote's
    /// later steps use the new channels; the reader of the old ones keeps draining.
    AttachDup(usize),
    /// As `Reattach` (the connection attaches again under its id if the runtime removed it for inactivity), but the
    /// reading half of the old attachment stays as it is - stalled, with a write of the runtime to it possibly
    /// still under way - until `ResumeOld` / `DropOld`.
    ReattachOver(usize),
    /// The kept reader of the remote's previous attachment reads again.
    ResumeOld(usize),
    /// The kept reader of the remote's previous attachment is dropped.
    DropOld(usize),
    /// The running agent registers late lane `l` (index into the lanes of the run: the ordinary lanes, then
    /// `Config::late`); the lane withholds the acknowledgement of its initialisation (`LaneCtl::AckInit`).
    AgentReg(usize),
    /// Attach the remote (fresh routing id) without waiting for the runtime's confirmation: the script goes on at
    /// once (the confirmation is looked for after every later step).
    AttachNoWait(usize),
    /// Attach command-only channel `k` (`AgentAttachmentRequest::commander`), with its own routing id.
    AttachOneWay(usize),
    /// An envelope written to command-only channel `k` (a command, or - hostile - link / sync / unlink).
    OneWay(usize, ReqKind, String, Bytes),
    /// The writer of command-only channel `k` is dropped.
    DropOneWay(usize),
    /// The remote writes a request frame that does not decode (addressed to this lane name); it goes on as if
    /// nothing had happened.
    CorruptReq(usize, CorruptHow, String),
}

/// Which of the attachment-level faults a conversation of the extension parts contains.
#[derive(Clone, Copy, Debug, Default, PartialEq, Eq)]
pub struct Themes {
    /// Overlapping attachments under one routing id.
    pub dup: bool,
    /// Command-only channels next to the two-way remotes.
    pub oneway: bool,
    /// Request frames that do not decode.
    pub corrupt: bool,
    /// Map events whose key is not valid UTF-8.
    pub badkey: bool,
    /// Directed: a remote without links is removed for inactivity while a write to its stalled reader is under
    /// way, attaches again under its id, and only then the old reader resumes or is dropped.
    pub stale: bool,
    /// Directed: a remote attaches and syncs while the write task is parked in the registration of a lane and
    /// its message queue (2 entries) is full of link / unlink coordination messages.
    pub race: bool,
}

#[derive(Clone, Debug)]
pub struct Config {
    pub lanes: Vec<LaneSpec>,
    pub remotes: usize,
    /// Byte-channel capacity agent -> remote (per remote, last entry: the probe).
    pub cap_out: Vec<usize>,
    /// Byte-channel capacity remote -> agent.
    pub cap_in: Vec<usize>,
    pub pace: Vec<Pace>,
    pub jitter_per_mille: u64,
    pub agent_jitter_per_mille: u64,
    /// `prune_remote_delay` in virtual milliseconds (None: effectively never).
    pub prune_ms: Option<u64>,
    /// `inactive_timeout` in virtual milliseconds (None: effectively never).
    pub inactive_ms: Option<u64>,
    /// Indices into the key pool's classes.
    pub key_classes: Vec<usize>,
    pub reporting: bool,
    /// The conversation has no stalled readers or lanes and no failing lanes: the inactivity rules (C17) apply.
    pub nothing_stalls: bool,
    /// Number of command-only channels (extension parts only).
    pub oneway: usize,
    pub themes: Themes,
    /// `attachment_queue_size` of the runtime (None: the default, 16).
    pub queue: Option<usize>,
    /// Lanes the running agent registers when the script says so; before the run they are appended to `lanes`
    /// (the script addresses them by the index they have then).
    pub late: Vec<LaneSpec>,
    /// Host the agent through `run_agent_with_store` on an in-memory store; the lanes are not transient.
    pub with_store: bool,
}

#[derive(Clone, Copy, Debug, PartialEq, Eq)]
pub enum Focus {
    /// C01: value lanes (and command lanes, which are value-like uplinks), empty bodies, slow remotes.
    Value,
    /// C02: map lanes, key spellings, coalescing.
    Map,
    /// C03: syncs everywhere, chunked and held sync responses.
    Sync,
    /// C04: protocol state machine, faults.
    Protocol,
    /// C14: supply bursts and commands.
    Supply,
    /// C20: link bookkeeping, disconnections, prune, failures.
    Links,
    /// C17 at the runtime level: finite inactivity timeout, idle gaps around it, no stalled parties.
    Inactivity,
    /// Extension (C03, C04, C20): overlapping attachments under one id, command-only channels, request frames
    /// that do not decode, map keys that are not UTF-8 - any subset per conversation.
    Attach,
    /// Extension (C02): map lanes that emit keys that are not UTF-8 between ordinary operations.
    BadKey,
    /// Extension (C14): commands through command-only channels next to the commands of two-way remotes.
    OneWay,
    /// Extension (C17): the inactivity conversations with command-only channels as a further source of work.
    InactivityOneWay,
}

impl Focus {
    pub fn is_extension(&self) -> bool {
        matches!(self, Focus::Attach | Focus::BadKey | Focus::OneWay | Focus::InactivityOneWay)
    }
}

/// Key bytes that are not UTF-8 (a lone continuation byte, a truncated sequence, an overlong lead, inside quotes).
pub const BAD_KEYS: [&[u8]; 4] = [&[0xf0, 0x28, 0x8c, 0x28], b"a\xff", &[0xc3], b"\"\x80\""];

pub const CAPS: [usize; 7] = [2, 3, 5, 8, 16, 64, 4096];

pub struct Gen<'a> {
    pub rng: &'a mut Rng,
    counters: Vec<u64>,
    next_supply: Vec<u64>,
    /// At most one burst of hundreds of items per script (cost).
    big_used: bool,
}

impl<'a> Gen<'a> {
    pub fn new(rng: &'a mut Rng) -> Self {
        Gen { rng, counters: vec![0; 64], next_supply: vec![1; 8], big_used: false }
    }

    fn uid(&mut self, source: usize) -> u64 {
        self.counters[source] += 1;
        ((source as u64) << 32) | self.counters[source]
    }

    /// Unique opaque body: decimal id, then (sometimes) filler of arbitrary bytes.
    pub fn body(&mut self, source: usize) -> Bytes {
        let id = self.uid(source);
        let mut b = BytesMut::new();
        b.extend_from_slice(format!("{id}").as_bytes());
        if self.rng.chance(1, 3) {
            let n = *self.rng.pick(&[1usize, 3, 9, 30, 120, 300]);
            b.extend_from_slice(b"|");
            for _ in 0..n {
                b.extend_from_slice(&[self.rng.below(256) as u8]);
            }
        }
        b.freeze()
    }

    /// Unique map value text (valid Recon, several sizes).
    pub fn map_value(&mut self, source: usize) -> String {
        let id = self.uid(source);
        match self.rng.below(6) {
            0 => format!("\"v{id}\""),
            1 => format!("@v({id}){{1,2,3}}"),
            2 => format!("\"{}{id}\"", "x".repeat(*self.rng.pick(&[10usize, 60, 200]))),
            _ => format!("{id}"),
        }
    }

    pub fn key_text(&mut self, cfg: &Config) -> String {
        let p = pool();
        let class = *self.rng.pick(&cfg.key_classes);
        let sp = *self.rng.pick(&p.classes[class]);
        p.spellings[sp].clone()
    }

    pub fn map_op(&mut self, cfg: &Config, source: usize) -> MapOpText {
        let r = self.rng.below(100);
        if r < 62 {
            MapOpText::Update { key: self.key_text(cfg), value: self.map_value(source) }
        } else if r < 92 {
            MapOpText::Remove { key: self.key_text(cfg) }
        } else {
            MapOpText::Clear
        }
    }

    pub fn config(&mut self, focus: Focus) -> Config {
        // (the existing focuses draw nothing here: their cases are what they were before the extension)
        let themes = match focus {
            Focus::Attach => {
                let mut t = Themes { dup: self.rng.bool(), oneway: self.rng.bool(), corrupt: self.rng.bool(), badkey: self.rng.bool(), stale: false, race: false };
                if t == Themes::default() {
                    match self.rng.below(4) {
                        0 => t.dup = true,
                        1 => t.oneway = true,
                        2 => t.corrupt = true,
                        _ => t.badkey = true,
                    }
                }
                // One attachment-level defect per conversation keeps the findings apart: a non-UTF-8 key can
                // take the writer of a remote away, overlapping attachments are about whose writer is whose.
                if t.dup && t.badkey {
                    if self.rng.bool() {
                        t.dup = false;
                    } else {
                        t.badkey = false;
                    }
                }
                // (the same holds for the writer of an attachment that was removed while it was lent out)
                if self.rng.chance(1, 3) {
                    t.stale = true;
                    t.dup = false;
                    t.badkey = false;
                }
                // (and a runtime whose queues hold two messages is a conversation of its own)
                if self.rng.chance(1, 4) {
                    t.race = true;
                    t.stale = false;
                    t.dup = false;
                    t.badkey = false;
                }
                t
            }
            Focus::BadKey => Themes { badkey: true, ..Themes::default() },
            Focus::OneWay | Focus::InactivityOneWay => Themes { oneway: true, ..Themes::default() },
            _ => Themes::default(),
        };
        let remotes = match focus {
            Focus::Attach if themes.race => self.rng.range(2, 4) as usize,
            Focus::Protocol | Focus::Links | Focus::Attach => self.rng.range(1, 4) as usize,
            Focus::Inactivity => self.rng.range(1, 3) as usize,
            Focus::BadKey => self.rng.range(2, 3) as usize,
            _ => self.rng.range(1, 3) as usize,
        };
        let kinds: Vec<LK> = match focus {
            Focus::Value => {
                let mut k = vec![LK::Value];
                k.push(*self.rng.pick(&[LK::Value, LK::Command]));
                if self.rng.chance(1, 3) {
                    k.push(*self.rng.pick(&[LK::Value, LK::Map, LK::Supply]));
                }
                k
            }
            Focus::Map => {
                let mut k = vec![LK::Map];
                if self.rng.bool() {
                    k.push(LK::Map);
                }
                if self.rng.chance(1, 3) {
                    k.push(LK::Value);
                }
                k
            }
            Focus::Sync => {
                let mut k = vec![LK::Map, LK::Value];
                if self.rng.chance(1, 3) {
                    k.push(*self.rng.pick(&[LK::Map, LK::Value, LK::Supply]));
                }
                k
            }
            Focus::Supply => {
                let mut k = vec![LK::Supply, *self.rng.pick(&[LK::Command, LK::Value, LK::Supply])];
                if self.rng.chance(1, 2) {
                    k.push(*self.rng.pick(&[LK::Command, LK::Map]));
                }
                k
            }
            Focus::Protocol | Focus::Links | Focus::Inactivity => {
                let n = self.rng.range(2, 4);
                (0..n).map(|_| *self.rng.pick(&[LK::Value, LK::Map, LK::Supply, LK::Command, LK::Value, LK::Map])).collect()
            }
            Focus::Attach | Focus::InactivityOneWay => {
                let n = self.rng.range(2, 4);
                let mut k: Vec<LK> = (0..n).map(|_| *self.rng.pick(&[LK::Value, LK::Map, LK::Supply, LK::Command, LK::Value, LK::Map])).collect();
                if themes.badkey && !k.contains(&LK::Map) {
                    k[0] = LK::Map;
                }
                k
            }
            Focus::BadKey => {
                let mut k = vec![LK::Map];
                if self.rng.bool() {
                    k.push(LK::Map);
                }
                if self.rng.chance(1, 2) {
                    k.push(*self.rng.pick(&[LK::Value, LK::Supply]));
                }
                k
            }
            Focus::OneWay => {
                let mut k = vec![LK::Command, *self.rng.pick(&[LK::Command, LK::Value, LK::Map, LK::Supply])];
                if self.rng.chance(1, 2) {
                    k.push(*self.rng.pick(&[LK::Command, LK::Map, LK::Value]));
                }
                k
            }
        };
        let mut kinds = kinds;
        self.rng.shuffle(&mut kinds);
        let small_bufs = self.rng.chance(1, 2);
        let lanes: Vec<LaneSpec> = kinds
            .iter()
            .enumerate()
            .map(|(i, k)| {
                let letter = match k {
                    LK::Value => "v",
                    LK::Map => "m",
                    LK::Supply => "s",
                    LK::Command => "c",
                };
                let bufs: &[usize] = if small_bufs { &[8, 16, 32, 64] } else { &[32, 256, 4096] };
                LaneSpec {
                    name: format!("{letter}{i}"),
                    kind: *k,
                    transient: self.rng.chance(1, 3),
                    in_buf: *self.rng.pick(bufs),
                    out_buf: *self.rng.pick(bufs),
                    initial: Bytes::from(format!("{}", ((0x300 + i as u64) << 32))),
                    late: false,
                }
            })
            .collect();
        let n_lanes = lanes.len();
        let small = self.rng.chance(2, 3);
        let mut cap_out = vec![];
        let mut cap_in = vec![];
        let mut pace = vec![];
        for _ in 0..remotes + 1 {
            cap_out.push(if small { *self.rng.pick(&CAPS[..5]) } else { *self.rng.pick(&CAPS) });
            cap_in.push(*self.rng.pick(&CAPS));
            if focus == Focus::Supply {
                // bursts of thousands of items: keep the per-byte cost of a slow reader bounded
                pace.push(Pace { chunk: *self.rng.pick(&[2usize, 7, 64, 4096]), yields: *self.rng.pick(&[0u32, 0, 1, 3]) });
            } else {
                pace.push(Pace { chunk: *self.rng.pick(&[1usize, 2, 3, 7, 64, 4096]), yields: *self.rng.pick(&[0u32, 0, 1, 3, 10, 50]) });
            }
        }
        let p = pool();
        let n_classes = self.rng.range(2, 5) as usize;
        let mut key_classes = vec![];
        // Prefer classes that have several spellings, and pairs the comparator and the parser disagree on.
        let multi: Vec<usize> = (0..p.classes.len()).filter(|c| p.classes[*c].len() > 1).collect();
        for _ in 0..n_classes {
            let c = if !multi.is_empty() && self.rng.chance(2, 3) { *self.rng.pick(&multi) } else { self.rng.usize_below(p.classes.len()) };
            if !key_classes.contains(&c) {
                key_classes.push(c);
            }
        }
        if !p.disagreements.is_empty() && self.rng.chance(1, 3) {
            let (a, b, _) = &p.disagreements[self.rng.usize_below(p.disagreements.len())];
            for t in [a, b] {
                let si = p.spellings.iter().position(|s| s == t).unwrap();
                let c = p.class_of[si];
                if !key_classes.contains(&c) {
                    key_classes.push(c);
                }
            }
        }
        let prune_ms = match focus {
            Focus::Links => {
                if self.rng.chance(1, 2) {
                    Some(*self.rng.pick(&[2u64, 5, 20]))
                } else {
                    None
                }
            }
            Focus::Protocol => {
                if self.rng.chance(1, 4) {
                    Some(*self.rng.pick(&[3u64, 10]))
                } else {
                    None
                }
            }
            Focus::Inactivity | Focus::InactivityOneWay => {
                if self.rng.chance(1, 3) {
                    Some(*self.rng.pick(&[3u64, 7, 30]))
                } else {
                    None
                }
            }
            Focus::Attach => {
                if self.rng.chance(1, 3) {
                    Some(*self.rng.pick(&[3u64, 10]))
                } else {
                    None
                }
            }
            _ => None,
        };
        let inactivity = matches!(focus, Focus::Inactivity | Focus::InactivityOneWay);
        // the directed prune-with-a-write-under-way history needs a prune delay and channels smaller than a frame
        let prune_ms = if themes.stale { Some(prune_ms.unwrap_or(*self.rng.pick(&[3u64, 10]))) } else { prune_ms };
        if themes.stale {
            for c in cap_out.iter_mut().take(remotes) {
                if *c > 16 {
                    *c = *self.rng.pick(&CAPS[..5]);
                }
            }
        }
        Config {
            lanes,
            remotes,
            cap_out,
            cap_in,
            pace,
            jitter_per_mille: *self.rng.pick(&[0u64, 0, 100, 300, 600]),
            agent_jitter_per_mille: *self.rng.pick(&[0u64, 0, 0, 200, 500]),
            prune_ms,
            inactive_ms: if inactivity {
                Some(*self.rng.pick(&[6u64, 12, 25]))
            } else if focus == Focus::Protocol && self.rng.chance(1, 8) {
                Some(*self.rng.pick(&[15u64, 40]))
            } else {
                None
            },
            key_classes,
            reporting: focus == Focus::Links || matches!(focus, Focus::Attach | Focus::OneWay) || self.rng.chance(1, 4),
            nothing_stalls: inactivity,
            oneway: if themes.oneway { self.rng.range(1, 3) as usize } else { 0 },
            themes,
            queue: if themes.race { Some(2) } else { None },
            late: if themes.race {
                // non-transient value / map lanes: their registration parks the write task until they acknowledge
                (0..2usize)
                    .map(|k| {
                        let i = n_lanes + k;
                        let kind = if k == 0 { LK::Value } else { LK::Map };
                        LaneSpec { name: format!("{}{i}", if k == 0 { "v" } else { "m" }), kind, transient: false, in_buf: 64, out_buf: 64, initial: Bytes::from(format!("{}", ((0x300 + i as u64) << 32))), late: true }
                    })
                    .collect()
            } else {
                vec![]
            },
            with_store: false,
        }
    }

    fn lane_of_kind(&mut self, cfg: &Config, kinds: &[LK]) -> Option<usize> {
        let c: Vec<usize> = (0..cfg.lanes.len()).filter(|i| kinds.contains(&cfg.lanes[*i].kind)).collect();
        if c.is_empty() {
            None
        } else {
            Some(*self.rng.pick(&c))
        }
    }

    fn focus_lane(&mut self, cfg: &Config, focus: Focus) -> usize {
        let pref: &[LK] = match focus {
            Focus::Value => &[LK::Value, LK::Command],
            Focus::Map => &[LK::Map],
            Focus::Sync => &[LK::Map, LK::Value],
            Focus::Supply => &[LK::Supply, LK::Command],
            Focus::BadKey => &[LK::Map],
            _ => &[],
        };
        if !pref.is_empty() && self.rng.chance(4, 5) {
            if let Some(l) = self.lane_of_kind(cfg, pref) {
                return l;
            }
        }
        self.rng.usize_below(cfg.lanes.len())
    }

    fn lane_name(&mut self, cfg: &Config, focus: Focus) -> String {
        let unknown = match focus {
            Focus::Protocol => 70,
            Focus::Links | Focus::Sync | Focus::Attach => 40,
            _ => 10,
        };
        if self.rng.below(1000) < unknown {
            return self.rng.pick(&UNKNOWN_LANES).to_string();
        }
        let l = self.focus_lane(cfg, focus);
        cfg.lanes[l].name.clone()
    }

    /// Agent-side change of lane `l`.
    fn lane_change(&mut self, cfg: &Config, l: usize, focus: Focus) -> Step {
        let src = 16 + l;
        match cfg.lanes[l].kind {
            LK::Value | LK::Command => {
                // Rarely the empty body: a legal value (Recon `Extant` prints as nothing).
                if (focus == Focus::Protocol && self.rng.chance(1, 25)) || (focus == Focus::Value && self.rng.chance(1, 8)) {
                    Step::Lane(l, LaneCtl::Set(Bytes::new()))
                } else {
                    Step::Lane(l, LaneCtl::Set(self.body(src)))
                }
            }
            LK::Map => Step::Lane(l, LaneCtl::Map(self.map_op(cfg, src))),
            LK::Supply => {
                let big = focus == Focus::Supply && !self.big_used && self.rng.chance(1, 6);
                self.big_used |= big;
                let n = if big {
                    *self.rng.pick(&[200u64, 300, 500, 800, 1200, 2000])
                } else if self.rng.chance(1, 2) {
                    1
                } else {
                    self.rng.range(2, 40)
                } as u32;
                if !big && self.rng.chance(1, 6) {
                    return Step::Lane(l, LaneCtl::Empties(self.rng.range(1, 3) as u32));
                }
                let first = self.next_supply[l.min(7)];
                self.next_supply[l.min(7)] += n as u64;
                Step::Lane(l, LaneCtl::Burst { first, n, pad: if big { *self.rng.pick(&[0usize, 12]) } else { *self.rng.pick(&[0usize, 0, 12, 90]) } })
            }
        }
    }

    /// A command envelope by remote `r`.
    fn remote_command(&mut self, cfg: &Config, r: usize, focus: Focus) -> Step {
        let src = r + 1;
        let name = self.lane_name(cfg, focus);
        let kind = cfg.lanes.iter().find(|l| l.name == name).map(|l| l.kind);
        let body = match kind {
            Some(LK::Map) => {
                if self.rng.chance(1, 20) {
                    // not a map message: the runtime must drop it (bad envelope), nothing reaches the lane
                    Bytes::from_static(b"@bogus(1)")
                } else {
                    Bytes::from(match self.map_op(cfg, src) {
                        MapOpText::Update { key, value } => format!("@update(key:{key}) {value}"),
                        MapOpText::Remove { key } => format!("@remove(key:{key})"),
                        MapOpText::Clear => "@clear".to_string(),
                    })
                }
            }
            _ => self.body(src),
        };
        Step::Command(r, name, body)
    }

    /// Body of a command envelope by source `src` for the lane called `name`.
    fn command_body(&mut self, cfg: &Config, src: usize, name: &str) -> Bytes {
        match cfg.lanes.iter().find(|l| l.name == name).map(|l| l.kind) {
            Some(LK::Map) => {
                if self.rng.chance(1, 20) {
                    Bytes::from_static(b"@bogus(1)")
                } else {
                    Bytes::from(match self.map_op(cfg, src) {
                        MapOpText::Update { key, value } => format!("@update(key:{key}) {value}"),
                        MapOpText::Remove { key } => format!("@remove(key:{key})"),
                        MapOpText::Clear => "@clear".to_string(),
                    })
                }
            }
            _ => self.body(src),
        }
    }

    /// Scripts of the extension parts (`Focus::is_extension`): the ordinary steps of the other parts plus, by
    /// theme, overlapping attachments, command-only channels, corrupt request frames and non-UTF-8 map keys.
    fn script_ext(&mut self, focus: Focus, cfg: &Config, len: usize) -> Vec<Step> {
        let th = cfg.themes;
        let n = cfg.remotes;
        let mut steps = vec![];
        let mut attached = vec![false; n];
        let mut gone = vec![false; n];
        let mut corrupt = vec![false; n];
        let mut ow_attached = vec![false; cfg.oneway];
        let inactivity = focus == Focus::InactivityOneWay;
        steps.push(Step::Attach(0));
        attached[0] = true;
        for l in 0..cfg.lanes.len() {
            if self.rng.below(100) < 25 {
                let m = match self.rng.below(3) {
                    0 => SyncMode::Held,
                    _ => SyncMode::Chunked(*self.rng.pick(&[1usize, 1, 2, 3])),
                };
                steps.push(Step::Lane(l, LaneCtl::SyncMode(m)));
            }
        }
        if self.rng.chance(4, 5) {
            let lane = self.lane_name(cfg, focus);
            if self.rng.bool() {
                steps.push(Step::Sync(0, lane));
            } else {
                steps.push(Step::Link(0, lane));
            }
        }
        if cfg.oneway > 0 && self.rng.chance(2, 3) {
            steps.push(Step::AttachOneWay(0));
            ow_attached[0] = true;
        }
        // (link, sync, unlink, reader ctl, remote fault, settle, lane change, lane sync ctl, lane stall, lane fail, advance, agent return, stop)
        let w: [u64; 13] = match focus {
            Focus::BadKey => [60, 70, 25, 90, 8, 40, 330, 30, 10, 0, 0, 0, 0],
            Focus::OneWay => [60, 30, 30, 60, 8, 40, 120, 10, 6, 0, 0, 0, 0],
            Focus::InactivityOneWay => [90, 60, 70, 0, 20, 25, 150, 15, 30, 0, 160, 0, 0],
            _ => [110, 90, 70, 50, 25, 70, 150, 30, 5, 10, 30, 3, 3],
        };
        // (overlapping attachment, command-only channel, corrupt request frame, non-UTF-8 key, removed with a write under way)
        let tw: [u64; 6] = [
            if th.dup { 45 } else { 0 },
            if !th.oneway || cfg.oneway == 0 {
                0
            } else {
                match focus {
                    Focus::OneWay => 380,
                    Focus::InactivityOneWay => 200,
                    _ => 110,
                }
            },
            if th.corrupt { 25 } else { 0 },
            if !th.badkey {
                0
            } else if focus == Focus::BadKey {
                90
            } else {
                50
            },
            if th.stale && cfg.prune_ms.is_some() { 55 } else { 0 },
            if th.race && !cfg.late.is_empty() && n >= 2 { 60 } else { 0 },
        ];
        let mut late_used = 0usize;
        for _ in 0..len {
            let r = self.rng.usize_below(n);
            if !attached[r] {
                steps.push(Step::Attach(r));
                attached[r] = true;
                continue;
            }
            if gone[r] {
                if self.rng.chance(1, 3) {
                    steps.push(Step::Attach(r));
                    gone[r] = false;
                    corrupt[r] = false;
                }
                continue;
            }
            let roll = self.rng.below(1000);
            let mut acc = 0;
            let mut pick = usize::MAX;
            // (the fifth theme is arm 100 so that the arms of the ordinary steps keep their numbers)
            for (i, wi) in tw.iter().enumerate().map(|(i, w)| (if i >= 4 { 96 + i } else { i }, w)).chain(w.iter().enumerate().map(|(i, w)| (4 + i, w))) {
                acc += wi;
                if roll < acc {
                    pick = i;
                    break;
                }
            }
            match pick {
                0 => {
                    // sometimes with a write to the old attachment under way: its reader stalls, the lane speaks
                    if !inactivity && self.rng.chance(1, 3) {
                        steps.push(Step::Stall(r));
                        let l = self.focus_lane(cfg, focus);
                        steps.push(self.lane_change(cfg, l, focus));
                        if self.rng.bool() {
                            let l = self.focus_lane(cfg, focus);
                            steps.push(self.lane_change(cfg, l, focus));
                        }
                        steps.push(Step::Run(*self.rng.pick(&[1u32, 3, 12])));
                    }
                    steps.push(Step::AttachDup(r));
                    corrupt[r] = false;
                    match self.rng.below(6) {
                        0 | 1 => steps.push(Step::Sync(r, self.lane_name(cfg, focus))),
                        2 => steps.push(Step::Link(r, self.lane_name(cfg, focus))),
                        3 => {
                            let l = self.focus_lane(cfg, focus);
                            steps.push(self.lane_change(cfg, l, focus));
                        }
                        4 => steps.push(Step::Unlink(r, self.lane_name(cfg, focus))),
                        _ => {}
                    }
                }
                1 => {
                    let k = self.rng.usize_below(cfg.oneway);
                    let src = 8 + k;
                    if !ow_attached[k] {
                        steps.push(Step::AttachOneWay(k));
                        ow_attached[k] = true;
                    } else {
                        let cmd_share = if focus == Focus::Attach { 60 } else { 72 };
                        let x = self.rng.below(100);
                        if x < cmd_share {
                            let name = self.lane_name(cfg, focus);
                            let body = self.command_body(cfg, src, &name);
                            steps.push(Step::OneWay(k, ReqKind::Command, name, body));
                        } else if x < cmd_share + 12 {
                            // a run of commands for one lane, back to back
                            let name = self.lane_name(cfg, focus);
                            for _ in 0..self.rng.range(3, 8) {
                                let body = self.command_body(cfg, src, &name);
                                steps.push(Step::OneWay(k, ReqKind::Command, name.clone(), body));
                            }
                        } else if x < cmd_share + 12 + if focus == Focus::Attach { 20 } else { 9 } {
                            // hostile: an envelope that asks for an answer, on a channel that has no way back
                            let kind = *self.rng.pick(&[ReqKind::Link, ReqKind::Sync, ReqKind::Sync, ReqKind::Unlink]);
                            steps.push(Step::OneWay(k, kind, self.lane_name(cfg, focus), Bytes::new()));
                        } else {
                            steps.push(Step::DropOneWay(k));
                            ow_attached[k] = false;
                        }
                    }
                }
                2 => {
                    if !corrupt[r] {
                        let how = *self.rng.pick(&CorruptHow::ALL);
                        steps.push(Step::CorruptReq(r, how, self.lane_name(cfg, focus)));
                        corrupt[r] = true;
                        if how == CorruptHow::TruncatedThenClose {
                            gone[r] = true;
                        }
                    }
                }
                3 => {
                    if let Some(l) = self.lane_of_kind(cfg, &[LK::Map]) {
                        let src = 16 + l;
                        // a remote whose writer is certainly busy: its reader stalls and the lane speaks first
                        if self.rng.chance(1, 3) {
                            steps.push(Step::Stall(r));
                            let op = self.map_op(cfg, src);
                            steps.push(Step::Lane(l, LaneCtl::Map(op)));
                            steps.push(Step::Run(*self.rng.pick(&[1u32, 3, 12])));
                        } else if self.rng.chance(1, 3) {
                            // every writer certainly idle
                            steps.push(Step::Quiesce);
                        }
                        let key = Bytes::from_static(*self.rng.pick(&BAD_KEYS));
                        let value = if self.rng.chance(3, 4) { Some(self.map_value(src)) } else { None };
                        steps.push(Step::Lane(l, LaneCtl::MapBadKey { key, value }));
                        // ordinary operations follow: they must still arrive everywhere
                        for _ in 0..self.rng.range(0, 3) {
                            let op = self.map_op(cfg, src);
                            steps.push(Step::Lane(l, LaneCtl::Map(op)));
                        }
                    }
                }
                100 => {
                    if !corrupt[r] {
                        let prune = cfg.prune_ms.unwrap_or(3);
                        // nothing under way, then the reader stops
                        steps.push(Step::Quiesce);
                        steps.push(Step::Stall(r));
                        // requests whose answers (linked, lane-not-found, unlinked) cannot be written out: the first
                        // stays in flight in a channel smaller than a frame, the others queue up behind it
                        for i in 0..self.rng.range(1, 3) {
                            match if i == 0 { self.rng.below(2) } else { self.rng.below(3) } {
                                0 => steps.push(Step::Link(r, self.rng.pick(&UNKNOWN_LANES).to_string())),
                                1 => {
                                    let l = self.rng.usize_below(cfg.lanes.len());
                                    steps.push(Step::Link(r, cfg.lanes[l].name.clone()));
                                }
                                _ => steps.push(self.remote_command(cfg, r, focus)),
                            }
                        }
                        // no link is left
                        for l in 0..cfg.lanes.len() {
                            steps.push(Step::Unlink(r, cfg.lanes[l].name.clone()));
                        }
                        steps.push(Step::Run(12));
                        // the prune delay passes: the remote is removed with that write still pending
                        steps.push(Step::Advance(prune + *self.rng.pick(&[1, 2, prune])));
                        steps.push(Step::Quiesce);
                        steps.push(Step::ReattachOver(r));
                        // the new attachment speaks
                        match self.rng.below(3) {
                            0 => steps.push(Step::Link(r, self.lane_name(cfg, focus))),
                            1 => steps.push(Step::Sync(r, self.lane_name(cfg, focus))),
                            _ => {
                                steps.push(Step::Link(r, self.lane_name(cfg, focus)));
                                let l = self.focus_lane(cfg, focus);
                                steps.push(self.lane_change(cfg, l, focus));
                            }
                        }
                        steps.push(match self.rng.below(3) {
                            0 => Step::Run(3),
                            1 => Step::Run(12),
                            _ => Step::Quiesce,
                        });
                        // only now the old reader goes on, or goes away
                        steps.push(if self.rng.bool() { Step::ResumeOld(r) } else { Step::DropOld(r) });
                        steps.push(Step::Quiesce);
                        let l = self.focus_lane(cfg, focus);
                        steps.push(self.lane_change(cfg, l, focus));
                        if self.rng.bool() {
                            steps.push(Step::Sync(r, self.lane_name(cfg, focus)));
                        }
                        steps.push(Step::Settle);
                    }
                }
                101 => {
                    // a second remote slot that gets a fresh attachment; value and map lanes to sync with
                    let r1 = (r + 1 + self.rng.usize_below(n - 1)) % n;
                    let targets: Vec<usize> = (0..cfg.lanes.len()).filter(|l| matches!(cfg.lanes[*l].kind, LK::Value | LK::Map)).collect();
                    if !corrupt[r] && late_used < cfg.late.len() && !targets.is_empty() {
                        let late_idx = cfg.lanes.len() + late_used;
                        let late_name = cfg.late[late_used].name.clone();
                        late_used += 1;
                        if attached[r1] && !gone[r1] {
                            steps.push(Step::DropRemote(r1));
                        }
                        // nothing under way; every lane takes requests (a sync must not wait for the lane)
                        steps.push(Step::Settle);
                        // the agent registers a lane that does not acknowledge: the write task waits for it
                        steps.push(Step::AgentReg(late_idx));
                        steps.push(Step::Quiesce);
                        // exactly as many coordination messages as the write task's queue holds
                        let x = cfg.lanes[*self.rng.pick(&targets)].name.clone();
                        steps.push(Step::Link(r, x.clone()));
                        steps.push(Step::Unlink(r, x));
                        steps.push(Step::Quiesce);
                        // a remote attaches and syncs right then
                        steps.push(Step::AttachNoWait(r1));
                        attached[r1] = true;
                        gone[r1] = false;
                        corrupt[r1] = false;
                        let first = *self.rng.pick(&targets);
                        let second = *self.rng.pick(&targets);
                        steps.push(Step::Lane(first, LaneCtl::SyncMode(SyncMode::Atomic)));
                        steps.push(Step::Sync(r1, cfg.lanes[first].name.clone()));
                        if second != first && self.rng.bool() {
                            steps.push(Step::Lane(second, LaneCtl::SyncMode(SyncMode::Atomic)));
                            steps.push(Step::Sync(r1, cfg.lanes[second].name.clone()));
                        }
                        steps.push(if self.rng.bool() { Step::Quiesce } else { Step::Run(12) });
                        // the late lane acknowledges, the write task goes on
                        steps.push(Step::Lane(late_idx, LaneCtl::AckInit));
                        steps.push(Step::Quiesce);
                        // what the lanes do afterwards must reach the new remote as well
                        steps.push(self.lane_change(cfg, first, focus));
                        // the lane that appeared at run time is a lane like the others
                        if self.rng.bool() {
                            steps.push(Step::Sync(r, late_name));
                            if late_idx == cfg.lanes.len() {
                                steps.push(Step::Lane(late_idx, LaneCtl::Set(self.body(16 + late_idx))));
                            }
                        }
                        steps.push(Step::Settle);
                    }
                }
                4 => steps.push(Step::Link(r, self.lane_name(cfg, focus))),
                5 => steps.push(Step::Sync(r, self.lane_name(cfg, focus))),
                6 => steps.push(Step::Unlink(r, self.lane_name(cfg, focus))),
                7 => match self.rng.below(3) {
                    0 => steps.push(Step::Stall(r)),
                    1 => steps.push(Step::Unstall(r)),
                    _ => steps.push(Step::SetPace(r, Pace { chunk: *self.rng.pick(&[1usize, 2, 5, 64, 4096]), yields: *self.rng.pick(&[0u32, 1, 5, 30]) })),
                },
                8 => {
                    match self.rng.below(4) {
                        0 | 1 => steps.push(Step::DropReader(r)),
                        2 => steps.push(Step::DropRemote(r)),
                        _ => steps.push(Step::DropWriter(r)),
                    }
                    gone[r] = true;
                }
                9 => {
                    steps.push(Step::Settle);
                    if matches!(focus, Focus::Attach | Focus::OneWay) && self.rng.chance(1, 2) {
                        // a pure phase: only agent-side events between two checkpoints
                        for _ in 0..self.rng.range(1, 5) {
                            let l = self.rng.usize_below(cfg.lanes.len());
                            steps.push(self.lane_change(cfg, l, focus));
                        }
                        steps.push(Step::Settle);
                    }
                }
                10 => {
                    let l = self.focus_lane(cfg, focus);
                    steps.push(self.lane_change(cfg, l, focus));
                }
                11 => {
                    let l = self.focus_lane(cfg, focus);
                    match self.rng.below(5) {
                        0 => steps.push(Step::Lane(l, LaneCtl::SyncMode(SyncMode::Held))),
                        1 => steps.push(Step::Lane(l, LaneCtl::SyncMode(SyncMode::Chunked(*self.rng.pick(&[1usize, 2, 4]))))),
                        2 => steps.push(Step::Lane(l, LaneCtl::SyncMode(SyncMode::Atomic))),
                        3 => steps.push(Step::Lane(l, LaneCtl::SyncStep(self.rng.range(1, 4) as usize))),
                        _ => steps.push(Step::Lane(l, LaneCtl::FlushSyncs)),
                    }
                }
                12 => {
                    let l = self.focus_lane(cfg, focus);
                    steps.push(Step::Lane(l, LaneCtl::Stall(self.rng.chance(2, 3))));
                }
                13 => {
                    let l = self.rng.usize_below(cfg.lanes.len());
                    let how = *self.rng.pick(&[FailHow::CorruptTag, FailHow::CorruptTag, FailHow::Truncated, FailHow::CloseWriter]);
                    steps.push(Step::Lane(l, LaneCtl::Fail(how)));
                }
                14 if inactivity => {
                    let t = cfg.inactive_ms.unwrap_or(10);
                    steps.push(Step::Advance(*self.rng.pick(&[1, 1, 2, t / 3, t / 3, t / 2, t / 2, t - 1, t - 1, t, t + 1, 2 * t])));
                }
                14 => steps.push(Step::Advance(*self.rng.pick(&[1u64, 3, 10, 30]))),
                15 => {
                    steps.push(Step::AgentReturn(self.rng.bool()));
                    break;
                }
                16 => {
                    steps.push(Step::StopAgent);
                    break;
                }
                _ => steps.push(self.remote_command(cfg, r, focus)),
            }
            match self.rng.below(100) {
                0..=29 => {}
                30..=54 => steps.push(Step::Run(1)),
                55..=74 => steps.push(Step::Run(3)),
                75..=89 => steps.push(Step::Run(12)),
                _ => steps.push(Step::Quiesce),
            }
        }
        if inactivity && !matches!(steps.last(), Some(Step::AgentReturn(_)) | Some(Step::StopAgent)) {
            steps.push(Step::FinalIdle(5 * cfg.inactive_ms.unwrap_or(10) + 5));
        }
        steps
    }

    pub fn script(&mut self, focus: Focus, cfg: &Config, len: usize) -> Vec<Step> {
        if focus.is_extension() {
            return self.script_ext(focus, cfg, len);
        }
        let mut steps = vec![];
        let n = cfg.remotes;
        let mut attached = vec![false; n];
        let mut gone = vec![false; n];
        steps.push(Step::Attach(0));
        attached[0] = true;
        // Sync-response behaviour of the lanes for this case.
        for l in 0..cfg.lanes.len() {
            let p = match focus {
                Focus::Sync => 60,
                Focus::Links | Focus::Protocol => 35,
                _ => 15,
            };
            if self.rng.below(100) < p {
                let m = match self.rng.below(3) {
                    0 => SyncMode::Held,
                    _ => SyncMode::Chunked(*self.rng.pick(&[1usize, 1, 2, 3])),
                };
                steps.push(Step::Lane(l, LaneCtl::SyncMode(m)));
            }
        }
        if self.rng.chance(4, 5) {
            let lane = self.lane_name(cfg, focus);
            if self.rng.chance(1, 2) || focus == Focus::Sync {
                steps.push(Step::Sync(0, lane));
            } else {
                steps.push(Step::Link(0, lane));
            }
        }
        // (link, sync, unlink, reader ctl, remote fault, settle, lane change, lane sync ctl, lane stall, lane fail, advance, agent return, stop)
        let w: [u64; 13] = match focus {
            Focus::Value => [70, 80, 30, 110, 8, 30, 330, 30, 10, 0, 0, 0, 0],
            Focus::Map => [60, 70, 25, 90, 8, 30, 300, 30, 10, 0, 0, 0, 0],
            Focus::Sync => [50, 200, 40, 90, 8, 30, 220, 120, 10, 2, 0, 0, 0],
            Focus::Protocol => [130, 110, 100, 70, 40, 25, 160, 40, 15, 25, 10, 6, 6],
            Focus::Supply => [80, 30, 50, 100, 8, 30, 260, 10, 30, 3, 0, 0, 0],
            Focus::Links => [170, 100, 130, 30, 60, 90, 120, 50, 5, 25, 50, 3, 0],
            // no stalled readers, no failing lanes; a lane may stop taking requests for a while (the read task
            // then blocks in the middle of delivering a command)
            Focus::Inactivity => [110, 70, 90, 0, 25, 25, 180, 20, 35, 0, 160, 0, 0],
            // (the extension parts have their own generator, `script_ext`)
            Focus::Attach | Focus::BadKey | Focus::OneWay | Focus::InactivityOneWay => [0; 13],
        };
        for _ in 0..len {
            let r = self.rng.usize_below(n);
            if !attached[r] {
                steps.push(Step::Attach(r));
                attached[r] = true;
                continue;
            }
            if gone[r] {
                // a remote that went away may come back as a fresh attachment (new routing id)
                if self.rng.chance(1, 3) {
                    steps.push(Step::Attach(r));
                    gone[r] = false;
                }
                continue;
            }
            let roll = self.rng.below(1000);
            let mut acc = 0;
            let mut pick = usize::MAX;
            for (i, wi) in w.iter().enumerate() {
                acc += wi;
                if roll < acc {
                    pick = i;
                    break;
                }
            }
            match pick {
                0 => steps.push(Step::Link(r, self.lane_name(cfg, focus))),
                1 => steps.push(Step::Sync(r, self.lane_name(cfg, focus))),
                2 => steps.push(Step::Unlink(r, self.lane_name(cfg, focus))),
                3 => match self.rng.below(3) {
                    0 => steps.push(Step::Stall(r)),
                    1 => steps.push(Step::Unstall(r)),
                    _ => {
                        let yields: &[u32] = if focus == Focus::Supply { &[0, 1, 3] } else { &[0, 1, 5, 30] };
                        let chunks: &[usize] = if focus == Focus::Supply { &[2, 5, 64, 4096] } else { &[1, 2, 5, 64, 4096] };
                        steps.push(Step::SetPace(r, Pace { chunk: *self.rng.pick(chunks), yields: *self.rng.pick(yields) }))
                    }
                },
                4 => {
                    match self.rng.below(4) {
                        0 | 1 => steps.push(Step::DropReader(r)),
                        2 => steps.push(Step::DropRemote(r)),
                        _ => steps.push(Step::DropWriter(r)),
                    }
                    gone[r] = true;
                }
                5 => {
                    steps.push(Step::Settle);
                    if focus == Focus::Links && self.rng.chance(1, 2) {
                        // a pure phase: only agent-side events between two checkpoints
                        for _ in 0..self.rng.range(1, 5) {
                            let l = self.rng.usize_below(cfg.lanes.len());
                            steps.push(self.lane_change(cfg, l, focus));
                        }
                        steps.push(Step::Settle);
                    }
                }
                6 => {
                    let l = self.focus_lane(cfg, focus);
                    steps.push(self.lane_change(cfg, l, focus));
                }
                7 => {
                    let l = self.focus_lane(cfg, focus);
                    match self.rng.below(5) {
                        0 => steps.push(Step::Lane(l, LaneCtl::SyncMode(SyncMode::Held))),
                        1 => steps.push(Step::Lane(l, LaneCtl::SyncMode(SyncMode::Chunked(*self.rng.pick(&[1usize, 2, 4]))))),
                        2 => steps.push(Step::Lane(l, LaneCtl::SyncMode(SyncMode::Atomic))),
                        3 => steps.push(Step::Lane(l, LaneCtl::SyncStep(self.rng.range(1, 4) as usize))),
                        _ => steps.push(Step::Lane(l, LaneCtl::FlushSyncs)),
                    }
                }
                8 => {
                    let l = self.focus_lane(cfg, focus);
                    steps.push(Step::Lane(l, LaneCtl::Stall(self.rng.chance(2, 3))));
                }
                9 => {
                    let l = self.rng.usize_below(cfg.lanes.len());
                    let how = *self.rng.pick(&[FailHow::CorruptTag, FailHow::CorruptTag, FailHow::Truncated, FailHow::CloseWriter]);
                    steps.push(Step::Lane(l, LaneCtl::Fail(how)));
                }
                10 if focus == Focus::Inactivity => {
                    // gaps just below, at and above the timeout (and sums of short gaps that cross it)
                    let t = cfg.inactive_ms.unwrap_or(10);
                    steps.push(Step::Advance(*self.rng.pick(&[1, 1, 2, t / 3, t / 3, t / 2, t / 2, t - 1, t - 1, t, t + 1, 2 * t])));
                    if self.rng.chance(1, 3) {
                        steps.push(Step::Http);
                    }
                }
                10 => {
                    steps.push(Step::Advance(if cfg.inactive_ms.is_some() { *self.rng.pick(&[3u64, 10, 30, 60]) } else { *self.rng.pick(&[1u64, 3, 10, 30]) }));
                    if cfg.prune_ms.is_some() && self.rng.chance(2, 3) {
                        // a pruned connection speaks again: it re-attaches under its id and addresses a lane
                        if self.rng.chance(1, 3) {
                            steps.push(Step::Run(*self.rng.pick(&[1u32, 3, 12])));
                        }
                        steps.push(Step::Reattach(r));
                        match self.rng.below(4) {
                            0 => steps.push(Step::Link(r, self.lane_name(cfg, focus))),
                            1 => steps.push(Step::Sync(r, self.lane_name(cfg, focus))),
                            2 => {
                                let l = self.focus_lane(cfg, focus);
                                steps.push(self.lane_change(cfg, l, focus));
                            }
                            _ => {}
                        }
                    }
                }
                11 => {
                    steps.push(Step::AgentReturn(self.rng.bool()));
                    break;
                }
                12 => {
                    steps.push(Step::StopAgent);
                    break;
                }
                _ => steps.push(self.remote_command(cfg, r, focus)),
            }
            // Scheduling freedom between script steps.
            match self.rng.below(100) {
                0..=29 => {}
                30..=54 => steps.push(Step::Run(1)),
                55..=74 => steps.push(Step::Run(3)),
                75..=89 => steps.push(Step::Run(12)),
                _ => steps.push(Step::Quiesce),
            }
        }
        if focus == Focus::Inactivity && !matches!(steps.last(), Some(Step::AgentReturn(_)) | Some(Step::StopAgent)) {
            steps.push(Step::FinalIdle(5 * cfg.inactive_ms.unwrap_or(10) + 5));
        }
        steps
    }
}
