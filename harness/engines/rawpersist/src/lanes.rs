//! The harness-implemented `Agent` (adapted from the `rawagent` engine, reduced to value and map
//! lanes): every lane is a small state machine that speaks the lane byte-channel protocol directly
//! (`LaneRequest` in, `LaneResponse` out). A lane is registered either while the agent initialises
//! (`Agent::run`'s future, handled by the runtime's `AgentInitTask`) or *dynamically*, by the
//! running agent task through `AgentContext::add_lane` (handled by the running write task).
//!
//! What is recorded (tickets of the one global clock): the registration, every initialisation
//! message the runtime handed to the lane up to `InitComplete`, every state the lane adopted and
//! every frame it emitted.

use std::collections::{BTreeMap, HashMap, VecDeque};
use std::num::NonZeroUsize;
use std::sync::Arc;

use bytes::Bytes;
use common::jitter::Jitter;
use common::{ticket, Rng};
use futures::future::BoxFuture;
use futures::stream::FuturesUnordered;
use futures::{FutureExt, SinkExt, StreamExt};
use parking_lot::Mutex;
use swimos_agent_protocol::encoding::lane::{
    RawMapLaneRequestDecoder, RawMapLaneResponseEncoder, RawValueLaneRequestDecoder, RawValueLaneResponseEncoder,
};
use swimos_agent_protocol::{LaneRequest, LaneResponse, MapMessage, MapOperation};
use swimos_api::agent::{Agent, AgentConfig, AgentContext, AgentInitResult, LaneConfig, StoreKind, WarpLaneKind};
use swimos_api::error::{AgentInitError, AgentRuntimeError, AgentTaskError};
use swimos_utilities::byte_channel::{ByteReader, ByteWriter};
use swimos_utilities::routing::RouteUri;
use tokio::sync::{mpsc, oneshot};
use tokio_util::codec::{FramedRead, FramedWrite};
use uuid::Uuid;

use crate::items::{open_store, StoreSpec};

#[derive(Clone, Copy, Debug, PartialEq, Eq, Hash)]
pub enum Kind {
    Value,
    Map,
}

impl Kind {
    pub fn name(&self) -> &'static str {
        match self {
            Kind::Value => "value",
            Kind::Map => "map",
        }
    }
}

#[derive(Clone, Debug)]
pub struct LaneSpec {
    pub name: String,
    pub kind: Kind,
    pub transient: bool,
    pub in_buf: usize,
    pub out_buf: usize,
    /// Body of a value lane that was never set and found nothing in the store (the same in every
    /// incarnation: it is the lane's *default*).
    pub default: Bytes,
}

/// A state change of a lane, as the lane's own history knows it (bodies are unique per case).
#[derive(Clone, Debug, PartialEq, Eq, Hash)]
pub enum Op {
    Set(Bytes),
    Upd(Bytes, Bytes),
    Rem(Bytes),
    Clr,
}

#[derive(Clone, Debug)]
pub enum LaneCtl {
    /// Adopt the change. `defer`: the standard event is only emitted when the lane handles its next
    /// input – a sync request that arrives in between is answered from the new state first (this is
    /// what the typed lanes of `swimos_agent` do: they answer syncs before pending events).
    Apply { op: Op, defer: bool },
}

pub enum AgentCtl {
    /// Register lane `i` now (dynamic path).
    Register(usize),
    /// Request store item `i` now (`AgentContext::add_store` from the running agent).
    RegisterStore(usize),
}

/// Misbehaviour of an item (lane or store item, harness code) during the initialisation handshake.
/// Whatever the item does, the runtime must either fail in a defined way or restore exactly; it
/// must never treat the item as initialised without its acknowledgement.
#[derive(Clone, Copy, Debug, PartialEq, Eq, Hash)]
pub enum InitFault {
    /// The agent drops the registration future after the request was sent (the promise is dropped).
    DropPromise,
    /// The item holds its channels and reads nothing for two initialisation time-outs, then reads
    /// what is there and never acknowledges.
    NeverReads,
    /// Reads this many initialisation messages, then drops both channels.
    DropAfter(usize),
    /// Reads everything up to `InitComplete`, then drops both channels.
    DropAtComplete,
    /// Reads everything up to `InitComplete`, then drops its writer (keeps reading).
    DropWriterAtComplete,
    /// Reads everything up to `InitComplete` and never acknowledges.
    Mute,
    /// Reads everything up to `InitComplete`, then sends a byte that is not `Initialized`.
    Garbage,
    /// Acknowledges this many ms (virtual) after `InitComplete`.
    SlowAck(u64),
    /// The item behaves; the store refuses `id_for` of its name (IO error).
    IdError,
}

impl InitFault {
    pub fn name(&self) -> &'static str {
        match self {
            InitFault::DropPromise => "drop-promise",
            InitFault::NeverReads => "never-reads",
            InitFault::DropAfter(_) => "drop-after-n",
            InitFault::DropAtComplete => "drop-at-complete",
            InitFault::DropWriterAtComplete => "drop-writer-at-complete",
            InitFault::Mute => "mute",
            InitFault::Garbage => "garbage-ack",
            InitFault::SlowAck(_) => "slow-ack",
            InitFault::IdError => "id-error",
        }
    }
}

#[derive(Clone, Debug)]
pub enum Emitted {
    Std(Op),
    SyncEv(Uuid, Op),
    Synced(Uuid),
    Initialized,
}

#[derive(Clone, Debug)]
pub struct Emit {
    /// Ticket before the frame is handed to the channel.
    pub t0: u64,
    /// Ticket after the channel accepted the whole frame (None: the write never completed).
    pub t1: Option<u64>,
    pub what: Emitted,
    /// For a frame that carries state (`Std`, `SyncEv`): the position in the lane's history of the
    /// change that established the state shown (0 = the state the incarnation started from). This is
    /// what gives a frame with an *empty* body (which has no identity of its own) its place.
    pub idx: usize,
    /// Virtual time of the emission.
    pub at: tokio::time::Instant,
}

#[derive(Clone, Debug, PartialEq, Eq)]
pub enum InitItem {
    Value(Bytes),
    Entry(Bytes, Bytes),
    /// Anything else (a remove / clear / take / drop message, a sync request, a decode error).
    Other(String),
}

#[derive(Default, Clone)]
pub struct LaneRec {
    /// Ticket right before `add_lane` was called.
    pub reg_requested: Option<u64>,
    /// Ticket when `add_lane` handed the channels over.
    pub reg_io: Option<u64>,
    pub reg_error: Option<(u64, String)>,
    /// Virtual time of the registration error.
    pub reg_error_at: Option<tokio::time::Instant>,
    /// What the runtime sent before `InitComplete` (persistent lanes only wait for it).
    pub init_items: Vec<(u64, InitItem)>,
    pub init_complete: Option<u64>,
    pub initialized_sent: Option<u64>,
    /// The lane's own history: (ticket of adoption, change). The state before entry 0 is the
    /// restored state (or the default).
    pub hist: Vec<(u64, Op)>,
    pub emitted: Vec<Emit>,
    /// Requests that no one should have sent: commands (no remote ever sends one) and a second
    /// `InitComplete`; for a transient lane any `InitComplete`.
    pub stray: Vec<(u64, String)>,
    pub syncs: u64,
    pub write_error: Option<u64>,
    /// The runtime closed the lane's request channel.
    pub closed: Option<u64>,
    /// How a planned misbehaviour of the handshake went (ticket, what the item did / saw).
    pub fault_outcome: Option<(u64, String)>,
    /// Store items: `add_store` was answered `StoresNotSupported`.
    pub not_supported: Option<u64>,
}

pub type SharedLane = Arc<Mutex<LaneRec>>;

pub struct AgentShared {
    pub lanes: Vec<SharedLane>,
    /// Records of the store items (same shape as a lane's: registration, handshake, writes).
    pub stores: Vec<SharedLane>,
    /// (ticket, ok) when the scripted return of the agent future happened.
    pub returned: Mutex<Option<(u64, bool)>>,
    pub init_error: Mutex<Option<String>>,
}

enum Wr {
    Value(FramedWrite<ByteWriter, RawValueLaneResponseEncoder>),
    Map(FramedWrite<ByteWriter, RawMapLaneResponseEncoder>),
}

enum Rd {
    Value(FramedRead<ByteReader, RawValueLaneRequestDecoder>),
    Map(FramedRead<ByteReader, RawMapLaneRequestDecoder>),
}

enum Req {
    Value(Bytes),
    MapUpdate(Bytes, Bytes),
    MapOther(String),
    Sync(Uuid),
    InitComplete,
    DecodeError(String),
}

impl Rd {
    async fn next(&mut self) -> Option<Req> {
        match self {
            Rd::Value(r) => match r.next().await {
                None => None,
                Some(Err(e)) => Some(Req::DecodeError(format!("{e:?}"))),
                Some(Ok(LaneRequest::Command(b))) => Some(Req::Value(b.freeze())),
                Some(Ok(LaneRequest::Sync(id))) => Some(Req::Sync(id)),
                Some(Ok(LaneRequest::InitComplete)) => Some(Req::InitComplete),
            },
            Rd::Map(r) => match r.next().await {
                None => None,
                Some(Err(e)) => Some(Req::DecodeError(format!("{e:?}"))),
                Some(Ok(LaneRequest::Command(m))) => Some(match m {
                    MapMessage::Update { key, value } => Req::MapUpdate(key.freeze(), value.freeze()),
                    MapMessage::Remove { .. } => Req::MapOther("remove".into()),
                    MapMessage::Clear => Req::MapOther("clear".into()),
                    MapMessage::Take(_) => Req::MapOther("take".into()),
                    MapMessage::Drop(_) => Req::MapOther("drop".into()),
                }),
                Some(Ok(LaneRequest::Sync(id))) => Some(Req::Sync(id)),
                Some(Ok(LaneRequest::InitComplete)) => Some(Req::InitComplete),
            },
        }
    }
}

struct Lane {
    spec: LaneSpec,
    rec: SharedLane,
    wr: Option<Wr>,
    rd: Option<Rd>,
    ctl: mpsc::UnboundedReceiver<LaneCtl>,
    ctl_open: bool,
    current: Bytes,
    map: BTreeMap<Bytes, Bytes>,
    /// Standard events adopted but not yet emitted (see `LaneCtl::Apply::defer`), with their history position.
    deferred: VecDeque<(Op, usize)>,
    /// History position of the change that set the current value / each current entry (0: restored or default).
    value_at: usize,
    set_at: BTreeMap<Bytes, usize>,
}

fn raw_op(op: &Op) -> Option<MapOperation<Bytes, Bytes>> {
    match op {
        Op::Upd(k, v) => Some(MapOperation::Update { key: k.clone(), value: v.clone() }),
        Op::Rem(k) => Some(MapOperation::Remove { key: k.clone() }),
        Op::Clr => Some(MapOperation::Clear),
        Op::Set(_) => None,
    }
}

impl Lane {
    async fn write_frame(&mut self, what: Emitted, hist_idx: usize) -> bool {
        let Some(wr) = self.wr.as_mut() else { return false };
        let idx = {
            let mut g = self.rec.lock();
            g.emitted.push(Emit { t0: ticket(), t1: None, what: what.clone(), idx: hist_idx, at: tokio::time::Instant::now() });
            g.emitted.len() - 1
        };
        let r = match (wr, &what) {
            (Wr::Value(w), Emitted::Std(Op::Set(b))) => w.send(LaneResponse::StandardEvent(b.clone())).await,
            (Wr::Value(w), Emitted::SyncEv(id, Op::Set(b))) => w.send(LaneResponse::SyncEvent(*id, b.clone())).await,
            (Wr::Value(w), Emitted::Synced(id)) => w.send(LaneResponse::<Bytes>::Synced(*id)).await,
            (Wr::Value(w), Emitted::Initialized) => w.send(LaneResponse::<Bytes>::Initialized).await,
            (Wr::Map(w), Emitted::Std(op)) => match raw_op(op) {
                Some(o) => w.send(LaneResponse::StandardEvent(o)).await,
                None => Ok(()),
            },
            (Wr::Map(w), Emitted::SyncEv(id, op)) => match raw_op(op) {
                Some(o) => w.send(LaneResponse::SyncEvent(*id, o)).await,
                None => Ok(()),
            },
            (Wr::Map(w), Emitted::Synced(id)) => w.send(LaneResponse::<MapOperation<Bytes, Bytes>>::Synced(*id)).await,
            (Wr::Map(w), Emitted::Initialized) => w.send(LaneResponse::<MapOperation<Bytes, Bytes>>::Initialized).await,
            _ => Ok(()),
        };
        let mut g = self.rec.lock();
        match r {
            Ok(()) => {
                g.emitted[idx].t1 = Some(ticket());
                true
            }
            Err(_) => {
                g.write_error = Some(ticket());
                drop(g);
                self.wr = None;
                false
            }
        }
    }

    async fn flush_deferred(&mut self) {
        while let Some((op, at)) = self.deferred.pop_front() {
            if !self.write_frame(Emitted::Std(op), at).await {
                self.deferred.clear();
                return;
            }
        }
    }

    /// Adopts the change; returns its (1-based) position in the lane's history.
    fn adopt(&mut self, op: &Op) -> usize {
        let n = self.rec.lock().hist.len() + 1;
        match (self.spec.kind, op) {
            (Kind::Value, Op::Set(b)) => {
                self.current = b.clone();
                self.value_at = n;
            }
            (Kind::Map, Op::Upd(k, v)) => {
                self.map.insert(k.clone(), v.clone());
                self.set_at.insert(k.clone(), n);
            }
            (Kind::Map, Op::Rem(k)) => {
                self.map.remove(k);
                self.set_at.remove(k);
            }
            (Kind::Map, Op::Clr) => {
                self.map.clear();
                self.set_at.clear();
            }
            _ => return 0,
        }
        self.rec.lock().hist.push((ticket(), op.clone()));
        n
    }

    async fn handle_ctl(&mut self, c: LaneCtl) {
        // Events keep the order of the changes: whatever is still deferred goes out first.
        self.flush_deferred().await;
        match c {
            LaneCtl::Apply { op, defer } => {
                let fits = matches!((self.spec.kind, &op), (Kind::Value, Op::Set(_)) | (Kind::Map, Op::Upd(..) | Op::Rem(_) | Op::Clr));
                if !fits || self.wr.is_none() {
                    return;
                }
                let at = self.adopt(&op);
                if defer {
                    self.deferred.push_back((op, at));
                } else {
                    self.write_frame(Emitted::Std(op), at).await;
                }
            }
        }
    }

    async fn answer_sync(&mut self, id: Uuid) {
        match self.spec.kind {
            Kind::Value => {
                if !self.write_frame(Emitted::SyncEv(id, Op::Set(self.current.clone())), self.value_at).await {
                    return;
                }
            }
            Kind::Map => {
                let entries: Vec<(Bytes, Bytes)> = self.map.iter().map(|(k, v)| (k.clone(), v.clone())).collect();
                for (k, v) in entries {
                    let at = self.set_at.get(&k).copied().unwrap_or(0);
                    if !self.write_frame(Emitted::SyncEv(id, Op::Upd(k, v)), at).await {
                        return;
                    }
                }
            }
        }
        self.write_frame(Emitted::Synced(id), 0).await;
    }

    async fn handle_req(&mut self, r: Option<Req>) {
        match r {
            None => {
                self.rec.lock().closed = Some(ticket());
                self.rd = None;
            }
            Some(Req::DecodeError(e)) => {
                self.rec.lock().stray.push((ticket(), format!("decode error: {e}")));
                self.rd = None;
            }
            Some(Req::Sync(id)) => {
                self.rec.lock().syncs += 1;
                // Answered from the current state, *before* any deferred standard event.
                self.answer_sync(id).await;
                self.flush_deferred().await;
            }
            Some(Req::Value(_)) | Some(Req::MapUpdate(..)) => {
                self.rec.lock().stray.push((ticket(), "command".to_string()));
            }
            Some(Req::MapOther(what)) => {
                self.rec.lock().stray.push((ticket(), format!("map command {what}")));
            }
            Some(Req::InitComplete) => {
                self.rec.lock().stray.push((ticket(), "init-complete".to_string()));
            }
        }
    }

    async fn run(mut self) {
        loop {
            let Some(rd) = self.rd.as_mut() else {
                // The runtime dropped its end of the request channel (it is shutting down): like a
                // real lane, end the lane's task.
                return;
            };
            let input = tokio::select! {
                biased;
                c = self.ctl.recv(), if self.ctl_open => Ok(c),
                r = rd.next() => Err(r),
            };
            match input {
                Ok(Some(c)) => self.handle_ctl(c).await,
                Ok(None) => self.ctl_open = false,
                Err(r) => self.handle_req(r).await,
            }
        }
    }
}

fn nz(n: usize) -> NonZeroUsize {
    NonZeroUsize::new(n.max(1)).unwrap()
}

/// Registers one lane (whichever phase the agent is in) and performs the initialisation handshake
/// of a persistent lane: the runtime replays the stored state and sends `InitComplete`; the lane
/// answers `Initialized`. `None`: the registration failed (recorded) or the lane misbehaved as
/// planned (`fault`; `hold_ms` is the runtime's item initialisation time-out).
async fn register(
    add: BoxFuture<'static, Result<(ByteWriter, ByteReader), AgentRuntimeError>>,
    spec: LaneSpec,
    rec: SharedLane,
    ctl: mpsc::UnboundedReceiver<LaneCtl>,
    fault: Option<InitFault>,
    hold_ms: u64,
) -> Option<Lane> {
    let (tx, rx) = match add.await {
        Ok(io) => io,
        Err(e) => {
            let mut g = rec.lock();
            g.reg_error = Some((ticket(), format!("add_lane: {e}")));
            g.reg_error_at = Some(tokio::time::Instant::now());
            return None;
        }
    };
    rec.lock().reg_io = Some(ticket());
    let (wr, rd) = match spec.kind {
        Kind::Map => (Wr::Map(FramedWrite::new(tx, Default::default())), Rd::Map(FramedRead::new(rx, Default::default()))),
        Kind::Value => (Wr::Value(FramedWrite::new(tx, Default::default())), Rd::Value(FramedRead::new(rx, Default::default()))),
    };
    let mut lane = Lane {
        current: spec.default.clone(),
        spec,
        rec,
        wr: Some(wr),
        rd: Some(rd),
        ctl,
        ctl_open: true,
        map: BTreeMap::new(),
        deferred: VecDeque::new(),
        value_at: 0,
        set_at: BTreeMap::new(),
    };
    // The runtime performs the handshake with every non-transient value/map lane; a transient lane
    // is driven at once (it must not wait for an `InitComplete` that never comes).
    if !lane.spec.transient {
        if fault == Some(InitFault::NeverReads) {
            tokio::time::sleep(std::time::Duration::from_millis(2 * hold_ms + 1)).await;
        }
        let mut items = 0usize;
        loop {
            if let Some(InitFault::DropAfter(n)) = fault {
                if items >= n {
                    return lane.give_up(format!("dropped both channels after {items} initialisation messages"));
                }
            }
            let r = lane.rd.as_mut().expect("reader").next().await;
            let t = ticket();
            match r {
                Some(Req::InitComplete) => {
                    lane.rec.lock().init_complete = Some(t);
                    break;
                }
                Some(Req::Value(b)) => {
                    items += 1;
                    lane.current = b.clone();
                    lane.rec.lock().init_items.push((t, InitItem::Value(b)));
                }
                Some(Req::MapUpdate(k, v)) => {
                    items += 1;
                    lane.map.insert(k.clone(), v.clone());
                    lane.rec.lock().init_items.push((t, InitItem::Entry(k, v)));
                }
                Some(Req::MapOther(w)) => lane.rec.lock().init_items.push((t, InitItem::Other(w))),
                Some(Req::Sync(_)) => lane.rec.lock().init_items.push((t, InitItem::Other("sync".into()))),
                Some(Req::DecodeError(e)) => {
                    let mut g = lane.rec.lock();
                    g.reg_error = Some((t, format!("initialisation channel: decode error {e}")));
                    g.reg_error_at = Some(tokio::time::Instant::now());
                    drop(g);
                    return None;
                }
                None => {
                    let mut g = lane.rec.lock();
                    g.reg_error = Some((t, "initialisation channel closed".to_string()));
                    g.reg_error_at = Some(tokio::time::Instant::now());
                    if fault.is_some() {
                        g.fault_outcome = Some((t, format!("channel closed by the runtime after {items} initialisation messages, before InitComplete")));
                    }
                    drop(g);
                    return None;
                }
            }
        }
        match fault {
            Some(InitFault::DropAfter(_)) | Some(InitFault::DropAtComplete) => {
                return lane.give_up("dropped both channels after InitComplete".to_string());
            }
            Some(InitFault::DropWriterAtComplete) => {
                lane.wr = None;
                lane.await_close().await;
                return lane.give_up("dropped the writer after InitComplete".to_string());
            }
            Some(InitFault::Mute) | Some(InitFault::NeverReads) => {
                lane.await_close().await;
                return lane.give_up("never acknowledged".to_string());
            }
            Some(InitFault::Garbage) => {
                use tokio::io::AsyncWriteExt;
                let sent = match lane.wr.as_mut() {
                    Some(Wr::Value(w)) => w.get_mut().write_all(&[0x7f]).await.is_ok(),
                    Some(Wr::Map(w)) => w.get_mut().write_all(&[0x7f]).await.is_ok(),
                    None => false,
                };
                lane.await_close().await;
                return lane.give_up(format!("sent a byte that is not Initialized (accepted: {sent})"));
            }
            Some(InitFault::SlowAck(ms)) => tokio::time::sleep(std::time::Duration::from_millis(ms)).await,
            Some(InitFault::DropPromise) | Some(InitFault::IdError) | None => {}
        }
        if !lane.write_frame(Emitted::Initialized, 0).await {
            let t = ticket();
            let mut g = lane.rec.lock();
            g.reg_error = Some((t, "could not acknowledge the initialisation".to_string()));
            g.reg_error_at = Some(tokio::time::Instant::now());
            if fault.is_some() {
                g.fault_outcome = Some((t, "the acknowledgement was refused (the runtime had closed the channel)".to_string()));
            }
            drop(g);
            return None;
        }
        lane.rec.lock().initialized_sent = Some(ticket());
        if fault.is_some() {
            lane.rec.lock().fault_outcome = Some((ticket(), "acknowledged".to_string()));
        }
    }
    Some(lane)
}

impl Lane {
    /// A planned misbehaviour ends the lane: recorded like a failed registration.
    fn give_up(self, what: String) -> Option<Lane> {
        let t = ticket();
        let mut g = self.rec.lock();
        g.reg_error = Some((t, format!("planned misbehaviour: {what}")));
        g.reg_error_at = Some(tokio::time::Instant::now());
        g.fault_outcome = Some((t, what));
        drop(g);
        None
    }

    /// Reads (and records as stray) until the runtime closes the request channel.
    async fn await_close(&mut self) {
        while let Some(rd) = self.rd.as_mut() {
            match rd.next().await {
                None | Some(Req::DecodeError(_)) => {
                    self.rec.lock().closed = Some(ticket());
                    self.rd = None;
                }
                Some(_) => self.rec.lock().stray.push((ticket(), "request during a failed handshake".to_string())),
            }
        }
    }
}

pub struct Controls {
    pub lane_ctl: Vec<mpsc::UnboundedReceiver<LaneCtl>>,
    pub store_ctl: Vec<mpsc::UnboundedReceiver<LaneCtl>>,
    pub agent_ctl: mpsc::UnboundedReceiver<AgentCtl>,
    pub return_rx: oneshot::Receiver<bool>,
}

pub struct RawAgent {
    pub specs: Vec<LaneSpec>,
    /// Lane `i` is registered by the running agent task (on `AgentCtl::Register(i)`), not during initialisation.
    pub dynamic: Vec<bool>,
    /// Planned misbehaviour of lane `i` in its initialisation handshake.
    pub faults: Vec<Option<InitFault>>,
    /// Store items, how each is requested (by the running agent / during initialisation) and its planned misbehaviour.
    pub stores: Vec<StoreSpec>,
    pub store_dynamic: Vec<bool>,
    pub store_faults: Vec<Option<InitFault>>,
    /// The runtime's item initialisation time-out (how long a silent item holds on).
    pub hold_ms: u64,
    pub shared: Arc<AgentShared>,
    /// Taken by the (single) run of the agent.
    pub ctl: Mutex<Option<Controls>>,
    pub jitter: Mutex<Option<(Rng, u64)>>,
}

#[derive(Debug)]
struct ScriptedFailure;

impl std::fmt::Display for ScriptedFailure {
    fn fmt(&self, f: &mut std::fmt::Formatter<'_>) -> std::fmt::Result {
        write!(f, "scripted agent failure")
    }
}

impl std::error::Error for ScriptedFailure {}

fn lane_config(spec: &LaneSpec) -> LaneConfig {
    LaneConfig { input_buffer_size: nz(spec.in_buf), output_buffer_size: nz(spec.out_buf), transient: spec.transient }
}

fn store_kind(kind: Kind) -> StoreKind {
    match kind {
        Kind::Value => StoreKind::Value,
        Kind::Map => StoreKind::Map,
    }
}

fn warp(kind: Kind) -> WarpLaneKind {
    match kind {
        Kind::Value => WarpLaneKind::Value,
        Kind::Map => WarpLaneKind::Map,
    }
}

impl Agent for RawAgent {
    fn run(
        &self,
        _route: RouteUri,
        _route_params: HashMap<String, String>,
        _config: AgentConfig,
        context: Box<dyn AgentContext + Send>,
    ) -> BoxFuture<'static, AgentInitResult> {
        let specs = self.specs.clone();
        let dynamic = self.dynamic.clone();
        let faults = self.faults.clone();
        let stores = self.stores.clone();
        let store_dynamic = self.store_dynamic.clone();
        let store_faults = self.store_faults.clone();
        let hold_ms = self.hold_ms;
        let shared = self.shared.clone();
        let taken = self.ctl.lock().take();
        let jitter = self.jitter.lock().take();
        async move {
            let Some(Controls { lane_ctl, store_ctl, mut agent_ctl, mut return_rx }) = taken else {
                return Err(AgentInitError::FailedToStart);
            };
            let mut lane_ctl: Vec<Option<mpsc::UnboundedReceiver<LaneCtl>>> = lane_ctl.into_iter().map(Some).collect();
            let mut store_ctl: Vec<Option<mpsc::UnboundedReceiver<LaneCtl>>> = store_ctl.into_iter().map(Some).collect();
            // Initialisation phase: the lanes that are not dynamic, in order.
            let mut lanes: FuturesUnordered<BoxFuture<'static, ()>> = FuturesUnordered::new();
            // Store items never end by themselves (the runtime does not talk to them after the
            // handshake): they are dropped with the agent task.
            let mut items: FuturesUnordered<BoxFuture<'static, ()>> = FuturesUnordered::new();
            for (idx, spec) in specs.iter().enumerate() {
                if dynamic[idx] {
                    continue;
                }
                let rec = shared.lanes[idx].clone();
                rec.lock().reg_requested = Some(ticket());
                let mut add = context.add_lane(&spec.name, warp(spec.kind), lane_config(spec));
                let Some(ctl) = lane_ctl[idx].take() else { continue };
                let fault = faults.get(idx).copied().flatten();
                if fault == Some(InitFault::DropPromise) {
                    // The request is sent, the answer is not waited for.
                    let _ = futures::poll!(&mut add);
                    drop(add);
                    rec.lock().fault_outcome = Some((ticket(), "registration future dropped after the request was sent".to_string()));
                    continue;
                }
                match register(add, spec.clone(), rec.clone(), ctl, fault, hold_ms).await {
                    Some(lane) => lanes.push(lane.run().boxed()),
                    None => {
                        let why = rec.lock().reg_error.clone().map(|(_, e)| e).unwrap_or_default();
                        *shared.init_error.lock() = Some(format!("lane {}: {why}", spec.name));
                        return Err(AgentInitError::FailedToStart);
                    }
                }
            }
            for (idx, spec) in stores.iter().enumerate() {
                if store_dynamic[idx] {
                    continue;
                }
                let rec = shared.stores[idx].clone();
                rec.lock().reg_requested = Some(ticket());
                let mut add = context.add_store(&spec.name, store_kind(spec.kind));
                let Some(ctl) = store_ctl[idx].take() else { continue };
                let fault = store_faults.get(idx).copied().flatten();
                if fault == Some(InitFault::DropPromise) {
                    let _ = futures::poll!(&mut add);
                    drop(add);
                    rec.lock().fault_outcome = Some((ticket(), "request future dropped after the request was sent".to_string()));
                    continue;
                }
                match open_store(add, spec.clone(), rec.clone(), ctl, fault, hold_ms).await {
                    Some(item) => items.push(item.run().boxed()),
                    None => {
                        // Without persistence the runtime answers "stores not supported": the agent
                        // goes on without the item (what `swimos_agent` does: the store runs transient).
                        if rec.lock().not_supported.is_some() {
                            continue;
                        }
                        let why = rec.lock().reg_error.clone().map(|(_, e)| e).unwrap_or_default();
                        *shared.init_error.lock() = Some(format!("store {}: {why}", spec.name));
                        return Err(AgentInitError::FailedToStart);
                    }
                }
            }
            let task = async move {
                // The context stays alive for as long as the agent runs: dropping it stops the runtime.
                let context = context;
                let mut ctl_open = true;
                let mut return_open = true;
                loop {
                    if !ctl_open && lanes.is_empty() {
                        // Nothing can be registered any more and every lane has ended (the runtime
                        // closed their channels): the agent is done.
                        return Ok(());
                    }
                    tokio::select! {
                        biased;
                        r = &mut return_rx, if return_open => {
                            match r {
                                Ok(ok) => {
                                    *shared.returned.lock() = Some((ticket(), ok));
                                    return if ok { Ok(()) } else { Err(AgentTaskError::UserCodeError(Box::new(ScriptedFailure))) };
                                }
                                Err(_) => return_open = false,
                            }
                        }
                        c = agent_ctl.recv(), if ctl_open => {
                            match c {
                                Some(AgentCtl::Register(idx)) => {
                                    let (Some(spec), Some(ctl)) = (specs.get(idx).cloned(), lane_ctl.get_mut(idx).and_then(|c| c.take())) else { continue };
                                    let rec = shared.lanes[idx].clone();
                                    rec.lock().reg_requested = Some(ticket());
                                    let mut add = context.add_lane(&spec.name, warp(spec.kind), lane_config(&spec));
                                    let fault = faults.get(idx).copied().flatten();
                                    if fault == Some(InitFault::DropPromise) {
                                        let _ = futures::poll!(&mut add);
                                        drop(add);
                                        rec.lock().fault_outcome = Some((ticket(), "registration future dropped after the request was sent".to_string()));
                                        continue;
                                    }
                                    // The new lane's registration and handshake run next to the lanes
                                    // that already exist (they keep being served meanwhile).
                                    lanes.push(async move {
                                        if let Some(lane) = register(add, spec, rec, ctl, fault, hold_ms).await {
                                            lane.run().await
                                        }
                                    }.boxed());
                                }
                                Some(AgentCtl::RegisterStore(idx)) => {
                                    let (Some(spec), Some(ctl)) = (stores.get(idx).cloned(), store_ctl.get_mut(idx).and_then(|c| c.take())) else { continue };
                                    let rec = shared.stores[idx].clone();
                                    rec.lock().reg_requested = Some(ticket());
                                    let mut add = context.add_store(&spec.name, store_kind(spec.kind));
                                    let fault = store_faults.get(idx).copied().flatten();
                                    if fault == Some(InitFault::DropPromise) {
                                        let _ = futures::poll!(&mut add);
                                        drop(add);
                                        rec.lock().fault_outcome = Some((ticket(), "request future dropped after the request was sent".to_string()));
                                        continue;
                                    }
                                    items.push(async move {
                                        if let Some(item) = open_store(add, spec, rec, ctl, fault, hold_ms).await {
                                            item.run().await
                                        }
                                    }.boxed());
                                }
                                None => ctl_open = false,
                            }
                        }
                        _ = lanes.next(), if !lanes.is_empty() => {}
                        _ = items.next(), if !items.is_empty() => {}
                    }
                }
            };
            let boxed: BoxFuture<'static, Result<(), AgentTaskError>> = match jitter {
                Some((rng, per_mille)) if per_mille > 0 => Jitter::new(task, rng, per_mille).boxed(),
                _ => task.boxed(),
            };
            Ok(boxed)
        }
        .boxed()
    }
}
