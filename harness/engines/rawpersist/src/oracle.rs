//! The C05 oracles over one incarnation (`Obs`). Everything is decided on tickets of the one global
//! clock, drawn at the boundaries: inside the store calls, when a remote has decoded a frame, when a
//! lane has read an initialisation message / adopted a state / handed a frame to its channel.
//!
//!  1. store-before-send: every event frame a remote received for a persistent lane is matched by
//!     the corresponding store operation on that lane's id with a smaller ticket, or shows a state
//!     the incarnation found in the store when it started.
//!  2. published-not-newer-than-stored, at every cut of the store log (a crash right before
//!     operation k): what remotes had received by then is not newer than the store's state.
//!  3. restart: the initialisation messages a persistent lane is handed at registration are exactly
//!     the store's state (either registration path); transient lanes are handed nothing.
//!  4. ids: asked for persistent lanes only; nothing is written under another id.
//!  5. the store is only handed what the lane published.
//!
//! Bodies are unique per case and so identify the change that produced them - except the *empty*
//! body (valid Recon: `()`, `None`, `Extant`), which one operation in ten carries. Frames and store
//! operations with an empty body are placed in the lane's history by `Placing` (below).

use std::collections::{BTreeMap, HashMap};

use bytes::Bytes;
use common::{json, CaseOut};
use swimos_agent_protocol::{peeling::extract_header, MapMessage};

use crate::lanes::{Emitted, InitItem, Kind, LaneRec, LaneSpec, Op};
use crate::plan::Ending;
use crate::remote::FrameKind;
use crate::run::{Obs, NODE};
use crate::store::{Op as StoreOp, State};

const PROP: &str = "C05";

pub fn facet(spec: &LaneSpec, dynamic: bool) -> String {
    format!("{}/{}/{}", spec.kind.name(), if dynamic { "dynamic" } else { "init" }, if spec.transient { "transient" } else { "persistent" })
}

fn trim(b: &[u8]) -> &[u8] {
    let mut s = b;
    while let [first, rest @ ..] = s {
        if first.is_ascii_whitespace() {
            s = rest;
        } else {
            break;
        }
    }
    while let [rest @ .., last] = s {
        if last.is_ascii_whitespace() {
            s = rest;
        } else {
            break;
        }
    }
    s
}

fn text(b: &[u8]) -> String {
    String::from_utf8_lossy(b).chars().take(40).collect()
}

/// What an event frame says, in the lane's own terms.
fn frame_op(kind: Kind, body: &Bytes) -> Option<Op> {
    match kind {
        Kind::Value => Some(Op::Set(Bytes::copy_from_slice(trim(body)))),
        Kind::Map => match extract_header(body).ok()? {
            MapMessage::Update { key, value } => Some(Op::Upd(Bytes::copy_from_slice(trim(&key)), Bytes::copy_from_slice(trim(&value)))),
            MapMessage::Remove { key } => Some(Op::Rem(Bytes::copy_from_slice(trim(&key)))),
            MapMessage::Clear => Some(Op::Clr),
            _ => None,
        },
    }
}

fn store_op_as_lane_op(op: &StoreOp) -> Option<(u64, Op)> {
    match op {
        StoreOp::PutValue { id, value } => Some((*id, Op::Set(Bytes::copy_from_slice(trim(value))))),
        StoreOp::UpdateMap { id, key, value } => Some((*id, Op::Upd(Bytes::copy_from_slice(trim(key)), Bytes::copy_from_slice(trim(value))))),
        StoreOp::RemoveMap { id, key } => Some((*id, Op::Rem(Bytes::copy_from_slice(trim(key))))),
        StoreOp::ClearMap { id } => Some((*id, Op::Clr)),
        StoreOp::DeleteValue { .. } => None,
    }
}

fn store_op_id(op: &StoreOp) -> u64 {
    match op {
        StoreOp::PutValue { id, .. } | StoreOp::DeleteValue { id } | StoreOp::UpdateMap { id, .. } | StoreOp::RemoveMap { id, .. } | StoreOp::ClearMap { id } => *id,
    }
}

#[derive(Default)]
pub struct Summary {
    pub frames_checked: u64,
    pub frames_transient: u64,
    pub store_ops: u64,
    pub cuts: u64,
    pub restored_nonempty: u64,
    pub violations: u64,
}

/// Position in the lane's history of the states a body stands for: 0 = the state the incarnation
/// started from (what the store held, or the default), i = after the i-th change of the lane.
struct History<'a> {
    spec: &'a LaneSpec,
    base_value: Option<Bytes>,
    base_map: BTreeMap<Bytes, Bytes>,
    hist: &'a [(u64, Op)],
}

impl<'a> History<'a> {
    fn value_idx(&self, body: &[u8]) -> Option<usize> {
        let start = self.base_value.as_ref().unwrap_or(&self.spec.default);
        if trim(start) == body {
            return Some(0);
        }
        self.hist.iter().position(|(_, op)| matches!(op, Op::Set(b) if trim(b) == body)).map(|p| p + 1)
    }

    fn entry_idx(&self, key: &[u8], value: &[u8]) -> Option<usize> {
        if self.base_map.get(key).map_or(false, |v| trim(v) == value) {
            return Some(0);
        }
        self.hist.iter().position(|(_, op)| matches!(op, Op::Upd(k, v) if trim(k) == key && trim(v) == value)).map(|p| p + 1)
    }

    /// First change (adopted before ticket `before`) that removes `key` / clears.
    fn first_removal(&self, key: Option<&[u8]>, before: u64) -> Option<usize> {
        self.hist
            .iter()
            .position(|(t, op)| {
                *t < before
                    && match (op, key) {
                        (Op::Rem(k), Some(key)) => trim(k) == key,
                        (Op::Clr, None) => true,
                        _ => false,
                    }
            })
            .map(|p| p + 1)
    }

    fn removed_after(&self, key: &[u8], idx: usize) -> bool {
        self.hist.iter().enumerate().any(|(p, (_, op))| p + 1 > idx && (matches!(op, Op::Clr) || matches!(op, Op::Rem(k) if trim(k) == key)))
    }
}

/// The sub-sequence a state-carrying operation belongs to: all sets of a value lane, all updates of
/// one key of a map lane. Within one such sequence the runtime keeps the order (the map
/// back-pressure queue replaces a pending operation of a key in place; across keys the order may change).
fn group(op: &Op) -> Option<Option<&Bytes>> {
    match op {
        Op::Set(_) => Some(None),
        Op::Upd(k, _) => Some(Some(k)),
        _ => None,
    }
}

fn has_empty_body(op: &Op) -> bool {
    matches!(op, Op::Set(b) | Op::Upd(_, b) if b.is_empty())
}

/// Places operations that have no identity of their own (empty body) in the lane's history.
///
/// The lane (harness code) records with every state-carrying frame it emits the history position
/// of the change that established the state shown (`Emit::idx`). What one remote receives for a
/// lane and key is a sub-sequence of those emissions (some are superseded under back-pressure), and
/// so are the store operations of the lane. Hence
///  * a frame is placed at the **earliest** emission it can be (greedy embedding of the session's
///    frames of that key, the frames with unique bodies anchoring it): a lower bound of what the
///    remote saw - the k-th `update(key, <empty>)` frame of a session is no older than the k-th
///    emission of that operation after the session's previous anchor;
///  * a store operation is placed at the **latest** emission it can be (the same embedding from
///    the end of the log): an upper bound of what the store was handed.
/// Both roundings are towards "no violation": the comparison of rule 2 stays sound.
struct Placing<'a> {
    /// State-carrying emissions of the lane in order: (ticket before the write, what, history position).
    emits: Vec<(u64, &'a Op, usize)>,
}

impl<'a> Placing<'a> {
    fn new(rec: &'a LaneRec) -> Self {
        let emits = rec
            .emitted
            .iter()
            .filter_map(|e| match &e.what {
                Emitted::Std(op) | Emitted::SyncEv(_, op) if group(op).is_some() => Some((e.t0, op, e.idx)),
                _ => None,
            })
            .collect();
        Placing { emits }
    }

    /// Lower bounds for the frames of one session (in the order received) that have an empty body:
    /// frame ticket -> history position.
    fn place_frames(&self, frames: &[(u64, Op)], into: &mut HashMap<u64, usize>) {
        let mut next: HashMap<Option<&Bytes>, usize> = HashMap::new();
        for (ft, op) in frames {
            let Some(g) = group(op) else { continue };
            let from = next.get(&g).copied().unwrap_or(0);
            for j in from..self.emits.len() {
                let (t0, eop, idx) = self.emits[j];
                if t0 >= *ft {
                    break;
                }
                if eop == op {
                    next.insert(g, j + 1);
                    if has_empty_body(op) {
                        into.insert(*ft, idx);
                    }
                    break;
                }
            }
        }
    }

    /// Upper bounds for the store operations of the lane (in log order): one entry per operation,
    /// `None` where the operation carries no state or matches no emission.
    fn place_store_ops(&self, ops: &[(u64, Op, usize)]) -> Vec<Option<usize>> {
        let mut res = vec![None; ops.len()];
        let mut end: HashMap<Option<&Bytes>, usize> = HashMap::new();
        for (i, (t, op, _)) in ops.iter().enumerate().rev() {
            let Some(g) = group(op) else { continue };
            let to = end.get(&g).copied().unwrap_or(self.emits.len());
            for j in (0..to).rev() {
                let (t0, eop, idx) = self.emits[j];
                if t0 < *t && eop == op {
                    end.insert(g, j);
                    res[i] = Some(idx);
                    break;
                }
            }
        }
        res
    }
}

enum Need {
    Value(usize),
    Upd(Bytes, usize),
    Rem(Bytes, usize),
    Clr(usize),
}

fn base_value(base: &State, name: &str) -> Option<Bytes> {
    base.value_of(name).map(|v| Bytes::copy_from_slice(trim(v)))
}

fn base_map(base: &State, name: &str) -> BTreeMap<Bytes, Bytes> {
    base.map_of(name).iter().map(|(k, v)| (Bytes::copy_from_slice(trim(k)), Bytes::copy_from_slice(trim(v)))).collect()
}

fn error_class(e: &str) -> &'static str {
    if e.contains("Restoring the state") {
        "restoration"
    } else if e.contains("Persisting a change") {
        "persistence"
    } else if e.contains("Failed to initialize agent") {
        "agent-init"
    } else if e.contains("The agent task failed") {
        "agent-task"
    } else if e.contains("panicked") {
        "panic"
    } else {
        "other"
    }
}

pub fn check(obs: &Obs, out: &mut CaseOut) -> Summary {
    let mut sum = Summary::default();
    let plan = &obs.plan;
    let n_lanes = plan.lanes.len();
    let facets: Vec<String> = (0..n_lanes).map(|l| facet(&plan.lanes[l], plan.dynamic[l])).collect();
    let lane_by_name: HashMap<&str, usize> = plan.lanes.iter().enumerate().map(|(i, s)| (s.name.as_str(), i)).collect();
    let ids = &obs.final_state.ids;
    let lane_by_id: HashMap<u64, usize> = ids.iter().filter_map(|(name, id)| lane_by_name.get(name.as_str()).map(|l| (*id, *l))).collect();
    // Store items (parts `stores`, `init-faults`): their names and ids are judged by `oracle_ext`.
    let is_store_item = |name: &str| plan.stores.iter().any(|s| s.name == name);
    let store_item_ids: Vec<u64> = ids.iter().filter(|(name, _)| is_store_item(name.as_str())).map(|(_, id)| *id).collect();
    let gen = plan.incarnation;
    let before = out.violations.len();

    // ---- how the incarnation ended -----------------------------------------------------------
    if let Some(Err(e)) = &obs.agent_result {
        // Expected failures: the scripted failure of the agent's own task, and the runtime giving up
        // after the store refused an operation (fault injection).
        let expected = (plan.ending == Ending::Return(false) && error_class(e) == "agent-task")
            || (!obs.refused.is_empty() && error_class(e) == "persistence")
            // a lane whose stored state cannot be read must not come up: the runtime gives up (during
            // initialisation: restoration / agent initialisation failure)
            || (!obs.read_refused.is_empty() && matches!(error_class(e), "restoration" | "agent-init" | "persistence" | "other"))
            // (extension parts) an item that misbehaves in the handshake of the initialisation phase, or
            // whose identifier the store refuses: the agent does not start / the runtime gives up
            || (plan.has_init_phase_fault() && matches!(error_class(e), "restoration" | "agent-init"))
            || (!obs.id_refused.is_empty() && matches!(error_class(e), "restoration" | "agent-init" | "persistence"));
        if !expected {
            out.violation(
                PROP,
                format!("agent-failed/{}", error_class(e)),
                "the runtime hosting the agent ended with an error (a restart against the surviving store must bring the agent back)",
                json!({"error": e, "init_error": obs.init_error, "incarnation": gen, "ending": plan.ending.name(), "probe": plan.probe}),
            );
        }
    }

    // ---- 4. ids -------------------------------------------------------------------------------
    for (t, name) in &obs.id_requests {
        match lane_by_name.get(name.as_str()) {
            Some(l) if plan.lanes[*l].transient => out.violation(
                PROP,
                format!("transient-lane-asked-store-id/{}", facets[*l]),
                "the store was asked for the identifier of a transient lane",
                json!({"lane": name, "ticket": t, "incarnation": gen}),
            ),
            Some(_) => {}
            None if is_store_item(name.as_str()) => {}
            None => out.violation(PROP, "store-id-for-unknown-name", "the store was asked for the identifier of a name that is not a lane of the agent", json!({"name": name, "ticket": t})),
        }
    }
    for l in 0..n_lanes {
        let spec = &plan.lanes[l];
        if !spec.transient && obs.lanes[l].init_complete.is_some() && !obs.id_requests.iter().any(|(_, n)| *n == spec.name) {
            out.violation(
                PROP,
                format!("store-id-not-requested/{}", facets[l]),
                "a persistent lane was initialised without the store having been asked for its identifier",
                json!({"lane": spec.name, "incarnation": gen}),
            );
        }
    }
    // Store operations per lane: (ticket, operation in the lane's terms, index in the log).
    let mut ops_of: Vec<Vec<(u64, Op, usize)>> = vec![vec![]; n_lanes];
    for (log_idx, (t, op)) in obs.log.iter().enumerate() {
        let id = store_op_id(op);
        match lane_by_id.get(&id) {
            None if store_item_ids.contains(&id) => {}
            None => out.violation(PROP, "store-op-unknown-id", "a store operation used an identifier the store never gave to a lane of this agent", json!({"op": format!("{op:?}"), "ticket": t})),
            Some(l) => {
                let spec = &plan.lanes[*l];
                if spec.transient {
                    out.violation(
                        PROP,
                        format!("transient-lane-written/{}", facets[*l]),
                        "a store operation was issued with the identifier of a transient lane",
                        json!({"lane": spec.name, "op": format!("{op:?}"), "ticket": t, "incarnation": gen}),
                    );
                    continue;
                }
                let Some((_, lop)) = store_op_as_lane_op(op) else { continue };
                let kind_ok = matches!((spec.kind, &lop), (Kind::Value, Op::Set(_)) | (Kind::Map, Op::Upd(..) | Op::Rem(_) | Op::Clr));
                if !kind_ok {
                    out.violation(
                        PROP,
                        format!("store-op-wrong-kind/{}", facets[*l]),
                        "a value operation was issued for a map lane's identifier or the reverse",
                        json!({"lane": spec.name, "op": format!("{op:?}"), "ticket": t}),
                    );
                    continue;
                }
                ops_of[*l].push((*t, lop, log_idx));
            }
        }
    }
    sum.store_ops = obs.log.len() as u64;

    // ---- 5. the store is only handed what the lane published ------------------------------------
    for l in 0..n_lanes {
        let rec = &obs.lanes[l];
        for (t, lop, _) in &ops_of[l] {
            let published = rec.emitted.iter().any(|e| {
                e.t0 < *t
                    && match &e.what {
                        Emitted::Std(op) | Emitted::SyncEv(_, op) => op == lop,
                        _ => false,
                    }
            });
            if !published {
                out.violation(
                    PROP,
                    format!("stored-not-published-by-lane/{}", facets[l]),
                    "the store was handed a state / operation that the lane had not emitted before",
                    json!({"lane": plan.lanes[l].name, "op": format!("{lop:?}"), "ticket": t, "incarnation": gen}),
                );
                break;
            }
        }
    }

    // ---- frames, per lane -----------------------------------------------------------------------
    let placing: Vec<Placing> = obs.lanes.iter().map(Placing::new).collect();
    let mut frames_of: Vec<Vec<(u64, Op)>> = vec![vec![]; n_lanes];
    // Lower bound of the history position shown by each frame with an empty body (by frame ticket).
    let mut frame_lb: HashMap<u64, usize> = HashMap::new();
    let mut unparsed = 0u64;
    let mut empty_frames = 0u64;
    for s in &obs.sessions {
        let mut of_session: Vec<Vec<(u64, Op)>> = vec![vec![]; n_lanes];
        for f in s.frames.iter().filter(|f| f.kind == FrameKind::Event && f.node == NODE) {
            let Some(l) = lane_by_name.get(f.lane.as_str()).copied() else { continue };
            match frame_op(plan.lanes[l].kind, &f.body) {
                Some(op) => {
                    if has_empty_body(&op) && !plan.lanes[l].transient {
                        empty_frames += 1;
                    }
                    of_session[l].push((f.ticket, op))
                }
                None => unparsed += 1,
            }
        }
        for l in 0..n_lanes {
            if !plan.lanes[l].transient {
                placing[l].place_frames(&of_session[l], &mut frame_lb);
            }
            frames_of[l].append(&mut of_session[l]);
        }
    }
    out.add("frames-unparsed", unparsed);
    out.add("frames-with-empty-body", empty_frames);
    out.add("frames-with-empty-body-placed", frame_lb.len() as u64);
    // Upper bound of the history position handed over by each store operation (by index in the log).
    let mut store_ub: HashMap<usize, Option<usize>> = HashMap::new();
    for l in 0..n_lanes {
        if plan.lanes[l].transient {
            continue;
        }
        let ub = placing[l].place_store_ops(&ops_of[l]);
        for ((_, op, log_idx), ub) in ops_of[l].iter().zip(ub) {
            store_ub.insert(*log_idx, ub);
            if has_empty_body(op) {
                out.count(if ub.is_some() { "store-ops-with-empty-body-placed" } else { "store-ops-with-empty-body-unplaced" });
            }
        }
    }
    for fs in frames_of.iter_mut() {
        fs.sort_by_key(|(t, _)| *t);
    }

    // ---- 1. store-before-send ---------------------------------------------------------------------
    for l in 0..n_lanes {
        let spec = &plan.lanes[l];
        if spec.transient {
            sum.frames_transient += frames_of[l].len() as u64;
            out.add(&format!("frames/{}", facets[l]), frames_of[l].len() as u64);
            continue;
        }
        let bv = base_value(&obs.base, &spec.name);
        let bm = base_map(&obs.base, &spec.name);
        let mut default_frames = 0;
        let mut restored_frames = 0;
        let mut reported = false;
        for (ft, fop) in &frames_of[l] {
            sum.frames_checked += 1;
            let empty = has_empty_body(fop);
            // An empty body is matched by an earlier store operation with the same (key and) empty
            // body that can stand for a state at least as new as the one the frame shows.
            let lb = if empty { frame_lb.get(ft).copied() } else { None };
            let stored_before = ops_of[l].iter().any(|(t, op, log_idx)| {
                t < ft
                    && op == fop
                    && match (lb, store_ub.get(log_idx).copied().flatten()) {
                        (Some(lb), Some(ub)) => ub >= lb,
                        _ => true,
                    }
            });
            let from_base = lb.map_or(true, |lb| lb == 0);
            let ok = stored_before
                || match fop {
                    Op::Set(_) | Op::Upd(..) if !from_base => false,
                    Op::Set(b) => {
                        if bv.as_ref() == Some(b) {
                            restored_frames += 1;
                            true
                        } else if bv.is_none() && trim(&spec.default) == &b[..] {
                            // The default of a lane that has nothing in the store: a restart brings back
                            // exactly this state whether or not it was handed over.
                            default_frames += 1;
                            true
                        } else {
                            false
                        }
                    }
                    Op::Upd(k, v) => {
                        if bm.get(k) == Some(v) {
                            restored_frames += 1;
                            true
                        } else {
                            false
                        }
                    }
                    Op::Rem(_) | Op::Clr => false,
                };
            if !ok && !reported {
                reported = true;
                // An equal operation was stored earlier, but it stands for an older state of the key
                // than the frame shows (only possible with an empty body).
                let older_equal_stored = ops_of[l].iter().any(|(t, op, _)| t < ft && op == fop);
                if older_equal_stored {
                    out.count("published-not-stored/decided-by-position-of-empty-body");
                }
                let later = ops_of[l].iter().find(|(t, op, _)| t > ft && op == fop).map(|(t, _, _)| *t);
                out.violation(
                    PROP,
                    format!("published-not-stored/{}{}", facets[l], if empty { "/empty-body" } else { "" }),
                    "a remote received a state of a persistent lane that had not been handed to the store before (and that the store did not hold when the agent started)",
                    json!({
                        "lane": spec.name, "frame": format!("{fop:?}"), "frame_ticket": ft, "same_op_stored_later_at_ticket": later, "shows_history_position_at_least": lb, "equal_op_for_an_older_state_stored_before": older_equal_stored,
                        "store_ops_of_lane": ops_of[l].len(), "incarnation": gen, "ending": plan.ending.name(), "probe": plan.probe,
                        "lane_store_id": ids.get(&spec.name),
                    }),
                );
            }
        }
        out.add(&format!("frames/{}", facets[l]), frames_of[l].len() as u64);
        out.add("frames-default-state", default_frames);
        out.add("frames-restored-state", restored_frames);
    }

    // ---- 2. every cut of the store log ----------------------------------------------------------------
    let n = obs.log.len();
    for l in 0..n_lanes {
        let spec = &plan.lanes[l];
        if spec.transient || frames_of[l].is_empty() {
            continue;
        }
        let h = History { spec, base_value: base_value(&obs.base, &spec.name), base_map: base_map(&obs.base, &spec.name), hist: &obs.lanes[l].hist };
        // What each frame commits the store to. (A frame with an empty body: the lower bound of `Placing`.)
        let needs: Vec<(u64, Need, bool)> = frames_of[l]
            .iter()
            .filter_map(|(ft, fop)| {
                let empty = has_empty_body(fop);
                let need = match fop {
                    Op::Set(_) if empty => Need::Value(*frame_lb.get(ft)?),
                    Op::Upd(k, _) if empty => Need::Upd(k.clone(), *frame_lb.get(ft)?),
                    Op::Set(b) => Need::Value(h.value_idx(b)?),
                    Op::Upd(k, v) => Need::Upd(k.clone(), h.entry_idx(k, v)?),
                    Op::Rem(k) => Need::Rem(k.clone(), h.first_removal(Some(k), *ft)?),
                    Op::Clr => Need::Clr(h.first_removal(None, *ft)?),
                };
                Some((*ft, need, empty))
            })
            .collect();
        out.add("frames-not-in-lane-history", (frames_of[l].len() - needs.len()) as u64);
        let id = ids.get(&spec.name).copied();
        // Store state of this lane, advanced operation by operation: the body and the history
        // position it stands for (None: unknown - never held against the runtime). A unique body is
        // its own position; an empty one has the upper bound of `Placing`; what the incarnation
        // found in the store is position 0.
        let mut value: Option<(Bytes, Option<usize>)> = h.base_value.clone().map(|v| {
            let i = if v.is_empty() { Some(0) } else { h.value_idx(&v) };
            (v, i)
        });
        let mut map: BTreeMap<Bytes, (Bytes, Option<usize>)> = h
            .base_map
            .iter()
            .map(|(k, v)| {
                let i = if v.is_empty() { Some(0) } else { h.entry_idx(k, v) };
                (k.clone(), (v.clone(), i))
            })
            .collect();
        let mut next_need = 0;
        // Per kind of commitment: (history position, frame ticket, the frame had an empty body).
        let mut need_value: Option<(usize, u64, bool)> = None;
        let mut need_upd: BTreeMap<Bytes, (usize, u64, bool)> = BTreeMap::new();
        let mut need_rem: BTreeMap<Bytes, (usize, u64)> = BTreeMap::new();
        let mut need_clr: Option<(usize, u64)> = None;
        'cuts: for k in 0..=n {
            if k > 0 {
                let (_, op) = &obs.log[k - 1];
                if Some(store_op_id(op)) == id {
                    let ub = store_ub.get(&(k - 1)).copied().flatten();
                    match op {
                        StoreOp::PutValue { value: v, .. } => {
                            let v = Bytes::copy_from_slice(trim(v));
                            let i = if v.is_empty() { ub } else { h.value_idx(&v) };
                            value = Some((v, i));
                        }
                        StoreOp::DeleteValue { .. } => value = None,
                        StoreOp::UpdateMap { key, value: v, .. } => {
                            let (key, v) = (Bytes::copy_from_slice(trim(key)), Bytes::copy_from_slice(trim(v)));
                            let i = if v.is_empty() { ub } else { h.entry_idx(&key, &v) };
                            map.insert(key, (v, i));
                        }
                        StoreOp::RemoveMap { key, .. } => {
                            map.remove(trim(key));
                        }
                        StoreOp::ClearMap { .. } => map.clear(),
                    }
                }
            }
            let t_next = if k < n { obs.log[k].0 } else { u64::MAX };
            // Frames received before the next store operation was issued.
            while next_need < needs.len() && needs[next_need].0 < t_next {
                let (ft, need, empty) = &needs[next_need];
                match need {
                    Need::Value(i) => {
                        if need_value.map_or(true, |(j, _, _)| *i > j) {
                            need_value = Some((*i, *ft, *empty));
                        }
                    }
                    Need::Upd(key, i) => {
                        if need_upd.get(key).map_or(true, |(j, _, _)| *i > *j) {
                            need_upd.insert(key.clone(), (*i, *ft, *empty));
                        }
                    }
                    Need::Rem(key, i) => {
                        if need_rem.get(key).map_or(true, |(j, _)| *i > *j) {
                            need_rem.insert(key.clone(), (*i, *ft));
                        }
                    }
                    Need::Clr(i) => {
                        if need_clr.map_or(true, |(j, _)| *i > j) {
                            need_clr = Some((*i, *ft));
                        }
                    }
                }
                next_need += 1;
            }
            sum.cuts += 1;
            // (why, frame ticket, an empty body is involved)
            let mut bad: Option<(String, u64, bool)> = None;
            match spec.kind {
                Kind::Value => {
                    if let Some((seen, ft, empty)) = need_value {
                        // Nothing stored: the lane comes back at its default, which is the oldest state
                        // only if the incarnation itself started from the default.
                        let stored: Option<i64> = match &value {
                            Some((_, i)) => i.map(|i| i as i64),
                            None => Some(if h.base_value.is_none() { 0 } else { -1 }),
                        };
                        if let Some(stored) = stored {
                            if stored < seen as i64 {
                                let holds_empty = value.as_ref().map_or(false, |(v, _)| v.is_empty());
                                bad = Some((
                                    format!("seen value #{seen} of the lane's history, store holds #{stored} ({:?})", value.as_ref().map(|(v, _)| text(v))),
                                    ft,
                                    empty || holds_empty,
                                ));
                            }
                        }
                    }
                }
                Kind::Map => {
                    for (key, (seen, ft, empty)) in &need_upd {
                        let ok = match map.get(key) {
                            Some((_, i)) => i.map_or(true, |i| i >= *seen),
                            None => h.removed_after(key, *seen),
                        };
                        if !ok {
                            let holds_empty = map.get(key).map_or(false, |(v, _)| v.is_empty());
                            bad = Some((
                                format!("seen entry {} -> change #{seen}, store holds {:?}", text(key), map.get(key).map(|(v, i)| (text(v), *i))),
                                *ft,
                                *empty || holds_empty,
                            ));
                            break;
                        }
                    }
                    if bad.is_none() {
                        for (key, (seen, ft)) in &need_rem {
                            if let Some((v, Some(i))) = map.get(key) {
                                if i <= seen {
                                    bad = Some((format!("seen removal of {} (change #{seen}), store still holds the entry of change #{i}", text(key)), *ft, v.is_empty()));
                                    break;
                                }
                            }
                        }
                    }
                    if bad.is_none() {
                        if let Some((seen, ft)) = need_clr {
                            for (key, (v, i)) in &map {
                                if let Some(i) = i {
                                    if *i <= seen {
                                        bad = Some((format!("seen clear (change #{seen}), store still holds {} of change #{i}", text(key)), ft, v.is_empty()));
                                        break;
                                    }
                                }
                            }
                        }
                    }
                }
            }
            if let Some((why, ft, empty)) = bad {
                out.violation(
                    PROP,
                    format!("published-newer-than-stored/{}{}", facets[l], if empty { "/empty-body" } else { "" }),
                    "a remote had already received a state of a persistent lane that the store, as it would survive a crash at this point, does not hold: a restart brings back something older than what a subscriber saw",
                    json!({
                        "lane": spec.name, "cut": k, "of": n, "final": k == n, "why": why, "frame_ticket": ft, "next_store_op_ticket": if k < n { Some(t_next) } else { None },
                        "incarnation": gen, "ending": plan.ending.name(), "crashed": obs.crashed, "probe": plan.probe,
                    }),
                );
                break 'cuts;
            }
        }
    }

    // ---- evidence: lane events that wake the write task from an outstanding stop vote --------------------
    // The write task's inactivity timer starts again with every frame of any lane and with every
    // link / unlink (or "lane not found") it is told about. A lane event that comes more than one
    // time-out after the last of those, and that the runtime still handles (stores / publishes),
    // found the write task with its stop vote cast and the vote incomplete (the read task was kept
    // awake by requests): it rescinds the vote. Rules 1 and 2 apply to it like to any other event.
    if let Some(t_ms) = plan.timeout_ms {
        let mut activity: Vec<(u64, tokio::time::Instant)> = vec![];
        for rec in &obs.lanes {
            activity.extend(rec.emitted.iter().map(|e| (e.t0, e.at)));
        }
        for s in &obs.sessions {
            for r in &s.reqs {
                let known = lane_by_name.contains_key(r.lane.as_str());
                let told = match r.kind {
                    crate::remote::ReqKind::Link | crate::remote::ReqKind::Unlink => true,
                    crate::remote::ReqKind::Sync => !known,
                    crate::remote::ReqKind::Command => false,
                };
                if told {
                    activity.push((r.t0, r.at));
                }
            }
        }
        activity.sort_by_key(|(t, _)| *t);
        let limit = std::time::Duration::from_millis(t_ms);
        for l in 0..n_lanes {
            let spec = &plan.lanes[l];
            for e in &obs.lanes[l].emitted {
                let Emitted::Std(op) = &e.what else { continue };
                let before = activity.partition_point(|(t, _)| *t < e.t0);
                if before == 0 {
                    continue;
                }
                if e.at.duration_since(activity[before - 1].1) <= limit {
                    continue;
                }
                out.count("lane-event-after-silence>timeout");
                if spec.transient {
                    continue;
                }
                let stored = ops_of[l].iter().any(|(t, sop, _)| *t > e.t0 && sop == op);
                let received = frames_of[l].iter().any(|(t, fop)| *t > e.t0 && fop == op);
                if stored || received {
                    // The agent stayed up: the event rescinded the write task's vote.
                    out.count("persistent-lane-event-rescinds-stop-vote");
                    out.count(&format!("persistent-lane-event-rescinds-stop-vote/timeout-{t_ms}ms"));
                    if received {
                        out.count("persistent-lane-event-rescinds-stop-vote/received-by-remote");
                    }
                    if has_empty_body(op) {
                        out.count("persistent-lane-event-rescinds-stop-vote/empty-body");
                    }
                }
            }
        }
    }

    // ---- 3. what the lanes were handed at registration ----------------------------------------------------
    for l in 0..n_lanes {
        let spec = &plan.lanes[l];
        let rec: &LaneRec = &obs.lanes[l];
        if rec.reg_io.is_none() && rec.reg_error.is_none() {
            continue;
        }
        if let Some((t, e)) = &rec.reg_error {
            // A registration that races with the end of the incarnation may fail; so does one that
            // comes after the runtime gave up because the store refused an operation.
            let runtime_gave_up = obs.refused.first().map_or(false, |(rt, _)| rt < t) || obs.read_refused.first().map_or(false, |(rt, _)| rt < t) || obs.id_refused.first().map_or(false, |(rt, _)| rt < t);
            // (extension part `init-faults`) a lane that misbehaves as planned is judged by `oracle_ext`.
            if plan.lane_faults[l].is_some() {
                continue;
            }
            // With a finite inactivity time-out the runtime may stop by itself in the middle of the
            // script: a registration that comes after that stop (or races with it) fails like one that races with the ending.
            // (Not before one time-out of virtual time has passed since the incarnation began.)
            let timed_out = match (plan.timeout_ms, rec.reg_error_at) {
                (Some(ms), Some(at)) => at.duration_since(obs.epoch) >= std::time::Duration::from_millis(ms),
                _ => false,
            };
            if *t < obs.ending_at && !runtime_gave_up && !timed_out && obs.agent_result.as_ref().map_or(true, |r| r.is_ok()) {
                out.violation(
                    PROP,
                    format!("lane-registration-failed/{}", facets[l]),
                    "a lane could not be registered / initialised while the agent was running",
                    json!({"lane": spec.name, "error": e, "incarnation": gen, "probe": plan.probe}),
                );
            }
            continue;
        }
        if spec.transient {
            if let Some((t, what)) = rec.stray.first() {
                out.violation(
                    PROP,
                    format!("transient-lane-handed-state/{}", facets[l]),
                    "a transient lane received an initialisation message or a command nobody sent",
                    json!({"lane": spec.name, "what": what, "ticket": t, "incarnation": gen}),
                );
            }
            continue;
        }
        if let Some((t, what)) = rec.stray.first() {
            out.violation(
                PROP,
                format!("unexpected-lane-request/{}", facets[l]),
                "a persistent lane received, after its initialisation, a command nobody sent or a second InitComplete",
                json!({"lane": spec.name, "what": what, "ticket": t, "incarnation": gen}),
            );
        }
        if rec.init_complete.is_none() {
            // The incarnation ended during the handshake.
            continue;
        }
        let (got, want): (Vec<String>, Vec<String>) = match spec.kind {
            Kind::Value => {
                let got = rec
                    .init_items
                    .iter()
                    .map(|(_, i)| match i {
                        InitItem::Value(b) => text(trim(b)),
                        other => format!("{other:?}"),
                    })
                    .collect();
                let want = base_value(&obs.base, &spec.name).iter().map(|b| text(b)).collect();
                (got, want)
            }
            Kind::Map => {
                let mut got: Vec<String> = rec
                    .init_items
                    .iter()
                    .map(|(_, i)| match i {
                        InitItem::Entry(k, v) => format!("{}={}", text(trim(k)), text(trim(v))),
                        other => format!("{other:?}"),
                    })
                    .collect();
                got.sort();
                let mut want: Vec<String> = base_map(&obs.base, &spec.name).iter().map(|(k, v)| format!("{}={}", text(k), text(v))).collect();
                want.sort();
                (got, want)
            }
        };
        out.events += 1 + got.len() as u64;
        if !want.is_empty() {
            sum.restored_nonempty += 1;
            out.count(&format!("restored-nonempty/{}", facets[l]));
        } else {
            out.count(&format!("restored-empty/{}", facets[l]));
        }
        if got != want {
            out.violation(
                PROP,
                format!("restored-differs/{}", facets[l]),
                "the state the runtime handed to a persistent lane at registration is not the state the store holds",
                json!({"lane": spec.name, "got": got, "want": want, "incarnation": gen, "probe": plan.probe}),
            );
        }
    }
    out.events += sum.frames_checked + sum.frames_transient + sum.store_ops;
    sum.violations = (out.violations.len() - before) as u64;
    sum
}
