//! The C05 oracles over one incarnation (`Obs`). Everything is decided on tickets of the one global
//! clock, drawn at the boundaries: inside the store calls, when a remote has decoded a frame, when a
//! lane has read an initialisation message / adopted a state / handed a frame to its channel.
//!
//!  1. store-before-send: every event frame a remote received for a persistent lane is matched by
//!     the corresponding store operation on that lane's id with a smaller ticket, or shows a state
//!     the incarnation found in the store when it started.
//!  2. published-not-newer-than-stored, at every cut of the store log (a crash right before
//!     operation k): what remotes had received by then is not newer than the store's state.
//!  3. restart: the initialisation messages a persistent lane is handed at registration are exactly
//!     the store's state (either registration path); transient lanes are handed nothing.
//!  4. ids: asked for persistent lanes only; nothing is written under another id.
//!  5. the store is only handed what the lane published.

use std::collections::{BTreeMap, HashMap};

use bytes::Bytes;
use common::{json, CaseOut};
use swimos_agent_protocol::{peeling::extract_header, MapMessage};

use crate::lanes::{Emitted, InitItem, Kind, LaneRec, LaneSpec, Op};
use crate::plan::Ending;
use crate::remote::FrameKind;
use crate::run::{Obs, NODE};
use crate::store::{Op as StoreOp, State};

const PROP: &str = "C05";

pub fn facet(spec: &LaneSpec, dynamic: bool) -> String {
    format!("{}/{}/{}", spec.kind.name(), if dynamic { "dynamic" } else { "init" }, if spec.transient { "transient" } else { "persistent" })
}

fn trim(b: &[u8]) -> &[u8] {
    let mut s = b;
    while let [first, rest @ ..] = s {
        if first.is_ascii_whitespace() {
            s = rest;
        } else {
            break;
        }
    }
    while let [rest @ .., last] = s {
        if last.is_ascii_whitespace() {
            s = rest;
        } else {
            break;
        }
    }
    s
}

fn text(b: &[u8]) -> String {
    String::from_utf8_lossy(b).chars().take(40).collect()
}

/// What an event frame says, in the lane's own terms.
fn frame_op(kind: Kind, body: &Bytes) -> Option<Op> {
    match kind {
        Kind::Value => Some(Op::Set(Bytes::copy_from_slice(trim(body)))),
        Kind::Map => match extract_header(body).ok()? {
            MapMessage::Update { key, value } => Some(Op::Upd(Bytes::copy_from_slice(trim(&key)), Bytes::copy_from_slice(trim(&value)))),
            MapMessage::Remove { key } => Some(Op::Rem(Bytes::copy_from_slice(trim(&key)))),
            MapMessage::Clear => Some(Op::Clr),
            _ => None,
        },
    }
}

fn store_op_as_lane_op(op: &StoreOp) -> Option<(u64, Op)> {
    match op {
        StoreOp::PutValue { id, value } => Some((*id, Op::Set(Bytes::copy_from_slice(trim(value))))),
        StoreOp::UpdateMap { id, key, value } => Some((*id, Op::Upd(Bytes::copy_from_slice(trim(key)), Bytes::copy_from_slice(trim(value))))),
        StoreOp::RemoveMap { id, key } => Some((*id, Op::Rem(Bytes::copy_from_slice(trim(key))))),
        StoreOp::ClearMap { id } => Some((*id, Op::Clr)),
        StoreOp::DeleteValue { .. } => None,
    }
}

fn store_op_id(op: &StoreOp) -> u64 {
    match op {
        StoreOp::PutValue { id, .. } | StoreOp::DeleteValue { id } | StoreOp::UpdateMap { id, .. } | StoreOp::RemoveMap { id, .. } | StoreOp::ClearMap { id } => *id,
    }
}

#[derive(Default)]
pub struct Summary {
    pub frames_checked: u64,
    pub frames_transient: u64,
    pub store_ops: u64,
    pub cuts: u64,
    pub restored_nonempty: u64,
    pub violations: u64,
}

/// Position in the lane's history of the states a body stands for: 0 = the state the incarnation
/// started from (what the store held, or the default), i = after the i-th change of the lane.
struct History<'a> {
    spec: &'a LaneSpec,
    base_value: Option<Bytes>,
    base_map: BTreeMap<Bytes, Bytes>,
    hist: &'a [(u64, Op)],
}

impl<'a> History<'a> {
    fn value_idx(&self, body: &[u8]) -> Option<usize> {
        let start = self.base_value.as_ref().unwrap_or(&self.spec.default);
        if trim(start) == body {
            return Some(0);
        }
        self.hist.iter().position(|(_, op)| matches!(op, Op::Set(b) if trim(b) == body)).map(|p| p + 1)
    }

    fn entry_idx(&self, key: &[u8], value: &[u8]) -> Option<usize> {
        if self.base_map.get(key).map_or(false, |v| trim(v) == value) {
            return Some(0);
        }
        self.hist.iter().position(|(_, op)| matches!(op, Op::Upd(k, v) if trim(k) == key && trim(v) == value)).map(|p| p + 1)
    }

    /// First change (adopted before ticket `before`) that removes `key` / clears.
    fn first_removal(&self, key: Option<&[u8]>, before: u64) -> Option<usize> {
        self.hist
            .iter()
            .position(|(t, op)| {
                *t < before
                    && match (op, key) {
                        (Op::Rem(k), Some(key)) => trim(k) == key,
                        (Op::Clr, None) => true,
                        _ => false,
                    }
            })
            .map(|p| p + 1)
    }

    fn removed_after(&self, key: &[u8], idx: usize) -> bool {
        self.hist.iter().enumerate().any(|(p, (_, op))| p + 1 > idx && (matches!(op, Op::Clr) || matches!(op, Op::Rem(k) if trim(k) == key)))
    }
}

enum Need {
    Value(usize),
    Upd(Bytes, usize),
    Rem(Bytes, usize),
    Clr(usize),
}

fn base_value(base: &State, name: &str) -> Option<Bytes> {
    base.value_of(name).map(|v| Bytes::copy_from_slice(trim(v)))
}

fn base_map(base: &State, name: &str) -> BTreeMap<Bytes, Bytes> {
    base.map_of(name).iter().map(|(k, v)| (Bytes::copy_from_slice(trim(k)), Bytes::copy_from_slice(trim(v)))).collect()
}

fn error_class(e: &str) -> &'static str {
    if e.contains("Restoring the state") {
        "restoration"
    } else if e.contains("Persisting a change") {
        "persistence"
    } else if e.contains("Failed to initialize agent") {
        "agent-init"
    } else if e.contains("The agent task failed") {
        "agent-task"
    } else if e.contains("panicked") {
        "panic"
    } else {
        "other"
    }
}

pub fn check(obs: &Obs, out: &mut CaseOut) -> Summary {
    let mut sum = Summary::default();
    let plan = &obs.plan;
    let n_lanes = plan.lanes.len();
    let facets: Vec<String> = (0..n_lanes).map(|l| facet(&plan.lanes[l], plan.dynamic[l])).collect();
    let lane_by_name: HashMap<&str, usize> = plan.lanes.iter().enumerate().map(|(i, s)| (s.name.as_str(), i)).collect();
    let ids = &obs.final_state.ids;
    let lane_by_id: HashMap<u64, usize> = ids.iter().filter_map(|(name, id)| lane_by_name.get(name.as_str()).map(|l| (*id, *l))).collect();
    let gen = plan.incarnation;
    let before = out.violations.len();

    // ---- how the incarnation ended -----------------------------------------------------------
    if let Some(Err(e)) = &obs.agent_result {
        // Expected failures: the scripted failure of the agent's own task, and the runtime giving up
        // after the store refused an operation (fault injection).
        let expected = (plan.ending == Ending::Return(false) && error_class(e) == "agent-task")
            || (!obs.refused.is_empty() && error_class(e) == "persistence")
            // a lane whose stored state cannot be read must not come up: the runtime gives up (during
            // initialisation: restoration / agent initialisation failure)
            || (!obs.read_refused.is_empty() && matches!(error_class(e), "restoration" | "agent-init" | "persistence" | "other"));
        if !expected {
            out.violation(
                PROP,
                format!("agent-failed/{}", error_class(e)),
                "the runtime hosting the agent ended with an error (a restart against the surviving store must bring the agent back)",
                json!({"error": e, "init_error": obs.init_error, "incarnation": gen, "ending": plan.ending.name(), "probe": plan.probe}),
            );
        }
    }

    // ---- 4. ids -------------------------------------------------------------------------------
    for (t, name) in &obs.id_requests {
        match lane_by_name.get(name.as_str()) {
            Some(l) if plan.lanes[*l].transient => out.violation(
                PROP,
                format!("transient-lane-asked-store-id/{}", facets[*l]),
                "the store was asked for the identifier of a transient lane",
                json!({"lane": name, "ticket": t, "incarnation": gen}),
            ),
            Some(_) => {}
            None => out.violation(PROP, "store-id-for-unknown-name", "the store was asked for the identifier of a name that is not a lane of the agent", json!({"name": name, "ticket": t})),
        }
    }
    for l in 0..n_lanes {
        let spec = &plan.lanes[l];
        if !spec.transient && obs.lanes[l].init_complete.is_some() && !obs.id_requests.iter().any(|(_, n)| *n == spec.name) {
            out.violation(
                PROP,
                format!("store-id-not-requested/{}", facets[l]),
                "a persistent lane was initialised without the store having been asked for its identifier",
                json!({"lane": spec.name, "incarnation": gen}),
            );
        }
    }
    let mut ops_of: Vec<Vec<(u64, Op)>> = vec![vec![]; n_lanes];
    for (t, op) in &obs.log {
        let id = store_op_id(op);
        match lane_by_id.get(&id) {
            None => out.violation(PROP, "store-op-unknown-id", "a store operation used an identifier the store never gave to a lane of this agent", json!({"op": format!("{op:?}"), "ticket": t})),
            Some(l) => {
                let spec = &plan.lanes[*l];
                if spec.transient {
                    out.violation(
                        PROP,
                        format!("transient-lane-written/{}", facets[*l]),
                        "a store operation was issued with the identifier of a transient lane",
                        json!({"lane": spec.name, "op": format!("{op:?}"), "ticket": t, "incarnation": gen}),
                    );
                    continue;
                }
                let Some((_, lop)) = store_op_as_lane_op(op) else { continue };
                let kind_ok = matches!((spec.kind, &lop), (Kind::Value, Op::Set(_)) | (Kind::Map, Op::Upd(..) | Op::Rem(_) | Op::Clr));
                if !kind_ok {
                    out.violation(
                        PROP,
                        format!("store-op-wrong-kind/{}", facets[*l]),
                        "a value operation was issued for a map lane's identifier or the reverse",
                        json!({"lane": spec.name, "op": format!("{op:?}"), "ticket": t}),
                    );
                    continue;
                }
                ops_of[*l].push((*t, lop));
            }
        }
    }
    sum.store_ops = obs.log.len() as u64;

    // ---- 5. the store is only handed what the lane published ------------------------------------
    for l in 0..n_lanes {
        let rec = &obs.lanes[l];
        for (t, lop) in &ops_of[l] {
            let published = rec.emitted.iter().any(|e| {
                e.t0 < *t
                    && match &e.what {
                        Emitted::Std(op) | Emitted::SyncEv(_, op) => op == lop,
                        _ => false,
                    }
            });
            if !published {
                out.violation(
                    PROP,
                    format!("stored-not-published-by-lane/{}", facets[l]),
                    "the store was handed a state / operation that the lane had not emitted before",
                    json!({"lane": plan.lanes[l].name, "op": format!("{lop:?}"), "ticket": t, "incarnation": gen}),
                );
                break;
            }
        }
    }

    // ---- frames, per lane -----------------------------------------------------------------------
    let mut frames_of: Vec<Vec<(u64, Op)>> = vec![vec![]; n_lanes];
    let mut unparsed = 0u64;
    for s in &obs.sessions {
        for f in s.frames.iter().filter(|f| f.kind == FrameKind::Event && f.node == NODE) {
            let Some(l) = lane_by_name.get(f.lane.as_str()).copied() else { continue };
            match frame_op(plan.lanes[l].kind, &f.body) {
                Some(op) => frames_of[l].push((f.ticket, op)),
                None => unparsed += 1,
            }
        }
    }
    out.add("frames-unparsed", unparsed);
    for fs in frames_of.iter_mut() {
        fs.sort_by_key(|(t, _)| *t);
    }

    // ---- 1. store-before-send ---------------------------------------------------------------------
    for l in 0..n_lanes {
        let spec = &plan.lanes[l];
        if spec.transient {
            sum.frames_transient += frames_of[l].len() as u64;
            out.add(&format!("frames/{}", facets[l]), frames_of[l].len() as u64);
            continue;
        }
        let bv = base_value(&obs.base, &spec.name);
        let bm = base_map(&obs.base, &spec.name);
        let mut default_frames = 0;
        let mut restored_frames = 0;
        let mut reported = false;
        for (ft, fop) in &frames_of[l] {
            sum.frames_checked += 1;
            let stored_before = ops_of[l].iter().any(|(t, op)| t < ft && op == fop);
            let ok = stored_before
                || match fop {
                    Op::Set(b) => {
                        if bv.as_ref() == Some(b) {
                            restored_frames += 1;
                            true
                        } else if bv.is_none() && trim(&spec.default) == &b[..] {
                            // The default of a lane that has nothing in the store: a restart brings back
                            // exactly this state whether or not it was handed over.
                            default_frames += 1;
                            true
                        } else {
                            false
                        }
                    }
                    Op::Upd(k, v) => {
                        if bm.get(k) == Some(v) {
                            restored_frames += 1;
                            true
                        } else {
                            false
                        }
                    }
                    Op::Rem(_) | Op::Clr => false,
                };
            if !ok && !reported {
                reported = true;
                let later = ops_of[l].iter().find(|(_, op)| op == fop).map(|(t, _)| *t);
                out.violation(
                    PROP,
                    format!("published-not-stored/{}", facets[l]),
                    "a remote received a state of a persistent lane that had not been handed to the store before (and that the store did not hold when the agent started)",
                    json!({
                        "lane": spec.name, "frame": format!("{fop:?}"), "frame_ticket": ft, "same_op_stored_at_ticket": later,
                        "store_ops_of_lane": ops_of[l].len(), "incarnation": gen, "ending": plan.ending.name(), "probe": plan.probe,
                        "lane_store_id": ids.get(&spec.name),
                    }),
                );
            }
        }
        out.add(&format!("frames/{}", facets[l]), frames_of[l].len() as u64);
        out.add("frames-default-state", default_frames);
        out.add("frames-restored-state", restored_frames);
    }

    // ---- 2. every cut of the store log ----------------------------------------------------------------
    let n = obs.log.len();
    for l in 0..n_lanes {
        let spec = &plan.lanes[l];
        if spec.transient || frames_of[l].is_empty() {
            continue;
        }
        let h = History { spec, base_value: base_value(&obs.base, &spec.name), base_map: base_map(&obs.base, &spec.name), hist: &obs.lanes[l].hist };
        // What each frame commits the store to.
        let needs: Vec<(u64, Need)> = frames_of[l]
            .iter()
            .filter_map(|(ft, fop)| {
                let need = match fop {
                    Op::Set(b) => Need::Value(h.value_idx(b)?),
                    Op::Upd(k, v) => Need::Upd(k.clone(), h.entry_idx(k, v)?),
                    Op::Rem(k) => Need::Rem(k.clone(), h.first_removal(Some(k), *ft)?),
                    Op::Clr => Need::Clr(h.first_removal(None, *ft)?),
                };
                Some((*ft, need))
            })
            .collect();
        out.add("frames-not-in-lane-history", (frames_of[l].len() - needs.len()) as u64);
        let id = ids.get(&spec.name).copied();
        // Store state of this lane, advanced operation by operation.
        let mut value: Option<Bytes> = h.base_value.clone();
        let mut map: BTreeMap<Bytes, Bytes> = h.base_map.clone();
        let mut next_need = 0;
        let mut need_value: Option<(usize, u64)> = None;
        let mut need_upd: BTreeMap<Bytes, (usize, u64)> = BTreeMap::new();
        let mut need_rem: BTreeMap<Bytes, (usize, u64)> = BTreeMap::new();
        let mut need_clr: Option<(usize, u64)> = None;
        'cuts: for k in 0..=n {
            if k > 0 {
                let (_, op) = &obs.log[k - 1];
                if Some(store_op_id(op)) == id {
                    match op {
                        StoreOp::PutValue { value: v, .. } => value = Some(Bytes::copy_from_slice(trim(v))),
                        StoreOp::DeleteValue { .. } => value = None,
                        StoreOp::UpdateMap { key, value: v, .. } => {
                            map.insert(Bytes::copy_from_slice(trim(key)), Bytes::copy_from_slice(trim(v)));
                        }
                        StoreOp::RemoveMap { key, .. } => {
                            map.remove(trim(key));
                        }
                        StoreOp::ClearMap { .. } => map.clear(),
                    }
                }
            }
            let t_next = if k < n { obs.log[k].0 } else { u64::MAX };
            // Frames received before the next store operation was issued.
            while next_need < needs.len() && needs[next_need].0 < t_next {
                let (ft, need) = &needs[next_need];
                match need {
                    Need::Value(i) => {
                        if need_value.map_or(true, |(j, _)| *i > j) {
                            need_value = Some((*i, *ft));
                        }
                    }
                    Need::Upd(key, i) => {
                        if need_upd.get(key).map_or(true, |(j, _)| *i > *j) {
                            need_upd.insert(key.clone(), (*i, *ft));
                        }
                    }
                    Need::Rem(key, i) => {
                        if need_rem.get(key).map_or(true, |(j, _)| *i > *j) {
                            need_rem.insert(key.clone(), (*i, *ft));
                        }
                    }
                    Need::Clr(i) => {
                        if need_clr.map_or(true, |(j, _)| *i > j) {
                            need_clr = Some((*i, *ft));
                        }
                    }
                }
                next_need += 1;
            }
            sum.cuts += 1;
            let mut bad: Option<(String, u64)> = None;
            match spec.kind {
                Kind::Value => {
                    if let Some((seen, ft)) = need_value {
                        // Nothing stored: the lane comes back at its default, which is the oldest state
                        // only if the incarnation itself started from the default.
                        let stored: Option<i64> = match &value {
                            Some(v) => h.value_idx(v).map(|i| i as i64),
                            None => Some(if h.base_value.is_none() { 0 } else { -1 }),
                        };
                        if let Some(stored) = stored {
                            if stored < seen as i64 {
                                bad = Some((format!("seen value #{seen} of the lane's history, store holds #{stored} ({:?})", value.as_ref().map(|v| text(v))), ft));
                            }
                        }
                    }
                }
                Kind::Map => {
                    for (key, (seen, ft)) in &need_upd {
                        let ok = match map.get(key) {
                            Some(sv) => h.entry_idx(key, sv).map_or(true, |i| i >= *seen),
                            None => h.removed_after(key, *seen),
                        };
                        if !ok {
                            bad = Some((format!("seen entry {} -> change #{seen}, store holds {:?}", text(key), map.get(key).map(|v| text(v))), *ft));
                            break;
                        }
                    }
                    if bad.is_none() {
                        for (key, (seen, ft)) in &need_rem {
                            if let Some(i) = map.get(key).and_then(|sv| h.entry_idx(key, sv)) {
                                if i <= *seen {
                                    bad = Some((format!("seen removal of {} (change #{seen}), store still holds the entry of change #{i}", text(key)), *ft));
                                    break;
                                }
                            }
                        }
                    }
                    if bad.is_none() {
                        if let Some((seen, ft)) = need_clr {
                            for (key, sv) in &map {
                                if let Some(i) = h.entry_idx(key, sv) {
                                    if i <= seen {
                                        bad = Some((format!("seen clear (change #{seen}), store still holds {} of change #{i}", text(key)), ft));
                                        break;
                                    }
                                }
                            }
                        }
                    }
                }
            }
            if let Some((why, ft)) = bad {
                out.violation(
                    PROP,
                    format!("published-newer-than-stored/{}", facets[l]),
                    "a remote had already received a state of a persistent lane that the store, as it would survive a crash at this point, does not hold: a restart brings back something older than what a subscriber saw",
                    json!({
                        "lane": spec.name, "cut": k, "of": n, "final": k == n, "why": why, "frame_ticket": ft, "next_store_op_ticket": if k < n { Some(t_next) } else { None },
                        "incarnation": gen, "ending": plan.ending.name(), "crashed": obs.crashed, "probe": plan.probe,
                    }),
                );
                break 'cuts;
            }
        }
    }

    // ---- 3. what the lanes were handed at registration ----------------------------------------------------
    for l in 0..n_lanes {
        let spec = &plan.lanes[l];
        let rec: &LaneRec = &obs.lanes[l];
        if rec.reg_io.is_none() && rec.reg_error.is_none() {
            continue;
        }
        if let Some((t, e)) = &rec.reg_error {
            // A registration that races with the end of the incarnation may fail; so does one that
            // comes after the runtime gave up because the store refused an operation.
            let runtime_gave_up = obs.refused.first().map_or(false, |(rt, _)| rt < t) || obs.read_refused.first().map_or(false, |(rt, _)| rt < t);
            if *t < obs.ending_at && !runtime_gave_up && obs.agent_result.as_ref().map_or(true, |r| r.is_ok()) {
                out.violation(
                    PROP,
                    format!("lane-registration-failed/{}", facets[l]),
                    "a lane could not be registered / initialised while the agent was running",
                    json!({"lane": spec.name, "error": e, "incarnation": gen, "probe": plan.probe}),
                );
            }
            continue;
        }
        if spec.transient {
            if let Some((t, what)) = rec.stray.first() {
                out.violation(
                    PROP,
                    format!("transient-lane-handed-state/{}", facets[l]),
                    "a transient lane received an initialisation message or a command nobody sent",
                    json!({"lane": spec.name, "what": what, "ticket": t, "incarnation": gen}),
                );
            }
            continue;
        }
        if let Some((t, what)) = rec.stray.first() {
            out.violation(
                PROP,
                format!("unexpected-lane-request/{}", facets[l]),
                "a persistent lane received, after its initialisation, a command nobody sent or a second InitComplete",
                json!({"lane": spec.name, "what": what, "ticket": t, "incarnation": gen}),
            );
        }
        if rec.init_complete.is_none() {
            // The incarnation ended during the handshake.
            continue;
        }
        let (got, want): (Vec<String>, Vec<String>) = match spec.kind {
            Kind::Value => {
                let got = rec
                    .init_items
                    .iter()
                    .map(|(_, i)| match i {
                        InitItem::Value(b) => text(trim(b)),
                        other => format!("{other:?}"),
                    })
                    .collect();
                let want = base_value(&obs.base, &spec.name).iter().map(|b| text(b)).collect();
                (got, want)
            }
            Kind::Map => {
                let mut got: Vec<String> = rec
                    .init_items
                    .iter()
                    .map(|(_, i)| match i {
                        InitItem::Entry(k, v) => format!("{}={}", text(trim(k)), text(trim(v))),
                        other => format!("{other:?}"),
                    })
                    .collect();
                got.sort();
                let mut want: Vec<String> = base_map(&obs.base, &spec.name).iter().map(|(k, v)| format!("{}={}", text(k), text(v))).collect();
                want.sort();
                (got, want)
            }
        };
        out.events += 1 + got.len() as u64;
        if !want.is_empty() {
            sum.restored_nonempty += 1;
            out.count(&format!("restored-nonempty/{}", facets[l]));
        } else {
            out.count(&format!("restored-empty/{}", facets[l]));
        }
        if got != want {
            out.violation(
                PROP,
                format!("restored-differs/{}", facets[l]),
                "the state the runtime handed to a persistent lane at registration is not the state the store holds",
                json!({"lane": spec.name, "got": got, "want": want, "incarnation": gen, "probe": plan.probe}),
            );
        }
    }
    out.events += sum.frames_checked + sum.frames_transient + sum.store_ops;
    sum.violations = (out.violations.len() - before) as u64;
    sum
}
