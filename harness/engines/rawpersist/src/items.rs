//! Store items of the harness agent: requested with `AgentContext::add_store` (during the agent's
//! initialisation or by the running agent - `AgentRuntimeRequest::AddStore` ->
//! `WriteTaskMessage::Store`), they speak the raw store protocol: the runtime replays the stored
//! state (`StoreInitMessage::Command`*, `InitComplete`), the item answers `StoreInitialized`, and
//! from then on every change of the item is one `StoreResponse` frame that the runtime persists.
//! A store item has no remotes: what is judged is the store log against the item's writes and what
//! a later incarnation is handed.
//!
//! The record of an item has the shape of a lane's (`LaneRec`): registration, the initialisation
//! messages up to `InitComplete`, the acknowledgement, and every write (`Emitted::Std`).

use bytes::{BufMut, Bytes, BytesMut};
use common::ticket;
use futures::future::BoxFuture;
use futures::{SinkExt, StreamExt};
use swimos_agent_protocol::encoding::map::RawMapOperationEncoder;
use swimos_agent_protocol::encoding::store::{RawMapStoreInitDecoder, RawValueStoreInitDecoder};
use swimos_agent_protocol::{MapMessage, MapOperation, StoreInitMessage};
use swimos_api::error::OpenStoreError;
use swimos_utilities::byte_channel::{ByteReader, ByteWriter};
use tokio::io::AsyncWriteExt;
use tokio::sync::mpsc;
use tokio_util::codec::{Encoder, FramedRead, FramedWrite};

use crate::lanes::{Emit, Emitted, InitFault, InitItem, Kind, LaneCtl, Op, SharedLane};

#[derive(Clone, Debug)]
pub struct StoreSpec {
    pub name: String,
    /// The kind the item is requested with in *this* incarnation (the same name may have been a
    /// store of the other kind before: the store then holds state of both kinds under one id).
    pub kind: Kind,
}

/// Tags of the store protocol (swimos_agent_protocol keeps them private; the raw *decoders* of the
/// item -> runtime direction are public, the raw encoders are not, so the item frames its own).
const EVENT: u8 = 3;
const INITIALIZED: u8 = 5;

/// `StoreResponse` with a raw body: tag, then the body as the runtime's raw decoder expects it
/// (value: u64 length + bytes; map: the raw map operation encoding).
struct RawStoreResponseEncoder {
    map: RawMapOperationEncoder,
}

impl Encoder<&Op> for RawStoreResponseEncoder {
    type Error = std::io::Error;

    fn encode(&mut self, op: &Op, dst: &mut BytesMut) -> Result<(), Self::Error> {
        dst.put_u8(EVENT);
        match op {
            Op::Set(b) => {
                dst.put_u64(b.len() as u64);
                dst.put_slice(b);
                Ok(())
            }
            Op::Upd(k, v) => self.map.encode(MapOperation::Update { key: k.clone(), value: v.clone() }, dst),
            Op::Rem(k) => self.map.encode(MapOperation::<Bytes, Bytes>::Remove { key: k.clone() }, dst),
            Op::Clr => self.map.encode(MapOperation::<Bytes, Bytes>::Clear, dst),
        }
    }
}

enum Rd {
    Value(FramedRead<ByteReader, RawValueStoreInitDecoder>),
    Map(FramedRead<ByteReader, RawMapStoreInitDecoder>),
}

enum Msg {
    Item(InitItem),
    Complete,
    Bad(String),
}

impl Rd {
    async fn next(&mut self) -> Option<Msg> {
        match self {
            Rd::Value(r) => match r.next().await {
                None => None,
                Some(Err(e)) => Some(Msg::Bad(format!("{e:?}"))),
                Some(Ok(StoreInitMessage::Command(b))) => Some(Msg::Item(InitItem::Value(b.freeze()))),
                Some(Ok(StoreInitMessage::InitComplete)) => Some(Msg::Complete),
            },
            Rd::Map(r) => match r.next().await {
                None => None,
                Some(Err(e)) => Some(Msg::Bad(format!("{e:?}"))),
                Some(Ok(StoreInitMessage::Command(m))) => Some(Msg::Item(match m {
                    MapMessage::Update { key, value } => InitItem::Entry(key.freeze(), value.freeze()),
                    MapMessage::Remove { .. } => InitItem::Other("remove".into()),
                    MapMessage::Clear => InitItem::Other("clear".into()),
                    MapMessage::Take(_) => InitItem::Other("take".into()),
                    MapMessage::Drop(_) => InitItem::Other("drop".into()),
                })),
                Some(Ok(StoreInitMessage::InitComplete)) => Some(Msg::Complete),
            },
        }
    }
}

pub struct StoreItem {
    spec: StoreSpec,
    rec: SharedLane,
    wr: Option<FramedWrite<ByteWriter, RawStoreResponseEncoder>>,
    rd: Option<Rd>,
    ctl: mpsc::UnboundedReceiver<LaneCtl>,
}

impl StoreItem {
    fn fail(self, what: String, planned: bool) -> Option<StoreItem> {
        let t = ticket();
        let mut g = self.rec.lock();
        g.reg_error = Some((t, what.clone()));
        g.reg_error_at = Some(tokio::time::Instant::now());
        if planned {
            g.fault_outcome = Some((t, what));
        }
        drop(g);
        None
    }

    async fn await_close(&mut self) {
        while let Some(rd) = self.rd.as_mut() {
            match rd.next().await {
                None | Some(Msg::Bad(_)) => {
                    self.rec.lock().closed = Some(ticket());
                    self.rd = None;
                }
                Some(_) => self.rec.lock().stray.push((ticket(), "message during a failed handshake".to_string())),
            }
        }
    }

    /// One `StoreResponse` frame; recorded with the tickets before the write and after the channel
    /// accepted all of it.
    async fn write(&mut self, op: Op) {
        let Some(wr) = self.wr.as_mut() else { return };
        let idx = {
            let mut g = self.rec.lock();
            let n = g.hist.len() + 1;
            g.hist.push((ticket(), op.clone()));
            g.emitted.push(Emit { t0: ticket(), t1: None, what: Emitted::Std(op.clone()), idx: n, at: tokio::time::Instant::now() });
            g.emitted.len() - 1
        };
        let r = wr.send(&op).await;
        let mut g = self.rec.lock();
        match r {
            Ok(()) => g.emitted[idx].t1 = Some(ticket()),
            Err(_) => {
                g.write_error = Some(ticket());
                drop(g);
                self.wr = None;
            }
        }
    }

    pub async fn run(mut self) {
        // After the handshake the runtime sends nothing more (it drops its writer): the item lives
        // until the script ends (its control channel closes).
        while let Some(c) = self.ctl.recv().await {
            let LaneCtl::Apply { op, .. } = c;
            let fits = matches!((self.spec.kind, &op), (Kind::Value, Op::Set(_)) | (Kind::Map, Op::Upd(..) | Op::Rem(_) | Op::Clr));
            if fits {
                self.write(op).await;
            }
        }
    }
}

/// Requests the store item and performs the handshake. `None`: refused / failed (recorded), or the
/// item misbehaved as planned.
pub async fn open_store(
    add: BoxFuture<'static, Result<(ByteWriter, ByteReader), OpenStoreError>>,
    spec: StoreSpec,
    rec: SharedLane,
    ctl: mpsc::UnboundedReceiver<LaneCtl>,
    fault: Option<InitFault>,
    hold_ms: u64,
) -> Option<StoreItem> {
    let (tx, rx) = match add.await {
        Ok(io) => io,
        Err(e) => {
            let mut g = rec.lock();
            let t = ticket();
            if matches!(e, OpenStoreError::StoresNotSupported) {
                g.not_supported = Some(t);
            }
            g.reg_error = Some((t, format!("add_store: {e}")));
            g.reg_error_at = Some(tokio::time::Instant::now());
            return None;
        }
    };
    rec.lock().reg_io = Some(ticket());
    let rd = match spec.kind {
        Kind::Value => Rd::Value(FramedRead::new(rx, Default::default())),
        Kind::Map => Rd::Map(FramedRead::new(rx, Default::default())),
    };
    let wr = FramedWrite::new(tx, RawStoreResponseEncoder { map: Default::default() });
    let mut item = StoreItem { spec, rec, wr: Some(wr), rd: Some(rd), ctl };
    let planned = fault.is_some();
    if fault == Some(InitFault::NeverReads) {
        tokio::time::sleep(std::time::Duration::from_millis(2 * hold_ms + 1)).await;
    }
    let mut items = 0usize;
    loop {
        if let Some(InitFault::DropAfter(n)) = fault {
            if items >= n {
                return item.fail(format!("dropped both channels after {items} initialisation messages"), true);
            }
        }
        let m = item.rd.as_mut().expect("reader").next().await;
        let t = ticket();
        match m {
            Some(Msg::Complete) => {
                item.rec.lock().init_complete = Some(t);
                break;
            }
            Some(Msg::Item(i)) => {
                items += 1;
                item.rec.lock().init_items.push((t, i));
            }
            Some(Msg::Bad(e)) => return item.fail(format!("initialisation channel: decode error {e}"), false),
            None => return item.fail(format!("initialisation channel closed after {items} initialisation messages, before InitComplete"), planned),
        }
    }
    match fault {
        Some(InitFault::DropAfter(_)) | Some(InitFault::DropAtComplete) => return item.fail("dropped both channels after InitComplete".to_string(), true),
        Some(InitFault::DropWriterAtComplete) => {
            item.wr = None;
            item.await_close().await;
            return item.fail("dropped the writer after InitComplete".to_string(), true);
        }
        Some(InitFault::Mute) | Some(InitFault::NeverReads) => {
            item.await_close().await;
            return item.fail("never acknowledged".to_string(), true);
        }
        Some(InitFault::Garbage) => {
            let sent = match item.wr.as_mut() {
                Some(w) => w.get_mut().write_all(&[0x7f]).await.is_ok(),
                None => false,
            };
            item.await_close().await;
            return item.fail(format!("sent a byte that is not Initialized (accepted: {sent})"), true);
        }
        Some(InitFault::SlowAck(ms)) => tokio::time::sleep(std::time::Duration::from_millis(ms)).await,
        Some(InitFault::DropPromise) | Some(InitFault::IdError) | None => {}
    }
    // `StoreInitialized`: one tag byte.
    let t0 = ticket();
    let acked = match item.wr.as_mut() {
        Some(w) => w.get_mut().write_all(&[INITIALIZED]).await.is_ok(),
        None => false,
    };
    if !acked {
        return item.fail("could not acknowledge the initialisation (the runtime had closed the channel)".to_string(), planned);
    }
    {
        let mut g = item.rec.lock();
        g.emitted.push(Emit { t0, t1: Some(ticket()), what: Emitted::Initialized, idx: 0, at: tokio::time::Instant::now() });
        g.initialized_sent = Some(ticket());
        if planned {
            g.fault_outcome = Some((ticket(), "acknowledged".to_string()));
        }
    }
    Some(item)
}
