//! (Adapted from the `agent` engine.) A recording `NodePersistence` (public trait): every call is ticketed with the global clock and
//! applied to an in-memory state, so that (a) "handed to the store before sent" can be decided
//! against the remote-side frame log and (b) the store can be rebuilt at every cut point of the
//! operation log and a fresh agent instance started against it.

use std::collections::BTreeMap;
use std::sync::Arc;

use bytes::{BufMut, BytesMut};
use common::ticket;
use parking_lot::Mutex;
use swimos_api::error::StoreError;
use swimos_api::persistence::{KeyValue, NodePersistence, RangeConsumer};

#[derive(Clone, Debug, PartialEq, Eq)]
pub enum Op {
    PutValue { id: u64, value: Vec<u8> },
    DeleteValue { id: u64 },
    UpdateMap { id: u64, key: Vec<u8>, value: Vec<u8> },
    RemoveMap { id: u64, key: Vec<u8> },
    ClearMap { id: u64 },
}

#[derive(Clone, Debug, Default, PartialEq, Eq)]
pub struct State {
    pub ids: BTreeMap<String, u64>,
    pub values: BTreeMap<u64, Vec<u8>>,
    pub maps: BTreeMap<u64, BTreeMap<Vec<u8>, Vec<u8>>>,
}

impl State {
    pub fn apply(&mut self, op: &Op) {
        match op {
            Op::PutValue { id, value } => {
                self.values.insert(*id, value.clone());
            }
            Op::DeleteValue { id } => {
                self.values.remove(id);
            }
            Op::UpdateMap { id, key, value } => {
                self.maps.entry(*id).or_default().insert(key.clone(), value.clone());
            }
            Op::RemoveMap { id, key } => {
                if let Some(m) = self.maps.get_mut(id) {
                    m.remove(key);
                }
            }
            Op::ClearMap { id } => {
                self.maps.remove(id);
            }
        }
    }

    pub fn id(&self, name: &str) -> Option<u64> {
        self.ids.get(name).copied()
    }

    pub fn value_of(&self, name: &str) -> Option<&Vec<u8>> {
        self.values.get(&self.id(name)?)
    }

    pub fn map_of(&self, name: &str) -> BTreeMap<Vec<u8>, Vec<u8>> {
        self.id(name).and_then(|id| self.maps.get(&id)).cloned().unwrap_or_default()
    }
}

#[derive(Default)]
pub struct Inner {
    pub state: State,
    /// Mutating operations in call order: (ticket, op).
    pub log: Vec<(u64, Op)>,
    /// `id_for` calls: (ticket, name).
    pub id_requests: Vec<(u64, String)>,
    pub reads: u64,
    next_id: u64,
    /// Fault injection: the mutating call with this index (0-based, counted over all mutating calls)
    /// and every later one fail with an IO error and change nothing.
    pub fail_from: Option<usize>,
    mutating_calls: usize,
    /// The calls that were refused: (ticket, op).
    pub refused: Vec<(u64, Op)>,
    /// Fault injection: the read (get_value / read_map) with this index fails with an IO error; later reads work.
    pub read_fails_at: Option<usize>,
    /// The reads that were refused: (ticket, lane id).
    pub read_refused: Vec<(u64, u64)>,
    /// Degraded mode: `id_for` answers `StoreError::NoStoreAvailable` for every name (the request is
    /// still recorded); nothing else may be called then.
    pub no_ids: bool,
    /// Fault injection: `id_for` of this name fails with an IO error (every time).
    pub id_fails_for: Option<String>,
    /// The `id_for` calls that were refused: (ticket, name).
    pub id_refused: Vec<(u64, String)>,
    /// Fault injection: the n-th (1-based) `id_for` call for this name fails with an IO error, once;
    /// the calls before and after it are answered.
    pub id_fails_nth: Option<(String, usize)>,
    /// Number of `id_for` calls per name so far.
    pub id_calls: BTreeMap<String, usize>,
}

#[derive(Clone, Default)]
pub struct RecStore(pub Arc<Mutex<Inner>>);

impl RecStore {
    pub fn from_state(state: State) -> RecStore {
        let next_id = state.ids.values().copied().max().map_or(0, |m| m + 1);
        RecStore(Arc::new(Mutex::new(Inner { state, next_id, ..Default::default() })))
    }

    pub fn snapshot(&self) -> (State, Vec<(u64, Op)>, Vec<(u64, String)>) {
        let g = self.0.lock();
        (g.state.clone(), g.log.clone(), g.id_requests.clone())
    }

    fn record(&self, op: Op) -> Result<(), StoreError> {
        let mut g = self.0.lock();
        let t = ticket();
        let idx = g.mutating_calls;
        g.mutating_calls += 1;
        if g.fail_from.map_or(false, |f| idx >= f) {
            g.refused.push((t, op));
            return Err(StoreError::Io(std::io::Error::new(std::io::ErrorKind::Other, "injected store failure")));
        }
        g.state.apply(&op);
        g.log.push((t, op));
        Ok(())
    }
}

pub struct OwnedRange {
    entries: Vec<(Vec<u8>, Vec<u8>)>,
    next: usize,
}

impl RangeConsumer for OwnedRange {
    fn consume_next(&mut self) -> Result<Option<KeyValue<'_>>, StoreError> {
        let i = self.next;
        if i < self.entries.len() {
            self.next += 1;
            let (k, v) = &self.entries[i];
            Ok(Some((k.as_slice(), v.as_slice())))
        } else {
            Ok(None)
        }
    }
}

impl NodePersistence for RecStore {
    type MapCon<'a> = OwnedRange where Self: 'a;
    type LaneId = u64;

    fn id_for(&self, name: &str) -> Result<Self::LaneId, StoreError> {
        let mut g = self.0.lock();
        g.id_requests.push((ticket(), name.to_string()));
        if g.no_ids {
            return Err(StoreError::NoStoreAvailable);
        }
        let nth = {
            let c = g.id_calls.entry(name.to_string()).or_insert(0);
            *c += 1;
            *c
        };
        if g.id_fails_nth.as_ref().map_or(false, |(n, k)| n == name && *k == nth) {
            g.id_refused.push((ticket(), name.to_string()));
            return Err(StoreError::Io(std::io::Error::new(std::io::ErrorKind::Other, "injected id_for failure (n-th call)")));
        }
        if g.id_fails_for.as_deref() == Some(name) {
            g.id_refused.push((ticket(), name.to_string()));
            return Err(StoreError::Io(std::io::Error::new(std::io::ErrorKind::Other, "injected id_for failure")));
        }
        if let Some(id) = g.state.ids.get(name) {
            return Ok(*id);
        }
        let id = g.next_id;
        g.next_id += 1;
        g.state.ids.insert(name.to_string(), id);
        Ok(id)
    }

    fn get_value(&self, id: Self::LaneId, buffer: &mut BytesMut) -> Result<Option<usize>, StoreError> {
        let mut g = self.0.lock();
        g.reads += 1;
        if g.read_fails_at == Some(g.reads as usize - 1) {
            g.read_refused.push((ticket(), id));
            return Err(StoreError::Io(std::io::Error::new(std::io::ErrorKind::Other, "injected store read failure")));
        }
        Ok(g.state.values.get(&id).map(|v| {
            buffer.put_slice(v);
            v.len()
        }))
    }

    fn put_value(&mut self, id: Self::LaneId, value: &[u8]) -> Result<(), StoreError> {
        self.record(Op::PutValue { id, value: value.to_vec() })
    }

    fn delete_value(&mut self, id: Self::LaneId) -> Result<(), StoreError> {
        self.record(Op::DeleteValue { id })
    }

    fn update_map(&mut self, id: Self::LaneId, key: &[u8], value: &[u8]) -> Result<(), StoreError> {
        self.record(Op::UpdateMap { id, key: key.to_vec(), value: value.to_vec() })
    }

    fn remove_map(&mut self, id: Self::LaneId, key: &[u8]) -> Result<(), StoreError> {
        self.record(Op::RemoveMap { id, key: key.to_vec() })
    }

    fn clear_map(&mut self, id: Self::LaneId) -> Result<(), StoreError> {
        self.record(Op::ClearMap { id })
    }

    fn read_map(&self, id: Self::LaneId) -> Result<Self::MapCon<'_>, StoreError> {
        let mut g = self.0.lock();
        g.reads += 1;
        if g.read_fails_at == Some(g.reads as usize - 1) {
            g.read_refused.push((ticket(), id));
            return Err(StoreError::Io(std::io::Error::new(std::io::ErrorKind::Other, "injected store read failure")));
        }
        let entries = g.state.maps.get(&id).map(|m| m.iter().map(|(k, v)| (k.clone(), v.clone())).collect()).unwrap_or_default();
        Ok(OwnedRange { entries, next: 0 })
    }
}

/// State of the store after the first `k` mutating operations of `log`, starting from `base`.
pub fn state_at(base: &State, log: &[(u64, Op)], k: usize) -> State {
    let mut s = base.clone();
    for (_, op) in &log[..k] {
        s.apply(op);
    }
    s
}
