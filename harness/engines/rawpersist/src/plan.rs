//! Seeded generation of what one incarnation of the agent does: which lanes exist (fixed for the
//! case), how each is registered in *this* incarnation (initialisation phase or dynamically), the
//! remotes, the script and how the incarnation ends.

use bytes::Bytes;
use common::Rng;

use crate::lanes::{Kind, LaneSpec, Op};
use crate::remote::Pace;

#[derive(Clone, Copy, Debug, PartialEq, Eq)]
pub enum Focus {
    /// Every combination of kind x registration path x persistence.
    Mixed,
    /// Mostly persistent lanes registered by the running agent; slower remotes.
    Dynamic,
}

#[derive(Clone, Debug)]
pub enum Step {
    /// Tell the agent task to register this (dynamic) lane now.
    Register(usize),
    Attach(usize),
    Link(usize, usize),
    Sync(usize, usize),
    Unlink(usize, usize),
    Stall(usize),
    Unstall(usize),
    DropRemote(usize),
    /// Lane-side change (unique body).
    Apply { lane: usize, op: Op, defer: bool },
    /// Yield to the other tasks this many times.
    Run(u32),
    /// Let everything that can run, run (virtual time moves on by 1 ms).
    Quiesce,
}

#[derive(Clone, Copy, Debug, PartialEq, Eq)]
pub enum Ending {
    /// External stop signal.
    Stop,
    /// The agent's future returns (ok / with an error).
    Return(bool),
    /// The whole runtime task is dropped at whatever await point it has reached.
    Crash,
    /// Nothing more happens: the runtime stops by itself after its inactivity time-out.
    Timeout,
}

impl Ending {
    pub fn name(&self) -> &'static str {
        match self {
            Ending::Stop => "stop",
            Ending::Return(true) => "return-ok",
            Ending::Return(false) => "return-err",
            Ending::Crash => "crash",
            Ending::Timeout => "timeout",
        }
    }
}

#[derive(Clone, Debug)]
pub struct Plan {
    pub incarnation: u32,
    pub probe: bool,
    pub lanes: Vec<LaneSpec>,
    pub dynamic: Vec<bool>,
    pub remotes: usize,
    pub cap_in: Vec<usize>,
    pub cap_out: Vec<usize>,
    pub pace: Vec<Pace>,
    pub steps: Vec<Step>,
    pub ending: Ending,
    /// Unstall / speed up the remotes before the ending (otherwise they stay as the script left them).
    pub drain_before_end: bool,
    pub jitter_per_mille: u64,
    pub agent_jitter_per_mille: u64,
    /// Fault injection: from this mutating store call on, the store refuses (and keeps nothing).
    pub store_fails_from: Option<usize>,
    /// The store read (restoration of a lane at registration) with this index fails once.
    pub store_read_fails_at: Option<usize>,
}

pub const KEYS: [&str; 4] = ["k0", "k1", "k2", "k3"];

pub fn lane_specs(rng: &mut Rng, focus: Focus) -> Vec<LaneSpec> {
    let n = rng.range(2, 5) as usize;
    (0..n)
        .map(|i| {
            let kind = match focus {
                Focus::Mixed => {
                    if rng.bool() {
                        Kind::Value
                    } else {
                        Kind::Map
                    }
                }
                Focus::Dynamic => {
                    if rng.chance(1, 3) {
                        Kind::Value
                    } else {
                        Kind::Map
                    }
                }
            };
            let transient = match focus {
                Focus::Mixed => rng.chance(1, 3),
                Focus::Dynamic => rng.chance(1, 6),
            };
            let tag = match kind {
                Kind::Value => 'v',
                Kind::Map => 'm',
            };
            LaneSpec {
                name: format!("{tag}{i}"),
                kind,
                transient,
                in_buf: *rng.pick(&[8usize, 24, 64, 4096]),
                out_buf: *rng.pick(&[16usize, 48, 128, 4096]),
                default: Bytes::from(format!("{}", 100 + i)),
            }
        })
        .collect()
}

pub fn paths(rng: &mut Rng, n: usize, focus: Focus) -> Vec<bool> {
    (0..n)
        .map(|_| match focus {
            Focus::Mixed => rng.bool(),
            Focus::Dynamic => rng.chance(3, 4),
        })
        .collect()
}

fn body(n: u64) -> Bytes {
    Bytes::from(n.to_string())
}

/// Source of bodies that are unique over the whole case (all lanes, all incarnations).
pub struct Unique(pub u64);

impl Unique {
    pub fn next(&mut self) -> Bytes {
        self.0 += 1;
        body(self.0)
    }
}

fn lane_op(rng: &mut Rng, spec: &LaneSpec, unique: &mut Unique) -> Op {
    match spec.kind {
        Kind::Value => Op::Set(unique.next()),
        Kind::Map => {
            let key = Bytes::from_static(rng.pick(&KEYS).as_bytes());
            match rng.below(10) {
                0 => Op::Clr,
                1 | 2 => Op::Rem(key),
                _ => Op::Upd(key, unique.next()),
            }
        }
    }
}

pub fn plan(rng: &mut Rng, focus: Focus, lanes: &[LaneSpec], incarnation: u32, max_len: usize, unique: &mut Unique) -> Plan {
    let n = lanes.len();
    let dynamic = paths(rng, n, focus);
    let remotes = rng.range(1, 2) as usize;
    let slow = matches!(focus, Focus::Dynamic);
    let cap_out: Vec<usize> = (0..remotes).map(|_| *rng.pick(if slow { &[24usize, 48, 96, 4096][..] } else { &[32usize, 96, 512, 4096][..] })).collect();
    let cap_in: Vec<usize> = (0..remotes).map(|_| *rng.pick(&[64usize, 256, 4096])).collect();
    let pace: Vec<Pace> = (0..remotes)
        .map(|_| match rng.below(3) {
            0 => Pace { chunk: 4096, yields: 0 },
            1 => Pace { chunk: rng.range(3, 40) as usize, yields: rng.range(0, 3) as u32 },
            _ => Pace { chunk: rng.range(1, 8) as usize, yields: rng.range(1, 6) as u32 },
        })
        .collect();
    let len = rng.range(8, max_len.max(9) as u64) as usize;
    let mut steps: Vec<Step> = vec![];
    let mut registered: Vec<bool> = dynamic.iter().map(|d| !*d).collect();
    let mut attached = vec![false; remotes];
    // Where each dynamic lane gets registered: a random position of the script.
    let mut reg_at: Vec<Option<usize>> = dynamic.iter().map(|d| if *d { Some(rng.usize_below(len)) } else { None }).collect();
    // Most remotes attach early and link to some of the lanes that exist from the start.
    for r in 0..remotes {
        if rng.chance(4, 5) {
            steps.push(Step::Attach(r));
            attached[r] = true;
            for l in 0..n {
                if registered[l] && rng.chance(2, 3) {
                    steps.push(if rng.bool() { Step::Sync(r, l) } else { Step::Link(r, l) });
                }
            }
        }
    }
    let mut i = 0;
    while i < len {
        for l in 0..n {
            if reg_at[l] == Some(i) {
                reg_at[l] = None;
                steps.push(Step::Register(l));
                registered[l] = true;
                if rng.chance(1, 2) {
                    steps.push(Step::Quiesce);
                }
                // A lane nobody links to shows nothing: usually someone subscribes soon.
                for r in 0..remotes {
                    if attached[r] && rng.chance(3, 4) {
                        steps.push(if rng.bool() { Step::Sync(r, l) } else { Step::Link(r, l) });
                    }
                }
            }
        }
        i += 1;
        let r = rng.usize_below(remotes);
        let l = rng.usize_below(n);
        let step = match rng.below(100) {
            0..=49 => {
                // Lane-side change on a lane that exists (or will: the control message then waits for the registration).
                let known: Vec<usize> = (0..n).filter(|l| registered[*l]).collect();
                if known.is_empty() {
                    Step::Run(rng.range(1, 5) as u32)
                } else {
                    let l = *rng.pick(&known);
                    Step::Apply { lane: l, op: lane_op(rng, &lanes[l], unique), defer: rng.chance(1, 5) }
                }
            }
            50..=59 => {
                if attached[r] {
                    Step::Sync(r, l)
                } else {
                    attached[r] = true;
                    Step::Attach(r)
                }
            }
            60..=66 => {
                if attached[r] {
                    Step::Link(r, l)
                } else {
                    attached[r] = true;
                    Step::Attach(r)
                }
            }
            67..=69 => Step::Unlink(r, l),
            70..=75 => Step::Stall(r),
            76..=82 => Step::Unstall(r),
            83..=84 => {
                attached[r] = false;
                Step::DropRemote(r)
            }
            85..=92 => Step::Run(rng.range(1, 12) as u32),
            _ => Step::Quiesce,
        };
        steps.push(step);
    }
    let ending = match rng.below(16) {
        0..=5 => Ending::Stop,
        6..=11 => Ending::Crash,
        12 => Ending::Return(true),
        13 => Ending::Return(false),
        _ => Ending::Timeout,
    };
    // A crash comes at a random point: sometimes right after a burst of changes.
    if ending == Ending::Crash && rng.chance(2, 3) {
        let known: Vec<usize> = (0..n).filter(|l| registered[*l]).collect();
        if !known.is_empty() {
            for _ in 0..rng.range(1, 4) {
                let l = *rng.pick(&known);
                steps.push(Step::Apply { lane: l, op: lane_op(rng, &lanes[l], unique), defer: false });
            }
            steps.push(Step::Run(rng.range(0, 10) as u32));
        }
    }
    Plan {
        incarnation,
        probe: false,
        lanes: lanes.to_vec(),
        dynamic,
        remotes,
        cap_in,
        cap_out,
        pace,
        steps,
        ending,
        drain_before_end: rng.chance(1, 2),
        jitter_per_mille: *rng.pick(&[0u64, 0, 100, 300]),
        agent_jitter_per_mille: *rng.pick(&[0u64, 0, 100, 300]),
        store_fails_from: if rng.chance(1, 10) { Some(rng.usize_below(16)) } else { None },
        store_read_fails_at: if rng.chance(1, 8) { Some(rng.usize_below(4)) } else { None },
    }
}

/// A restart that only looks: the lanes are registered again (paths chosen afresh; the dynamic ones
/// after the agent has started and after the remote attached), one fast remote syncs every lane,
/// clean stop.
pub fn probe_plan(rng: &mut Rng, focus: Focus, lanes: &[LaneSpec], incarnation: u32) -> Plan {
    let n = lanes.len();
    let dynamic = paths(rng, n, focus);
    let mut steps = vec![Step::Attach(0)];
    let mut order: Vec<usize> = (0..n).collect();
    rng.shuffle(&mut order);
    for l in &order {
        if dynamic[*l] {
            steps.push(Step::Register(*l));
            if rng.bool() {
                steps.push(Step::Quiesce);
            }
        }
    }
    steps.push(Step::Quiesce);
    for l in 0..n {
        steps.push(Step::Sync(0, l));
    }
    steps.push(Step::Quiesce);
    Plan {
        incarnation,
        probe: true,
        lanes: lanes.to_vec(),
        dynamic,
        remotes: 1,
        cap_in: vec![4096],
        cap_out: vec![1 << 16],
        pace: vec![Pace { chunk: 4096, yields: 0 }],
        steps,
        ending: Ending::Stop,
        drain_before_end: true,
        jitter_per_mille: 0,
        agent_jitter_per_mille: 0,
        store_fails_from: None,
        store_read_fails_at: None,
    }
}
