//! Seeded generation of what one incarnation of the agent does: which lanes exist (fixed for the
//! case), how each is registered in *this* incarnation (initialisation phase or dynamically), the
//! remotes, the script and how the incarnation ends.

use bytes::Bytes;
use common::Rng;

use crate::lanes::{Kind, LaneSpec, Op};
use crate::remote::{Pace, ReqKind};

#[derive(Clone, Copy, Debug, PartialEq, Eq)]
pub enum Focus {
    /// Every combination of kind x registration path x persistence.
    Mixed,
    /// Mostly persistent lanes registered by the running agent; slower remotes.
    Dynamic,
}

#[derive(Clone, Debug)]
pub enum Step {
    /// Tell the agent task to register this (dynamic) lane now.
    Register(usize),
    Attach(usize),
    Link(usize, usize),
    Sync(usize, usize),
    Unlink(usize, usize),
    Stall(usize),
    Unstall(usize),
    DropRemote(usize),
    /// Lane-side change (unique body).
    Apply { lane: usize, op: Op, defer: bool },
    /// Yield to the other tasks this many times.
    Run(u32),
    /// Let everything that can run, run (virtual time moves on by 1 ms).
    Quiesce,
    /// Virtual time moves on by this many ms (nothing else happens meanwhile).
    Advance(u64),
    /// A request for a lane the agent does not have. A command only keeps the read task awake (its
    /// inactivity timer starts again; the write task is not told); the other kinds are also answered
    /// by the write task (its timer starts again, an outstanding stop vote is rescinded).
    Poke(usize, ReqKind),
}

#[derive(Clone, Copy, Debug, PartialEq, Eq)]
pub enum Ending {
    /// External stop signal.
    Stop,
    /// The agent's future returns (ok / with an error).
    Return(bool),
    /// The whole runtime task is dropped at whatever await point it has reached.
    Crash,
    /// Nothing more happens: the runtime stops by itself after its inactivity time-out.
    Timeout,
}

impl Ending {
    pub fn name(&self) -> &'static str {
        match self {
            Ending::Stop => "stop",
            Ending::Return(true) => "return-ok",
            Ending::Return(false) => "return-err",
            Ending::Crash => "crash",
            Ending::Timeout => "timeout",
        }
    }
}

#[derive(Clone, Debug)]
pub struct Plan {
    pub incarnation: u32,
    pub probe: bool,
    pub lanes: Vec<LaneSpec>,
    pub dynamic: Vec<bool>,
    pub remotes: usize,
    pub cap_in: Vec<usize>,
    pub cap_out: Vec<usize>,
    pub pace: Vec<Pace>,
    pub steps: Vec<Step>,
    pub ending: Ending,
    /// Inactivity time-out of the runtime in ms of virtual time (None: never).
    pub timeout_ms: Option<u64>,
    /// Unstall / speed up the remotes before the ending (otherwise they stay as the script left them).
    pub drain_before_end: bool,
    pub jitter_per_mille: u64,
    pub agent_jitter_per_mille: u64,
    /// Fault injection: from this mutating store call on, the store refuses (and keeps nothing).
    pub store_fails_from: Option<usize>,
    /// The store read (restoration of a lane at registration) with this index fails once.
    pub store_read_fails_at: Option<usize>,
}

pub const KEYS: [&str; 4] = ["k0", "k1", "k2", "k3"];

pub fn lane_specs(rng: &mut Rng, focus: Focus) -> Vec<LaneSpec> {
    let n = rng.range(2, 5) as usize;
    (0..n)
        .map(|i| {
            let kind = match focus {
                Focus::Mixed => {
                    if rng.bool() {
                        Kind::Value
                    } else {
                        Kind::Map
                    }
                }
                Focus::Dynamic => {
                    if rng.chance(1, 3) {
                        Kind::Value
                    } else {
                        Kind::Map
                    }
                }
            };
            let transient = match focus {
                Focus::Mixed => rng.chance(1, 3),
                Focus::Dynamic => rng.chance(1, 6),
            };
            let tag = match kind {
                Kind::Value => 'v',
                Kind::Map => 'm',
            };
            LaneSpec {
                name: format!("{tag}{i}"),
                kind,
                transient,
                in_buf: *rng.pick(&[8usize, 24, 64, 4096]),
                out_buf: *rng.pick(&[16usize, 48, 128, 4096]),
                default: Bytes::from(format!("{}", 100 + i)),
            }
        })
        .collect()
}

pub fn paths(rng: &mut Rng, n: usize, focus: Focus) -> Vec<bool> {
    (0..n)
        .map(|_| match focus {
            Focus::Mixed => rng.bool(),
            Focus::Dynamic => rng.chance(3, 4),
        })
        .collect()
}

fn body(n: u64) -> Bytes {
    Bytes::from(n.to_string())
}

/// Source of bodies that are unique over the whole case (all lanes, all incarnations).
pub struct Unique(pub u64);

impl Unique {
    pub fn next(&mut self) -> Bytes {
        self.0 += 1;
        body(self.0)
    }
}

/// About one body in ten is *empty*: the valid Recon of `()`, `None`, `Extant` (a map lane used as
/// a set, an optional value that was reset). Such a body has no identity of its own: the oracles
/// place it by its position among the changes of its key (see `oracle::Placing`).
fn new_body(rng: &mut Rng, unique: &mut Unique) -> Bytes {
    if rng.chance(1, 10) {
        Bytes::new()
    } else {
        unique.next()
    }
}

fn lane_op(rng: &mut Rng, spec: &LaneSpec, unique: &mut Unique) -> Op {
    match spec.kind {
        Kind::Value => Op::Set(new_body(rng, unique)),
        Kind::Map => {
            let key = Bytes::from_static(rng.pick(&KEYS).as_bytes());
            match rng.below(10) {
                0 => Op::Clr,
                1 | 2 => Op::Rem(key),
                _ => Op::Upd(key, new_body(rng, unique)),
            }
        }
    }
}

/// A stretch of the script in which the lanes are silent for more than one inactivity time-out
/// while a remote keeps the read task awake, then one lane event: the write task casts its stop
/// vote, the vote stays incomplete, the event rescinds it (and must still reach the store before
/// it reaches the subscriber).
fn silence(rng: &mut Rng, t: u64, lanes: &[LaneSpec], registered: &[bool], attached: &mut [bool], unique: &mut Unique, steps: &mut Vec<Step>) {
    let known: Vec<usize> = (0..lanes.len()).filter(|l| registered[*l]).collect();
    if known.is_empty() {
        return;
    }
    let persistent: Vec<usize> = known.iter().copied().filter(|l| !lanes[*l].transient).collect();
    let l = if !persistent.is_empty() && rng.chance(5, 6) { *rng.pick(&persistent) } else { *rng.pick(&known) };
    let r = rng.usize_below(attached.len());
    if !attached[r] {
        attached[r] = true;
        steps.push(Step::Attach(r));
    }
    if rng.chance(9, 10) {
        steps.push(Step::Unstall(r));
    }
    // Someone is subscribed to the lane that will speak.
    steps.push(if rng.bool() { Step::Sync(r, l) } else { Step::Link(r, l) });
    if rng.bool() {
        steps.push(Step::Apply { lane: l, op: lane_op(rng, &lanes[l], unique), defer: false });
    }
    steps.push(Step::Quiesce);
    // Requests at intervals shorter than the time-out (mostly): in total more than one time-out.
    let half = (t / 2).max(1);
    let mut total = 0;
    while total <= t + half / 2 {
        let kind = match rng.below(12) {
            0 => ReqKind::Link,
            1 => ReqKind::Unlink,
            2 => ReqKind::Sync,
            _ => ReqKind::Command,
        };
        steps.push(Step::Poke(r, kind));
        // 0.5x .. <1x of the time-out; now and then longer (then the read task votes as well and the agent may stop).
        let gap = if rng.chance(1, 12) { rng.range(t, t + half) } else { rng.range(half, t - 1) };
        steps.push(Step::Advance(gap));
        total += gap;
    }
    if rng.chance(2, 3) {
        steps.push(Step::Poke(r, ReqKind::Command));
        steps.push(Step::Advance(rng.range(1, half)));
    }
    for _ in 0..rng.range(1, 2) {
        let l = if rng.chance(3, 4) { l } else { *rng.pick(&known) };
        steps.push(Step::Apply { lane: l, op: lane_op(rng, &lanes[l], unique), defer: rng.chance(1, 8) });
    }
    steps.push(if rng.bool() { Step::Quiesce } else { Step::Run(rng.range(0, 12) as u32) });
}

pub fn plan(rng: &mut Rng, focus: Focus, lanes: &[LaneSpec], incarnation: u32, max_len: usize, unique: &mut Unique) -> Plan {
    let n = lanes.len();
    let dynamic = paths(rng, n, focus);
    let remotes = rng.range(1, 2) as usize;
    let slow = matches!(focus, Focus::Dynamic);
    let cap_out: Vec<usize> = (0..remotes).map(|_| *rng.pick(if slow { &[24usize, 48, 96, 4096][..] } else { &[32usize, 96, 512, 4096][..] })).collect();
    let cap_in: Vec<usize> = (0..remotes).map(|_| *rng.pick(&[64usize, 256, 4096])).collect();
    let pace: Vec<Pace> = (0..remotes)
        .map(|_| match rng.below(3) {
            0 => Pace { chunk: 4096, yields: 0 },
            1 => Pace { chunk: rng.range(3, 40) as usize, yields: rng.range(0, 3) as u32 },
            _ => Pace { chunk: rng.range(1, 8) as usize, yields: rng.range(1, 6) as u32 },
        })
        .collect();
    let len = rng.range(8, max_len.max(9) as u64) as usize;
    let ending = match rng.below(16) {
        0..=5 => Ending::Stop,
        6..=11 => Ending::Crash,
        12 => Ending::Return(true),
        13 => Ending::Return(false),
        _ => Ending::Timeout,
    };
    // A finite inactivity time-out in a good share of the incarnations: short ones, so that the
    // script's steps in virtual time (`Advance`) make the tasks of the runtime vote and rescind.
    let timeout_ms = if ending == Ending::Timeout {
        Some(*rng.pick(&[400u64, 400, 40]))
    } else if rng.chance(1, 2) {
        Some(*rng.pick(&[15u64, 40]))
    } else {
        None
    };
    let short = timeout_ms.filter(|t| *t < 400);
    // Where the stretches of lane silence go (positions of the script).
    let mut silence_at: Vec<usize> = vec![];
    if short.is_some() {
        for _ in 0..rng.range(1, 2) {
            silence_at.push(rng.range((len / 3) as u64, len as u64) as usize);
        }
    }
    let mut steps: Vec<Step> = vec![];
    let mut registered: Vec<bool> = dynamic.iter().map(|d| !*d).collect();
    let mut attached = vec![false; remotes];
    // Where each dynamic lane gets registered: a random position of the script.
    let mut reg_at: Vec<Option<usize>> = dynamic.iter().map(|d| if *d { Some(rng.usize_below(len)) } else { None }).collect();
    // Most remotes attach early and link to some of the lanes that exist from the start.
    for r in 0..remotes {
        if rng.chance(4, 5) {
            steps.push(Step::Attach(r));
            attached[r] = true;
            for l in 0..n {
                if registered[l] && rng.chance(2, 3) {
                    steps.push(if rng.bool() { Step::Sync(r, l) } else { Step::Link(r, l) });
                }
            }
        }
    }
    let mut i = 0;
    while i < len {
        for l in 0..n {
            if reg_at[l] == Some(i) {
                reg_at[l] = None;
                steps.push(Step::Register(l));
                registered[l] = true;
                if rng.chance(1, 2) {
                    steps.push(Step::Quiesce);
                }
                // A lane nobody links to shows nothing: usually someone subscribes soon.
                for r in 0..remotes {
                    if attached[r] && rng.chance(3, 4) {
                        steps.push(if rng.bool() { Step::Sync(r, l) } else { Step::Link(r, l) });
                    }
                }
            }
        }
        i += 1;
        if let Some(t) = short {
            if silence_at.contains(&i) {
                silence(rng, t, lanes, &registered, &mut attached, unique, &mut steps);
            }
            // Time also passes between ordinary steps: 0.5x .. 1.5x of the time-out.
            match rng.below(20) {
                0 => steps.push(Step::Advance(rng.range(t / 2, t + t / 2))),
                1 => steps.push(Step::Poke(rng.usize_below(remotes), if rng.chance(3, 4) { ReqKind::Command } else { ReqKind::Link })),
                _ => {}
            }
        }
        let r = rng.usize_below(remotes);
        let l = rng.usize_below(n);
        let step = match rng.below(100) {
            0..=49 => {
                // Lane-side change on a lane that exists (or will: the control message then waits for the registration).
                let known: Vec<usize> = (0..n).filter(|l| registered[*l]).collect();
                if known.is_empty() {
                    Step::Run(rng.range(1, 5) as u32)
                } else {
                    let l = *rng.pick(&known);
                    Step::Apply { lane: l, op: lane_op(rng, &lanes[l], unique), defer: rng.chance(1, 5) }
                }
            }
            50..=59 => {
                if attached[r] {
                    Step::Sync(r, l)
                } else {
                    attached[r] = true;
                    Step::Attach(r)
                }
            }
            60..=66 => {
                if attached[r] {
                    Step::Link(r, l)
                } else {
                    attached[r] = true;
                    Step::Attach(r)
                }
            }
            67..=69 => Step::Unlink(r, l),
            70..=75 => Step::Stall(r),
            76..=82 => Step::Unstall(r),
            83..=84 => {
                attached[r] = false;
                Step::DropRemote(r)
            }
            85..=92 => Step::Run(rng.range(1, 12) as u32),
            _ => Step::Quiesce,
        };
        steps.push(step);
    }
    // A crash comes at a random point: sometimes right after a burst of changes.
    if ending == Ending::Crash && rng.chance(2, 3) {
        let known: Vec<usize> = (0..n).filter(|l| registered[*l]).collect();
        if !known.is_empty() {
            for _ in 0..rng.range(1, 4) {
                let l = *rng.pick(&known);
                steps.push(Step::Apply { lane: l, op: lane_op(rng, &lanes[l], unique), defer: false });
            }
            steps.push(Step::Run(rng.range(0, 10) as u32));
        }
    }
    Plan {
        incarnation,
        probe: false,
        lanes: lanes.to_vec(),
        dynamic,
        remotes,
        cap_in,
        cap_out,
        pace,
        steps,
        ending,
        timeout_ms,
        drain_before_end: rng.chance(1, 2),
        jitter_per_mille: *rng.pick(&[0u64, 0, 100, 300]),
        agent_jitter_per_mille: *rng.pick(&[0u64, 0, 100, 300]),
        store_fails_from: if rng.chance(1, 10) { Some(rng.usize_below(16)) } else { None },
        store_read_fails_at: if rng.chance(1, 8) { Some(rng.usize_below(4)) } else { None },
    }
}

/// A restart that only looks: the lanes are registered again (paths chosen afresh; the dynamic ones
/// after the agent has started and after the remote attached), one fast remote syncs every lane,
/// clean stop.
pub fn probe_plan(rng: &mut Rng, focus: Focus, lanes: &[LaneSpec], incarnation: u32) -> Plan {
    let n = lanes.len();
    let dynamic = paths(rng, n, focus);
    let mut steps = vec![Step::Attach(0)];
    let mut order: Vec<usize> = (0..n).collect();
    rng.shuffle(&mut order);
    for l in &order {
        if dynamic[*l] {
            steps.push(Step::Register(*l));
            if rng.bool() {
                steps.push(Step::Quiesce);
            }
        }
    }
    steps.push(Step::Quiesce);
    for l in 0..n {
        steps.push(Step::Sync(0, l));
    }
    steps.push(Step::Quiesce);
    Plan {
        incarnation,
        probe: true,
        lanes: lanes.to_vec(),
        dynamic,
        remotes: 1,
        cap_in: vec![4096],
        cap_out: vec![1 << 16],
        pace: vec![Pace { chunk: 4096, yields: 0 }],
        steps,
        ending: Ending::Stop,
        timeout_ms: None,
        drain_before_end: true,
        jitter_per_mille: 0,
        agent_jitter_per_mille: 0,
        store_fails_from: None,
        store_read_fails_at: None,
    }
}
