//! Seeded generation of what one incarnation of the agent does: which lanes exist (fixed for the
//! case), how each is registered in *this* incarnation (initialisation phase or dynamically), the
//! remotes, the script and how the incarnation ends.

use bytes::Bytes;
use common::Rng;

use crate::items::StoreSpec;
use crate::lanes::{InitFault, Kind, LaneSpec, Op};
use crate::remote::{Pace, ReqKind};

#[derive(Clone, Copy, Debug, PartialEq, Eq)]
pub enum Focus {
    /// Every combination of kind x registration path x persistence.
    Mixed,
    /// Mostly persistent lanes registered by the running agent; slower remotes.
    Dynamic,
}

/// What the agent runs on.
#[derive(Clone, Copy, Debug, PartialEq, Eq, Hash)]
pub enum StoreMode {
    /// `run_agent_with_store` on the recording store.
    Recording,
    /// `run_agent`: no store at all.
    NoStore,
    /// `run_agent_with_store` on the recording store whose `id_for` answers `NoStoreAvailable`.
    IdUnavailable,
    /// `run_agent_with_store` on swimos_api's `StoreDisabled` (a `NodePersistence` that keeps nothing).
    DisabledImpl,
}

impl StoreMode {
    pub fn name(&self) -> &'static str {
        match self {
            StoreMode::Recording => "recording",
            StoreMode::NoStore => "run-agent-without-store",
            StoreMode::IdUnavailable => "id-for-no-store-available",
            StoreMode::DisabledImpl => "store-disabled-impl",
        }
    }
}

#[derive(Clone, Debug)]
pub enum Step {
    /// Tell the agent task to register this (dynamic) lane now.
    Register(usize),
    Attach(usize),
    Link(usize, usize),
    Sync(usize, usize),
    Unlink(usize, usize),
    Stall(usize),
    Unstall(usize),
    DropRemote(usize),
    /// Lane-side change (unique body).
    Apply { lane: usize, op: Op, defer: bool },
    /// Yield to the other tasks this many times.
    Run(u32),
    /// Let everything that can run, run (virtual time moves on by 1 ms).
    Quiesce,
    /// Virtual time moves on by this many ms (nothing else happens meanwhile).
    Advance(u64),
    /// Tell the agent task to request this store item now (`add_store` from the running agent).
    RegisterStore(usize),
    /// A change of a store item (unique body): one `StoreResponse` frame.
    StoreApply { store: usize, op: Op },
    /// Every remote reads at full speed from here on.
    Drain,
    /// A request for a lane the agent does not have. A command only keeps the read task awake (its
    /// inactivity timer starts again; the write task is not told); the other kinds are also answered
    /// by the write task (its timer starts again, an outstanding stop vote is rescinded).
    Poke(usize, ReqKind),
}

#[derive(Clone, Copy, Debug, PartialEq, Eq)]
pub enum Ending {
    /// External stop signal.
    Stop,
    /// The agent's future returns (ok / with an error).
    Return(bool),
    /// The whole runtime task is dropped at whatever await point it has reached.
    Crash,
    /// Nothing more happens: the runtime stops by itself after its inactivity time-out.
    Timeout,
}

impl Ending {
    pub fn name(&self) -> &'static str {
        match self {
            Ending::Stop => "stop",
            Ending::Return(true) => "return-ok",
            Ending::Return(false) => "return-err",
            Ending::Crash => "crash",
            Ending::Timeout => "timeout",
        }
    }
}

#[derive(Clone, Debug)]
pub struct Plan {
    pub incarnation: u32,
    pub probe: bool,
    pub lanes: Vec<LaneSpec>,
    pub dynamic: Vec<bool>,
    pub remotes: usize,
    pub cap_in: Vec<usize>,
    pub cap_out: Vec<usize>,
    pub pace: Vec<Pace>,
    pub steps: Vec<Step>,
    pub ending: Ending,
    /// Inactivity time-out of the runtime in ms of virtual time (None: never).
    pub timeout_ms: Option<u64>,
    /// Unstall / speed up the remotes before the ending (otherwise they stay as the script left them).
    pub drain_before_end: bool,
    pub jitter_per_mille: u64,
    pub agent_jitter_per_mille: u64,
    /// Fault injection: from this mutating store call on, the store refuses (and keeps nothing).
    pub store_fails_from: Option<usize>,
    /// The store read (restoration of a lane at registration) with this index fails once.
    pub store_read_fails_at: Option<usize>,
    // ---- extensions (empty / default in the parts `mixed` and `dynamic`) ----
    /// Store items, how each is requested in this incarnation and its planned misbehaviour.
    pub stores: Vec<StoreSpec>,
    pub store_dynamic: Vec<bool>,
    pub store_faults: Vec<Option<InitFault>>,
    /// Planned misbehaviour of lane `i` in the initialisation handshake.
    pub lane_faults: Vec<Option<InitFault>>,
    pub store_mode: StoreMode,
    /// The runtime's `item_init_timeout` in ms of virtual time.
    pub item_init_timeout_ms: u64,
    /// `id_for` of this name fails (IO error).
    pub id_fails_for: Option<String>,
    /// The n-th (1-based) `id_for` call for this name fails once (IO error): the first call of a
    /// lane / store item is made when it is initialised, the second - for the items of the
    /// initialisation phase - when the runtime task starts.
    pub id_fails_nth: Option<(String, usize)>,
    /// Index of the first step of the closing phase of a degraded-mode script (a fresh remote syncs
    /// every lane, the lanes change once more, everything quiesces).
    pub closing_from: Option<usize>,
}

pub const DEFAULT_ITEM_INIT_TIMEOUT_MS: u64 = 5000;

impl Plan {
    pub fn has_init_phase_fault(&self) -> bool {
        let hard = |f: &Option<InitFault>| matches!(f, Some(x) if !matches!(x, InitFault::DropPromise));
        self.lane_faults.iter().enumerate().any(|(l, f)| hard(f) && !self.dynamic[l]) || self.store_faults.iter().enumerate().any(|(i, f)| hard(f) && !self.store_dynamic[i])
    }
}

pub const KEYS: [&str; 4] = ["k0", "k1", "k2", "k3"];

pub fn lane_specs(rng: &mut Rng, focus: Focus) -> Vec<LaneSpec> {
    let n = rng.range(2, 5) as usize;
    (0..n)
        .map(|i| {
            let kind = match focus {
                Focus::Mixed => {
                    if rng.bool() {
                        Kind::Value
                    } else {
                        Kind::Map
                    }
                }
                Focus::Dynamic => {
                    if rng.chance(1, 3) {
                        Kind::Value
                    } else {
                        Kind::Map
                    }
                }
            };
            let transient = match focus {
                Focus::Mixed => rng.chance(1, 3),
                Focus::Dynamic => rng.chance(1, 6),
            };
            let tag = match kind {
                Kind::Value => 'v',
                Kind::Map => 'm',
            };
            LaneSpec {
                name: format!("{tag}{i}"),
                kind,
                transient,
                in_buf: *rng.pick(&[8usize, 24, 64, 4096]),
                out_buf: *rng.pick(&[16usize, 48, 128, 4096]),
                default: Bytes::from(format!("{}", 100 + i)),
            }
        })
        .collect()
}

pub fn paths(rng: &mut Rng, n: usize, focus: Focus) -> Vec<bool> {
    (0..n)
        .map(|_| match focus {
            Focus::Mixed => rng.bool(),
            Focus::Dynamic => rng.chance(3, 4),
        })
        .collect()
}

fn body(n: u64) -> Bytes {
    Bytes::from(n.to_string())
}

/// Source of bodies that are unique over the whole case (all lanes, all incarnations).
pub struct Unique(pub u64);

impl Unique {
    pub fn next(&mut self) -> Bytes {
        self.0 += 1;
        body(self.0)
    }
}

/// About one body in ten is *empty*: the valid Recon of `()`, `None`, `Extant` (a map lane used as
/// a set, an optional value that was reset). Such a body has no identity of its own: the oracles
/// place it by its position among the changes of its key (see `oracle::Placing`).
fn new_body(rng: &mut Rng, unique: &mut Unique) -> Bytes {
    if rng.chance(1, 10) {
        Bytes::new()
    } else {
        unique.next()
    }
}

fn lane_op(rng: &mut Rng, spec: &LaneSpec, unique: &mut Unique) -> Op {
    match spec.kind {
        Kind::Value => Op::Set(new_body(rng, unique)),
        Kind::Map => {
            let key = Bytes::from_static(rng.pick(&KEYS).as_bytes());
            match rng.below(10) {
                0 => Op::Clr,
                1 | 2 => Op::Rem(key),
                _ => Op::Upd(key, new_body(rng, unique)),
            }
        }
    }
}

/// A stretch of the script in which the lanes are silent for more than one inactivity time-out
/// while a remote keeps the read task awake, then one lane event: the write task casts its stop
/// vote, the vote stays incomplete, the event rescinds it (and must still reach the store before
/// it reaches the subscriber).
fn silence(rng: &mut Rng, t: u64, lanes: &[LaneSpec], registered: &[bool], attached: &mut [bool], unique: &mut Unique, steps: &mut Vec<Step>) {
    let known: Vec<usize> = (0..lanes.len()).filter(|l| registered[*l]).collect();
    if known.is_empty() {
        return;
    }
    let persistent: Vec<usize> = known.iter().copied().filter(|l| !lanes[*l].transient).collect();
    let l = if !persistent.is_empty() && rng.chance(5, 6) { *rng.pick(&persistent) } else { *rng.pick(&known) };
    let r = rng.usize_below(attached.len());
    if !attached[r] {
        attached[r] = true;
        steps.push(Step::Attach(r));
    }
    if rng.chance(9, 10) {
        steps.push(Step::Unstall(r));
    }
    // Someone is subscribed to the lane that will speak.
    steps.push(if rng.bool() { Step::Sync(r, l) } else { Step::Link(r, l) });
    if rng.bool() {
        steps.push(Step::Apply { lane: l, op: lane_op(rng, &lanes[l], unique), defer: false });
    }
    steps.push(Step::Quiesce);
    // Requests at intervals shorter than the time-out (mostly): in total more than one time-out.
    let half = (t / 2).max(1);
    let mut total = 0;
    while total <= t + half / 2 {
        let kind = match rng.below(12) {
            0 => ReqKind::Link,
            1 => ReqKind::Unlink,
            2 => ReqKind::Sync,
            _ => ReqKind::Command,
        };
        steps.push(Step::Poke(r, kind));
        // 0.5x .. <1x of the time-out; now and then longer (then the read task votes as well and the agent may stop).
        let gap = if rng.chance(1, 12) { rng.range(t, t + half) } else { rng.range(half, t - 1) };
        steps.push(Step::Advance(gap));
        total += gap;
    }
    if rng.chance(2, 3) {
        steps.push(Step::Poke(r, ReqKind::Command));
        steps.push(Step::Advance(rng.range(1, half)));
    }
    for _ in 0..rng.range(1, 2) {
        let l = if rng.chance(3, 4) { l } else { *rng.pick(&known) };
        steps.push(Step::Apply { lane: l, op: lane_op(rng, &lanes[l], unique), defer: rng.chance(1, 8) });
    }
    steps.push(if rng.bool() { Step::Quiesce } else { Step::Run(rng.range(0, 12) as u32) });
}

pub fn plan(rng: &mut Rng, focus: Focus, lanes: &[LaneSpec], incarnation: u32, max_len: usize, unique: &mut Unique) -> Plan {
    let n = lanes.len();
    let dynamic = paths(rng, n, focus);
    let remotes = rng.range(1, 2) as usize;
    let slow = matches!(focus, Focus::Dynamic);
    let cap_out: Vec<usize> = (0..remotes).map(|_| *rng.pick(if slow { &[24usize, 48, 96, 4096][..] } else { &[32usize, 96, 512, 4096][..] })).collect();
    let cap_in: Vec<usize> = (0..remotes).map(|_| *rng.pick(&[64usize, 256, 4096])).collect();
    let pace: Vec<Pace> = (0..remotes)
        .map(|_| match rng.below(3) {
            0 => Pace { chunk: 4096, yields: 0 },
            1 => Pace { chunk: rng.range(3, 40) as usize, yields: rng.range(0, 3) as u32 },
            _ => Pace { chunk: rng.range(1, 8) as usize, yields: rng.range(1, 6) as u32 },
        })
        .collect();
    let len = rng.range(8, max_len.max(9) as u64) as usize;
    let ending = match rng.below(16) {
        0..=5 => Ending::Stop,
        6..=11 => Ending::Crash,
        12 => Ending::Return(true),
        13 => Ending::Return(false),
        _ => Ending::Timeout,
    };
    // A finite inactivity time-out in a good share of the incarnations: short ones, so that the
    // script's steps in virtual time (`Advance`) make the tasks of the runtime vote and rescind.
    let timeout_ms = if ending == Ending::Timeout {
        Some(*rng.pick(&[400u64, 400, 40]))
    } else if rng.chance(1, 2) {
        Some(*rng.pick(&[15u64, 40]))
    } else {
        None
    };
    let short = timeout_ms.filter(|t| *t < 400);
    // Where the stretches of lane silence go (positions of the script).
    let mut silence_at: Vec<usize> = vec![];
    if short.is_some() {
        for _ in 0..rng.range(1, 2) {
            silence_at.push(rng.range((len / 3) as u64, len as u64) as usize);
        }
    }
    let mut steps: Vec<Step> = vec![];
    let mut registered: Vec<bool> = dynamic.iter().map(|d| !*d).collect();
    let mut attached = vec![false; remotes];
    // Where each dynamic lane gets registered: a random position of the script.
    let mut reg_at: Vec<Option<usize>> = dynamic.iter().map(|d| if *d { Some(rng.usize_below(len)) } else { None }).collect();
    // Most remotes attach early and link to some of the lanes that exist from the start.
    for r in 0..remotes {
        if rng.chance(4, 5) {
            steps.push(Step::Attach(r));
            attached[r] = true;
            for l in 0..n {
                if registered[l] && rng.chance(2, 3) {
                    steps.push(if rng.bool() { Step::Sync(r, l) } else { Step::Link(r, l) });
                }
            }
        }
    }
    let mut i = 0;
    while i < len {
        for l in 0..n {
            if reg_at[l] == Some(i) {
                reg_at[l] = None;
                steps.push(Step::Register(l));
                registered[l] = true;
                if rng.chance(1, 2) {
                    steps.push(Step::Quiesce);
                }
                // A lane nobody links to shows nothing: usually someone subscribes soon.
                for r in 0..remotes {
                    if attached[r] && rng.chance(3, 4) {
                        steps.push(if rng.bool() { Step::Sync(r, l) } else { Step::Link(r, l) });
                    }
                }
            }
        }
        i += 1;
        if let Some(t) = short {
            if silence_at.contains(&i) {
                silence(rng, t, lanes, &registered, &mut attached, unique, &mut steps);
            }
            // Time also passes between ordinary steps: 0.5x .. 1.5x of the time-out.
            match rng.below(20) {
                0 => steps.push(Step::Advance(rng.range(t / 2, t + t / 2))),
                1 => steps.push(Step::Poke(rng.usize_below(remotes), if rng.chance(3, 4) { ReqKind::Command } else { ReqKind::Link })),
                _ => {}
            }
        }
        let r = rng.usize_below(remotes);
        let l = rng.usize_below(n);
        let step = match rng.below(100) {
            0..=49 => {
                // Lane-side change on a lane that exists (or will: the control message then waits for the registration).
                let known: Vec<usize> = (0..n).filter(|l| registered[*l]).collect();
                if known.is_empty() {
                    Step::Run(rng.range(1, 5) as u32)
                } else {
                    let l = *rng.pick(&known);
                    Step::Apply { lane: l, op: lane_op(rng, &lanes[l], unique), defer: rng.chance(1, 5) }
                }
            }
            50..=59 => {
                if attached[r] {
                    Step::Sync(r, l)
                } else {
                    attached[r] = true;
                    Step::Attach(r)
                }
            }
            60..=66 => {
                if attached[r] {
                    Step::Link(r, l)
                } else {
                    attached[r] = true;
                    Step::Attach(r)
                }
            }
            67..=69 => Step::Unlink(r, l),
            70..=75 => Step::Stall(r),
            76..=82 => Step::Unstall(r),
            83..=84 => {
                attached[r] = false;
                Step::DropRemote(r)
            }
            85..=92 => Step::Run(rng.range(1, 12) as u32),
            _ => Step::Quiesce,
        };
        steps.push(step);
    }
    // A crash comes at a random point: sometimes right after a burst of changes.
    if ending == Ending::Crash && rng.chance(2, 3) {
        let known: Vec<usize> = (0..n).filter(|l| registered[*l]).collect();
        if !known.is_empty() {
            for _ in 0..rng.range(1, 4) {
                let l = *rng.pick(&known);
                steps.push(Step::Apply { lane: l, op: lane_op(rng, &lanes[l], unique), defer: false });
            }
            steps.push(Step::Run(rng.range(0, 10) as u32));
        }
    }
    Plan {
        incarnation,
        probe: false,
        lanes: lanes.to_vec(),
        dynamic,
        remotes,
        cap_in,
        cap_out,
        pace,
        steps,
        ending,
        timeout_ms,
        drain_before_end: rng.chance(1, 2),
        jitter_per_mille: *rng.pick(&[0u64, 0, 100, 300]),
        agent_jitter_per_mille: *rng.pick(&[0u64, 0, 100, 300]),
        store_fails_from: if rng.chance(1, 10) { Some(rng.usize_below(16)) } else { None },
        store_read_fails_at: if rng.chance(1, 8) { Some(rng.usize_below(4)) } else { None },
        stores: vec![],
        store_dynamic: vec![],
        store_faults: vec![],
        lane_faults: vec![None; n],
        store_mode: StoreMode::Recording,
        item_init_timeout_ms: DEFAULT_ITEM_INIT_TIMEOUT_MS,
        id_fails_for: None,
        id_fails_nth: None,
        closing_from: None,
    }
}

/// A restart that only looks: the lanes are registered again (paths chosen afresh; the dynamic ones
/// after the agent has started and after the remote attached), one fast remote syncs every lane,
/// clean stop.
pub fn probe_plan(rng: &mut Rng, focus: Focus, lanes: &[LaneSpec], incarnation: u32) -> Plan {
    let n = lanes.len();
    let dynamic = paths(rng, n, focus);
    let mut steps = vec![Step::Attach(0)];
    let mut order: Vec<usize> = (0..n).collect();
    rng.shuffle(&mut order);
    for l in &order {
        if dynamic[*l] {
            steps.push(Step::Register(*l));
            if rng.bool() {
                steps.push(Step::Quiesce);
            }
        }
    }
    steps.push(Step::Quiesce);
    for l in 0..n {
        steps.push(Step::Sync(0, l));
    }
    steps.push(Step::Quiesce);
    Plan {
        incarnation,
        probe: true,
        lanes: lanes.to_vec(),
        dynamic,
        remotes: 1,
        cap_in: vec![4096],
        cap_out: vec![1 << 16],
        pace: vec![Pace { chunk: 4096, yields: 0 }],
        steps,
        ending: Ending::Stop,
        timeout_ms: None,
        drain_before_end: true,
        jitter_per_mille: 0,
        agent_jitter_per_mille: 0,
        store_fails_from: None,
        store_read_fails_at: None,
        stores: vec![],
        store_dynamic: vec![],
        store_faults: vec![],
        lane_faults: vec![None; n],
        store_mode: StoreMode::Recording,
        item_init_timeout_ms: DEFAULT_ITEM_INIT_TIMEOUT_MS,
        id_fails_for: None,
        id_fails_nth: None,
        closing_from: None,
    }
}

// =================================================================================================
// Extensions: store items, misbehaving items in the initialisation handshake, degraded persistence.
// The generators below build on `plan` / `probe_plan` (whose use of the generator is unchanged) and
// add steps and settings afterwards.
// =================================================================================================

/// A wider key space for the maps of the extension parts (so that a hand-over of a stored map is
/// longer than the small channel buffers).
pub const WIDE_KEYS: [&str; 12] = ["k0", "k1", "k2", "k3", "k4", "k5", "k6", "k7", "k8", "k9", "ka", "kb"];

/// A change of a store item. The bodies are always unique (no empty ones): the store log of an
/// item is compared with the item's writes position by position, and a write that is lost must not
/// be mistaken for an equal later one.
fn item_op(rng: &mut Rng, kind: Kind, unique: &mut Unique) -> Op {
    match kind {
        Kind::Value => Op::Set(unique.next()),
        Kind::Map => {
            let key = Bytes::from_static(rng.pick(&WIDE_KEYS).as_bytes());
            match rng.below(12) {
                0 => Op::Clr,
                1 | 2 => Op::Rem(key),
                _ => Op::Upd(key, unique.next()),
            }
        }
    }
}

/// The store items of a case: names are fixed, the kind is the one the item has in the first
/// incarnation. Now and then two items share a name with opposite kinds.
pub fn store_specs(rng: &mut Rng) -> Vec<StoreSpec> {
    let n = rng.range(1, 3) as usize;
    let mut v: Vec<StoreSpec> = (0..n)
        .map(|i| {
            let kind = if rng.chance(2, 5) { Kind::Value } else { Kind::Map };
            StoreSpec { name: format!("s{i}"), kind }
        })
        .collect();
    if rng.chance(1, 5) {
        let first = v[0].clone();
        v.push(StoreSpec { name: first.name, kind: if first.kind == Kind::Value { Kind::Map } else { Kind::Value } });
    }
    v
}

fn aliased(stores: &[StoreSpec], i: usize) -> bool {
    stores.iter().enumerate().any(|(j, s)| j != i && s.name == stores[i].name)
}

fn insert_at(steps: &mut Vec<Step>, from: usize, rng: &mut Rng, step: Step) -> usize {
    let at = from + rng.usize_below(steps.len() - from + 1);
    steps.insert(at, step);
    at
}

/// Adds the store items to a plan: how each is requested, the request step of the dynamic ones and
/// `writes` changes of the items, spread over the script (a change that comes before the item
/// exists waits for it).
fn add_store_items(rng: &mut Rng, p: &mut Plan, stores: Vec<StoreSpec>, dynamic_share: (u64, u64), writes: usize, unique: &mut Unique) {
    let n = stores.len();
    p.store_dynamic = (0..n).map(|_| rng.chance(dynamic_share.0, dynamic_share.1)).collect();
    p.store_faults = vec![None; n];
    p.stores = stores;
    for i in 0..n {
        if p.store_dynamic[i] {
            let upto = p.steps.len() * 2 / 3;
            let at = rng.usize_below(upto + 1);
            p.steps.insert(at, Step::RegisterStore(i));
            if rng.chance(1, 3) {
                p.steps.insert(at + 1, Step::Quiesce);
            }
        }
    }
    for _ in 0..writes {
        let i = rng.usize_below(n);
        let from = p.steps.iter().position(|s| matches!(s, Step::RegisterStore(j) if *j == i)).map_or(0, |x| x + 1);
        let op = item_op(rng, p.stores[i].kind, unique);
        let at = insert_at(&mut p.steps, from, rng, Step::StoreApply { store: i, op });
        // Now and then everything runs before the script goes on: by then the write has to be in the store.
        if rng.chance(1, 4) {
            p.steps.insert(at + 1, Step::Quiesce);
        }
    }
}

/// Part `stores`: the lanes' conversations of `Mixed`, plus store items requested during
/// initialisation or by the running agent. From the second incarnation on an item may be requested
/// with the kind it did not have before (the store holds state of the other kind under its id).
pub fn plan_stores(rng: &mut Rng, lanes: &[LaneSpec], stores: &[StoreSpec], incarnation: u32, max_len: usize, unique: &mut Unique) -> Plan {
    let mut p = plan(rng, Focus::Mixed, lanes, incarnation, max_len, unique);
    let mut now: Vec<StoreSpec> = stores.to_vec();
    if incarnation > 0 {
        for i in 0..now.len() {
            if !aliased(stores, i) && rng.chance(1, 5) {
                now[i].kind = if now[i].kind == Kind::Value { Kind::Map } else { Kind::Value };
            }
        }
    }
    let writes = rng.range(4, (max_len / 2).max(5) as u64) as usize;
    add_store_items(rng, &mut p, now, (3, 4), writes, unique);
    // A read failure would hit the store items' restoration as well: keep it (the runtime gives up),
    // but less often, so that most incarnations write through their items.
    if p.store_read_fails_at.is_some() && rng.chance(1, 2) {
        p.store_read_fails_at = None;
    }
    p
}

/// A restart that only looks, with the store items of the incarnation that is probed.
pub fn probe_plan_ext(rng: &mut Rng, lanes: &[LaneSpec], of: &Plan, incarnation: u32) -> Plan {
    let mut p = probe_plan(rng, Focus::Mixed, lanes, incarnation);
    let n = of.stores.len();
    p.stores = of.stores.clone();
    p.store_dynamic = (0..n).map(|_| rng.chance(2, 3)).collect();
    p.store_faults = vec![None; n];
    p.store_mode = of.store_mode;
    for i in 0..n {
        if p.store_dynamic[i] {
            // Before the final quiesce; after the remote attached.
            let at = 1 + rng.usize_below(p.steps.len() - 1);
            p.steps.insert(at, Step::RegisterStore(i));
        }
    }
    p
}

fn pick_fault(rng: &mut Rng, t: u64) -> InitFault {
    match rng.below(16) {
        0 | 1 => InitFault::Mute,
        2 | 3 => InitFault::NeverReads,
        4 | 5 => InitFault::DropAfter(rng.usize_below(4)),
        6 | 7 => InitFault::DropAtComplete,
        8 => InitFault::DropWriterAtComplete,
        9 | 10 => InitFault::Garbage,
        11 | 12 => InitFault::DropPromise,
        _ => InitFault::SlowAck(*rng.pick(&[t / 4, t / 2, t.saturating_sub(1), t + 1, 2 * t])),
    }
}

/// Sets misbehaviours of one or two persistent items (lanes / store items) of a plan, a short item
/// initialisation time-out, and a closing stretch in which a remote addresses the lanes concerned.
fn add_init_faults(rng: &mut Rng, p: &mut Plan) {
    let t = *rng.pick(&[20u64, 60, 200]);
    p.item_init_timeout_ms = t;
    let persistent: Vec<usize> = (0..p.lanes.len()).filter(|l| !p.lanes[*l].transient).collect();
    let mut faulty_lanes = vec![];
    // One incarnation in four: every item behaves, but the store refuses one `id_for` call (the
    // first, second or third for the name of one persistent lane or store item), once.
    let nth_id_fault = rng.chance(1, 4) && !(persistent.is_empty() && p.stores.is_empty());
    if nth_id_fault {
        let name = if !p.stores.is_empty() && (persistent.is_empty() || rng.chance(1, 4)) {
            p.stores[rng.usize_below(p.stores.len())].name.clone()
        } else {
            p.lanes[*rng.pick(&persistent)].name.clone()
        };
        let n = *rng.pick(&[1usize, 2, 2, 3]);
        p.id_fails_nth = Some((name, n));
    }
    for _ in 0..if nth_id_fault { 0 } else { rng.range(1, 2) } {
        let on_store = !p.stores.is_empty() && (persistent.is_empty() || rng.chance(1, 3));
        if on_store {
            let i = rng.usize_below(p.stores.len());
            if rng.chance(1, 8) && p.id_fails_for.is_none() {
                p.store_faults[i] = Some(InitFault::IdError);
                p.id_fails_for = Some(p.stores[i].name.clone());
            } else {
                p.store_faults[i] = Some(pick_fault(rng, t));
            }
        } else if !persistent.is_empty() {
            let l = *rng.pick(&persistent);
            if rng.chance(1, 10) && p.id_fails_for.is_none() {
                p.lane_faults[l] = Some(InitFault::IdError);
                p.id_fails_for = Some(p.lanes[l].name.clone());
            } else {
                p.lane_faults[l] = Some(pick_fault(rng, t));
            }
            faulty_lanes.push(l);
        }
    }
    // No other injected failures in the same incarnation.
    p.store_fails_from = None;
    p.store_read_fails_at = None;
    // Later: the handshakes are over one way or the other; a fresh remote addresses every lane.
    let _ = faulty_lanes;
    p.steps.push(Step::Advance(3 * t + 5));
}

/// The closing stretch: a fresh fast remote (number 0) syncs every lane that was registered, the
/// lanes change once more, everything quiesces. What that remote has then been shown is the lanes'
/// state (`oracle_ext::closing_view`).
fn push_closing(rng: &mut Rng, p: &mut Plan, unique: &mut Unique) {
    p.closing_from = Some(p.steps.len());
    p.steps.push(Step::Drain);
    p.steps.push(Step::DropRemote(0));
    p.steps.push(Step::Attach(0));
    let n = p.lanes.len();
    let registered: Vec<usize> = (0..n).filter(|l| !p.dynamic[*l] || p.steps.iter().any(|s| matches!(s, Step::Register(x) if x == l))).collect();
    for l in &registered {
        p.steps.push(Step::Sync(0, *l));
    }
    p.steps.push(Step::Quiesce);
    for _ in 0..rng.range(1, 4) {
        if registered.is_empty() {
            break;
        }
        let l = *rng.pick(&registered);
        let op = lane_op(rng, &p.lanes[l], unique);
        p.steps.push(Step::Apply { lane: l, op, defer: false });
    }
    p.steps.push(Step::Quiesce);
    p.steps.push(Step::Quiesce);
    p.drain_before_end = true;
}

/// Part `init-faults`, first incarnation: fills the store (wide maps, small lane buffers come from
/// the lane specs), no misbehaviour. Later incarnations: `Mixed` conversations with one or two
/// misbehaving items.
pub fn plan_init_faults(rng: &mut Rng, lanes: &[LaneSpec], stores: &[StoreSpec], incarnation: u32, max_len: usize, unique: &mut Unique) -> Plan {
    let mut p = plan(rng, Focus::Mixed, lanes, incarnation, max_len, unique);
    let writes = rng.range(3, 10) as usize;
    add_store_items(rng, &mut p, stores.to_vec(), (2, 3), writes, unique);
    if incarnation == 0 {
        // The store is to hold something: no injected failures, every lane exists from the start and
        // its map is filled early.
        p.store_fails_from = None;
        p.store_read_fails_at = None;
        let mut fill = vec![];
        for l in 0..lanes.len() {
            if lanes[l].transient {
                continue;
            }
            if p.dynamic[l] && !p.steps.iter().any(|s| matches!(s, Step::Register(x) if *x == l)) {
                continue;
            }
            for _ in 0..rng.range(3, 10) {
                let op = match lanes[l].kind {
                    Kind::Value => Op::Set(unique.next()),
                    Kind::Map => Op::Upd(Bytes::from_static(rng.pick(&WIDE_KEYS).as_bytes()), unique.next()),
                };
                fill.push(Step::Apply { lane: l, op, defer: false });
            }
        }
        // After the registrations of the first third of the script.
        let at = p.steps.len() / 3;
        for (k, s) in fill.into_iter().enumerate() {
            p.steps.insert((at + k).min(p.steps.len()), s);
        }
        p.steps.push(Step::Quiesce);
    } else {
        add_init_faults(rng, &mut p);
        push_closing(rng, &mut p, unique);
    }
    p
}

/// A probe restart of the part `init-faults`: the looking restart, with misbehaving items.
pub fn probe_plan_init_faults(rng: &mut Rng, lanes: &[LaneSpec], of: &Plan, incarnation: u32) -> Plan {
    let mut p = probe_plan_ext(rng, lanes, of, incarnation);
    // The probe registers and syncs; with a misbehaving item the syncs come after the handshakes ended.
    add_init_faults(rng, &mut p);
    let mut none = Unique(u64::MAX / 2);
    push_closing(rng, &mut p, &mut none);
    p
}

/// Part `no-store`: the `Mixed` conversations on an agent that has no usable store although its
/// lanes are declared persistent and it requests store items; then a closing stretch: a fresh fast
/// remote syncs every lane, the lanes change once more, everything quiesces.
pub fn plan_nostore(rng: &mut Rng, mode: StoreMode, lanes: &[LaneSpec], stores: &[StoreSpec], incarnation: u32, max_len: usize, unique: &mut Unique) -> Plan {
    let mut p = plan(rng, Focus::Mixed, lanes, incarnation, max_len, unique);
    p.store_mode = mode;
    p.store_fails_from = None;
    p.store_read_fails_at = None;
    let writes = rng.range(2, 8) as usize;
    add_store_items(rng, &mut p, stores.to_vec(), (1, 2), writes, unique);
    // Mostly without the runtime stopping by itself in the middle (then the closing stretch is not reached).
    if p.ending != Ending::Timeout && rng.chance(2, 3) {
        p.timeout_ms = None;
    }
    push_closing(rng, &mut p, unique);
    p
}

/// Lane specs of the extension parts: mostly persistent; `small`: small lane buffers (a stored map
/// does not fit into the channel at once).
pub fn lane_specs_ext(rng: &mut Rng, small: bool, all_persistent: bool) -> Vec<LaneSpec> {
    let mut v = lane_specs(rng, Focus::Dynamic);
    for l in v.iter_mut() {
        if all_persistent {
            l.transient = false;
        }
        if small {
            l.in_buf = *rng.pick(&[8usize, 16, 24, 64, 4096]);
        }
    }
    v
}
